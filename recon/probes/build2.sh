#!/bin/bash
# usage: build2.sh <srcroot> <outdir> <compiler> <flags...>
root=$1; shift; out=$1; shift; cxx=$1; shift
mkdir -p $out
for f in $root/src/*.cpp; do
  b=$(basename $f .cpp)
  if [ ! -f $out/$b.o ] || [ $f -nt $out/$b.o ] ; then $cxx -std=c++14 "$@" -I$root/include -I/repo/_build/generated -c $f -o $out/$b.o & fi
done
wait
rm -f $out/libphysica.a; ar rcs $out/libphysica.a $out/*.o
