#include "libphysica/Special_Functions.hpp"
#include "libphysica/Verif_Hooks.hpp"
#include <cstdio>
#include <stdexcept>
using namespace libphysica;
static long ticks=0, budget=1000000; struct StepLimit{ const char* site; };
static void handler(const char* site){ if(++ticks>budget) throw StepLimit{site}; }
int main(){ verif::tick_handler=handler; double q=GammaQ(50.0,20.0); printf("Q=%g ticks=%ld\n",q,ticks); ticks=0; budget=5; try{ q=GammaQ(50.0,20.0); printf("no throw\n"); } catch(StepLimit&e){ printf("StepLimit caught at %s after %ld ticks\n",e.site,ticks);} budget=1000000; ticks=0; q=GammaQ(30.0,20.0); printf("after: Q=%g ticks=%ld\n",q,ticks); }
