#include "libphysica/Linear_Algebra.hpp"
#include <cstdio>
#include <cmath>
#include <random>
#include <algorithm>
using namespace libphysica;
typedef long double ld;
static std::vector<std::vector<ld>> inv_ref(const std::vector<std::vector<double>>&M,ld&det){ int n=M.size(); std::vector<std::vector<ld>> A(n,std::vector<ld>(2*n,0)); for(int i=0;i<n;i++){for(int j=0;j<n;j++)A[i][j]=M[i][j]; A[i][n+i]=1;} det=1; for(int i=0;i<n;i++){ int p=i; for(int j=i+1;j<n;j++) if(fabsl(A[j][i])>fabsl(A[p][i]))p=j; if(p!=i){std::swap(A[i],A[p]);det=-det;} det*=A[i][i]; ld pv=A[i][i]; for(int k=0;k<2*n;k++)A[i][k]/=pv; for(int j=0;j<n;j++) if(j!=i){ ld r=A[j][i]; for(int k=0;k<2*n;k++)A[j][k]-=r*A[i][k]; } } std::vector<std::vector<ld>> X(n,std::vector<ld>(n)); for(int i=0;i<n;i++)for(int j=0;j<n;j++)X[i][j]=A[i][n+j]; return X; }
int main(){
  std::mt19937_64 g(55); auto U=[&](double a,double b){return std::uniform_real_distribution<double>(a,b)(g);}; std::normal_distribution<double> N01;
  double worst_inv=0, worst_det=0, worst_qr=0, worst_orth=0, worst_tri=0;
  for(int it=0;it<20000;it++){ int n=1+it%7; std::vector<std::vector<double>> M(n,std::vector<double>(n));
    int kind=it%5; // dense, graded cond, with zeros, permutation-ish, tiny pivot
    for(int i=0;i<n;i++)for(int j=0;j<n;j++) M[i][j]=N01(g);
    if(kind==1){ double c=pow(10,U(0,8)); for(int i=0;i<n;i++)for(int j=0;j<n;j++) M[i][j]*=pow(c,-(double)j/std::max(1,n-1)); }
    if(kind==2){ for(int i=0;i<n;i++)for(int j=0;j<n;j++) if(U(0,1)<0.4&&i!=j) M[i][j]=0; M[0][0]=0; if(n==1) M[0][0]=1.5; }
    if(kind==3){ std::vector<int> p(n); for(int i=0;i<n;i++)p[i]=i; std::shuffle(p.begin(),p.end(),g); for(int i=0;i<n;i++)for(int j=0;j<n;j++) M[i][j]=(p[i]==j)?(U(0,1)<0.5?-1:1)*U(0.5,2):0; }
    if(kind==4){ M[0][0]=1e-14*N01(g); }
    ld detref; auto Xr=inv_ref(M,detref); if(fabsl(detref)<1e-30) continue;
    // cond (inf-norm-ish Frobenius)
    ld nM=0,nX=0; for(int i=0;i<n;i++)for(int j=0;j<n;j++){ nM+=(ld)M[i][j]*M[i][j]; nX+=Xr[i][j]*Xr[i][j]; } nM=sqrtl(nM); nX=sqrtl(nX); ld cond=nM*nX; if(cond>1e10) continue;
    Matrix A(M); double det=A.Determinant();
    // permanent of |A| for tolerance
    std::vector<int> idx(n); for(int i=0;i<n;i++) idx[i]=i; ld perm=0; do{ ld p=1; for(int i=0;i<n;i++) p*=fabsl(M[i][idx[i]]); perm+=p; }while(std::next_permutation(idx.begin(),idx.end()));
    worst_det=std::max(worst_det,(double)(fabsl(det-detref)/(n*2.2e-16L*perm+1e-300L)));
    if(det==0) continue;
    Matrix X=A.Inverse(); ld e=0; for(int i=0;i<n;i++)for(int j=0;j<n;j++){ ld d=X[i][j]-Xr[i][j]; e+=d*d; } e=sqrtl(e)/nX; double ratio=e/(n*cond*2.2e-16L); if(ratio>worst_inv){worst_inv=ratio; if(ratio>8) printf("inv ratio=%g n=%d kind=%d cond=%Lg\n",ratio,n,kind,cond);} 
    if(kind<2 && cond<1e6){ auto QR=QR_Decomposition(A); Matrix QRm=QR.first*QR.second; Matrix QQ=QR.first*QR.first.Transpose(); double e1=0,e2=0,e3=0; for(int i=0;i<n;i++)for(int j=0;j<n;j++){ e1=std::max(e1,fabs(QRm[i][j]-M[i][j])); e2=std::max(e2,fabs(QQ[i][j]-(i==j))); if(i>j) e3=std::max(e3,fabs(QR.second[i][j])); } worst_qr=std::max(worst_qr,e1/(double)nM/2.2e-16/n); worst_orth=std::max(worst_orth,e2/2.2e-16/n); worst_tri=std::max(worst_tri,e3); }
  }
  printf("worst det err /(n eps perm)=%g; inverse err/(n cond eps)=%g; QR recon /(n eps |M|)=%g; orth/(n eps)=%g; subdiag=%g\n",worst_det,worst_inv,worst_qr,worst_orth,worst_tri);
}
