#include "libphysica/Integration.hpp"
#include <cstdio>
#include <cmath>
#include <random>
#include <cstring>
namespace libphysica{ namespace verif{ extern bool mc_seed_override; extern unsigned int mc_seed_value; }}
using namespace libphysica;
int main(int argc,char**argv){ int skipbefore=argc>1?atoi(argv[1]):0; int skiphist=argc>2?atoi(argv[2]):0;
  std::mt19937_64 g(1);
  auto U=[&](double a,double b){return std::uniform_real_distribution<double>(a,b)(g);};
  verif::mc_seed_override=true;
  const char* M[]={"Monte-Carlo","Vegas","Miser"};
  // families
  auto mkf=[&](int fam,int dim,std::vector<double> reg){ std::function<double(std::vector<double>&,const double)> f; 
     if(fam==0) f=[=](std::vector<double>&x,const double){return 2.5;};
     else if(fam==1) f=[=](std::vector<double>&x,const double){double s=1; for(int i=0;i<dim;i++) s*=exp(-0.3*(x[i]-reg[i])/(reg[i+dim]-reg[i])); return s;};
     else if(fam==2) f=[=](std::vector<double>&x,const double){double s=0; for(int i=0;i<dim;i++){ double c=reg[i]+0.3*(reg[i+dim]-reg[i]), w=0.2*(reg[i+dim]-reg[i]); s+=(x[i]-c)*(x[i]-c)/(w*w);} return exp(-0.5*s);};
     else f=[=](std::vector<double>&x,const double){ double s=0; for(int i=0;i<dim;i++){ double u=(x[i]-reg[i])/(reg[i+dim]-reg[i]); if(u>0.1) return 0.0; s+=u;} return 1.0+s;}; // mostly-zero indicator
     return f; };
  long mism[3]={0},tot[3]={0}; long outside[3]={0};
  for(int it=0;it<300;it++){
    int dim=1+it%6; std::vector<double> reg(2*dim); for(int i=0;i<dim;i++){ reg[i]=U(-5,5); reg[i+dim]=reg[i]+pow(10,U(-3,3)); }
    int fam=(it/6)%3; auto f=mkf(fam,dim,reg); int nc=1000*(1+it%7);
    for(int m=0;m<3;m++){
      bool out=false; std::function<double(std::vector<double>&,const double)> fw=[&](std::vector<double>&x,const double w){ for(int i=0;i<dim;i++) if(x[i]<reg[i]||x[i]>reg[i+dim]) out=true; return f(x,w);};
      verif::mc_seed_value=1000+it; fprintf(stderr,"CASE it=%d m=%s dim=%d fam=%d nc=%d seed=%d reg:",it,M[m],dim,fam,nc,1000+it); for(int i=0;i<2*dim;i++) fprintf(stderr," %.17g",reg[i]); fprintf(stderr,"\n"); double r1= (it<skipbefore)?0.0:Integrate_MC(fw,reg,nc,M[m]); if(out) outside[m]++;
      // history: run some other integrations
      for(int h=0;h<1+it%3;h++){ int d2=1+(int)U(0,5.99); std::vector<double> r2(2*d2); for(int i=0;i<d2;i++){ r2[i]=U(-5,5); r2[i+d2]=r2[i]+pow(10,U(-3,3)); } auto f2=mkf((int)U(0,2.99),d2,r2); verif::mc_seed_value=(unsigned)U(0,1e9); {int ncc=500+(int)U(0,5000); const char* mm=M[(int)U(0,2.99)]; if(it>=skipbefore && !skiphist) Integrate_MC(f2,r2,ncc,mm);} }
      verif::mc_seed_value=1000+it; double r3=(it<skipbefore)?0.0:Integrate_MC(fw,reg,nc,M[m]);
      tot[m]++; if(std::memcmp(&r1,&r3,8)!=0){ mism[m]++; if(mism[m]<4) printf("HISTORY DEP %s dim=%d fam=%d nc=%d r1=%.17g r3=%.17g\n",M[m],dim,fam,nc,r1,r3);} 
    }
  }
  for(int m=0;m<3;m++) printf("%s: history mismatches %ld/%ld outside=%ld\n",M[m],mism[m],tot[m],outside[m]);
}
