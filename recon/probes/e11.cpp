#include "libphysica/Integration.hpp"
#include <cstdio>
#include <cmath>
#include <random>
#include <complex>
using namespace libphysica;
int main(){
  std::mt19937_64 g(1717);
  auto U=[&](double a,double b){return std::uniform_real_distribution<double>(a,b)(g);};
  const char* methods[]={"Trapezoidal","Gauss-Legendre","Gauss-Kronrod","Tanh-Sinh","Gauss-Legendre_2","Adaptive-Simpson"};
  double worst[6][3]={{0}}; long over[6][3]={{0}}, tot[3]={0};
  for(int it=0;it<30000;it++){ int fam=it%3; double a=U(-2,2), w=U(0.2,3), b=a+w; std::function<double(double)> f; long double ex;
    if(fam==0){ double k=U(0.1,1.5), om=U(0,2*2*M_PI/w); double ph=U(0,6); f=[=](double x){return exp(-k*x)*cos(om*x+ph);}; auto F=[=](long double x){ std::complex<long double> c(-k,om); std::complex<long double> v=std::exp(c*x+std::complex<long double>(0,ph))/c; return v.real(); }; ex=F(b)-F(a);} 
    else if(fam==1){ double c=U(-3,3), s=U(0.5,3); f=[=](double x){return 1.0/(1+((x-c)/s)*((x-c)/s));}; ex=s*(atanl((b-c)/(long double)s)-atanl((a-c)/(long double)s)); }
    else { double c=U(a,b), s=U(0.3,2); f=[=](double x){return exp(-0.5*((x-c)/s)*((x-c)/s));}; ex=s*sqrtl(M_PIl/2)*(erfl((b-c)/(s*sqrtl(2.0L)))-erfl((a-c)/(s*sqrtl(2.0L)))); }
    // L1 norm by fine composite Simpson
    int n=2000; long double L1=0; for(int i=0;i<=n;i++){ double x=a+(b-a)*i/n; long double wgt=(i==0||i==n)?1:(i%2?4:2); L1+=wgt*fabsl(f(x)); } L1*=(b-a)/(3.0L*n);
    tot[fam]++;
    for(int m=0;m<6;m++){ double I=Integrate(f,a,b,methods[m]); double rel=fabsl(I-ex)/L1; worst[m][fam]=std::max(worst[m][fam],rel); if(rel>(m==0?1e-6:1e-9)) over[m][fam]++; }
  }
  for(int m=0;m<6;m++){ printf("%-18s",methods[m]); for(int f=0;f<3;f++) printf(" fam%d worst=%.3g over=%ld/%ld |",f,worst[m][f],over[m][f],tot[f]); printf("\n"); }
}
