#include "libphysica/Numerics.hpp"
#include "libphysica/Linear_Algebra.hpp"
#include "libphysica/Special_Functions.hpp"
#include <cstdio>
#include <cmath>
#include <random>
#include <cstring>
#include <complex>
using namespace libphysica;
int main(int argc,char**argv){
  std::mt19937_64 g(2718);
  auto U=[&](double a,double b){return std::uniform_real_distribution<double>(a,b)(g);};
  std::normal_distribution<double> N01;
  std::string t=argv[1];
  if(t=="min1d"){ long worse=0,far=0,total=0; double worstfar=0;
    for(int it=0;it<200000;it++){ int fam=it%5; double m=U(-10,10)*pow(10,U(-2,2)), s=pow(10,U(-2,2)); std::function<double(double)> f; 
      if(fam==0) f=[=](double x){return (x-m)*(x-m)/s;}; else if(fam==1) f=[=](double x){double d=(x-m)/s; return d*d*d*d;}; else if(fam==2) f=[=](double x){return cosh((x-m)/s);} ; else if(fam==3) f=[=](double x){ double r=(x-m)/s+2; if(r<=0.05) return 1e30*(1+0.05-r); double r6=pow(r,-6); return r6*r6-2*r6;}; /* LJ min at r=1 -> x=m-s */ else f=[=](double x){return sin(3*x)+0.1*(x-m)*(x-m)/s + cos(7*x+1);};
      double tol=pow(10,-U(3,12)); double step=pow(10,U(-3,3))*s; double x0=m+U(-5,5)*s*pow(10,U(0,1)); double x1=x0+(U(0,1)<0.5?-1:1)*step;
      if(fam==2 && (fabs((x0-m)/s)>600||fabs((x1-m)/s)>600)) continue;
      double f0=f(x0),f1=f(x1); double r=Find_Minimum(f,x0,x1,tol); total++;
      if(f(r)>std::min(f0,f1)) { worse++; if(worse<6) printf("WORSE fam=%d x0=%g x1=%g r=%g f0=%g f1=%g fr=%g\n",fam,x0,x1,r,f0,f1,f(r)); }
      if(fam<4){ double xm=(fam==3)? m-s : m; double dist=fabs(r-xm); double allow= (fam==1? pow(1e-16,0.25)*s*4+  tol*fabs(xm)*10 : 10*(tol*fabs(xm)+ sqrt(2.2e-16)*s*(1+0)) ) + 4*sqrt(2.2e-16)*std::max(fabs(xm),s); if(dist>allow){ far++; worstfar=std::max(worstfar,dist/allow); if(far<6) printf("FAR fam=%d m=%g s=%g tol=%g r=%.12g xm=%.12g dist=%g allow=%g\n",fam,m,s,tol,r,xm,dist,allow);} }
    }
    printf("min1d total=%ld worse=%ld far=%ld worstfar=%g\n",total,worse,far,worstfar);
  }
  if(t=="nm"){ long worse=0,far=0,total=0,incons=0; 
    for(int it=0;it<20000;it++){ int n=1+it%6; // quadratic bowl x^T A x with cond up to 1e4
      std::vector<std::vector<double>> Q(n,std::vector<double>(n)); for(int i=0;i<n;i++){ for(int j=0;j<n;j++) Q[i][j]=N01(g); for(int k=0;k<i;k++){ double d=0; for(int j=0;j<n;j++) d+=Q[i][j]*Q[k][j]; for(int j=0;j<n;j++) Q[i][j]-=d*Q[k][j]; } double nr=0; for(int j=0;j<n;j++) nr+=Q[i][j]*Q[i][j]; nr=sqrt(nr); for(int j=0;j<n;j++) Q[i][j]/=nr; }
      std::vector<double> lam(n),c(n); double cond=pow(10,U(0,4)); for(int i=0;i<n;i++){ lam[i]=pow(cond,n==1?0:(double)i/(n-1)); c[i]=U(-5,5);} double f0=U(-3,3);
      auto f=[&](std::vector<double> x){ double s=f0; for(int k=0;k<n;k++){ double p=0; for(int j=0;j<n;j++) p+=Q[k][j]*(x[j]-c[j]); s+=lam[k]*p*p; } return s; };
      double ftol=pow(10,-U(3,12)); Minimization M(ftol); std::vector<double> st(n); for(int i=0;i<n;i++) st[i]=c[i]+U(-10,10); double del=pow(10,U(-3,3));
      double best=f(st); for(int i=0;i<n;i++){ auto p=st; p[i]+=del; best=std::min(best,f(p)); }
      std::vector<double> r=M.minimize(st,del,f); total++;
      double fr=f(r); if(fr>best) worse++; if(M.fmin!=fr || M.y[0]!=fr) incons++;
      double d=0; for(int i=0;i<n;i++) d+=(r[i]-c[i])*(r[i]-c[i]); d=sqrt(d);
      // f - fmin <= ~ ftol*|f| => dist <= sqrt(ftol*(|f0|+tiny)/lam_min) roughly
      double allow=30*sqrt((ftol*(fabs(f0)+1e-10)+1e-15)/1.0)+1e-7; if(d>allow){ far++; if(far<8) printf("FAR n=%d cond=%g ftol=%g f0=%g d=%g allow=%g fr-f0=%g nfunc=%d\n",n,cond,ftol,f0,d,allow,fr-f0,M.nfunc);} }
    printf("nm total=%ld worse=%ld incons=%ld far=%ld\n",total,worse,incons,far);
  }
  if(t=="rot"){ double w_orth=0,w_det=0,w_axis=0,w_comp=0,w_ang=0; long nan=0;
    for(int it=0;it<200000;it++){ double al=U(-4*M_PI,4*M_PI), be=U(-4*M_PI,4*M_PI); Vector ax({N01(g),N01(g),N01(g)}); int k=it%10; if(k<6){ ax=Vector({0,0,0}); ax[k%3]=(k<3?1:-1);} else if(k==6){ ax=Vector({U(-1,1)*1e-12,U(-1,1)*1e-12,(it%20<10?1.:-1.)}); } ax=ax*pow(10,U(-6,6));
      Matrix R=Rotation_Matrix(al,3,ax), R2=Rotation_Matrix(be,3,ax), R12=Rotation_Matrix(al+be,3,ax); Matrix I=R*R.Transpose(); double e=0; for(int i=0;i<3;i++)for(int j=0;j<3;j++) e=std::max(e,fabs(I[i][j]-(i==j))); w_orth=std::max(w_orth,e); w_det=std::max(w_det,fabs(R.Determinant()-1)); Vector n=ax.Normalized(); Vector rn=R*n-n; w_axis=std::max(w_axis,rn.Norm()); Matrix C=R*R2; e=0; for(int i=0;i<3;i++)for(int j=0;j<3;j++) e=std::max(e,fabs(C[i][j]-R12[i][j])); w_comp=std::max(w_comp,e);
      // perpendicular vector turned by alpha right-handed
      Vector v({N01(g),N01(g),N01(g)}); v=v-(v*n)*n; v.Normalize(); Vector rv=R*v; double c=rv*v, s=(v.Cross(rv))*n; double ang=atan2(s,c); double d=remainder(ang-al,2*M_PI); w_ang=std::max(w_ang,fabs(d)); if(std::isnan(e)) nan++; }
    printf("rot orth=%g det=%g axis=%g comp=%g ang=%g nan=%ld\n",w_orth,w_det,w_axis,w_comp,w_ang,nan);
  }
  if(t=="vsh"){ double w_conj=0,w_Y=0,w_tan=0,w_grad=0; using cd=std::complex<double>;
    for(int l=0;l<=12;l++)for(int m=-l;m<=l;m++)for(int rep=0;rep<40;rep++){ double th=U(0,M_PI),ph=U(0,2*M_PI); if(rep==0)th=0; if(rep==1) th=M_PI; if(rep==2) th=M_PI/2; if(rep==3){th=M_PI/2;ph=0;} if(rep==4){th=1e-8;} 
      cd y=Spherical_Harmonics(l,m,th,ph), ym=Spherical_Harmonics(l,-m,th,ph); w_conj=std::max(w_conj,std::abs(ym-(m%2?-1.0:1.0)*std::conj(y)));
      auto Y=Vector_Spherical_Harmonics_Y(l,m,th,ph); double rh[3]={sin(th)*cos(ph),sin(th)*sin(ph),cos(th)}; for(int i=0;i<3;i++) w_Y=std::max(w_Y,std::abs(Y[i]-rh[i]*y));
      auto P=Vector_Spherical_Harmonics_Psi(l,m,th,ph); cd dot=0; for(int i=0;i<3;i++) dot+=P[i]*rh[i]; w_tan=std::max(w_tan,std::abs(dot)/(1.0+l*l));
      if(rep>=5 || rep==2||rep==3){ // gradient: dY/dth thetahat + (im/sin th) Y phihat
        cd dth = (double)m/tan(th)*y + ((l>=m+1)? sqrt((double)(l-m)*(l+m+1))*std::exp(cd(0,-ph))*Spherical_Harmonics(l,m+1,th,ph):cd(0,0));
        double thh[3]={cos(th)*cos(ph),cos(th)*sin(ph),-sin(th)}, phh[3]={-sin(ph),cos(ph),0}; cd dph=cd(0,m)*y/sin(th);
        double scale=1+l*l/std::max(sin(th),1e-3); for(int i=0;i<3;i++) w_grad=std::max(w_grad,std::abs(P[i]-(dth*thh[i]+dph*phh[i]))/scale); }
    }
    printf("vsh conj=%g Y=%g tangential=%g grad=%g\n",w_conj,w_Y,w_tan,w_grad);
  }
  return 0; }
