#include "libphysica/Linear_Algebra.hpp"
#include "libphysica/Numerics.hpp"
#include "libphysica/Special_Functions.hpp"
#include "libphysica/List_Manipulations.hpp"
#include "libphysica/Statistics.hpp"
#include "libphysica/Utilities.hpp"
#include <cstdio>
#include <cstring>
#include <cmath>
using namespace libphysica;
int main(int argc,char**argv){
  std::string t=argv[1];
  if(t=="plus_same"){ Matrix A(2,3,1.0),B(2,3,2.0); Matrix C=A.Plus(B); printf("ok %g\n",C[1][2]); }
  if(t=="plus_transposed"){ Matrix A(2,3,1.0),B(3,2,2.0); Matrix C=A.Plus(B); printf("returned %g\n",C[1][2]); }
  if(t=="vec_pluseq_long"){ Vector a(2,1.0), b(3,2.0); a+=b; printf("returned %g\n",a[1]); }
  if(t=="vec_pluseq_short"){ Vector a(3,1.0), b(2,2.0); a+=b; printf("returned %g\n",a[1]); }
  if(t=="cross4"){ Vector a(3,1.0), b(4,2.0); Vector c=a.Cross(b); printf("returned %g\n",c[1]); }
  if(t=="sublist"){ std::vector<double> v={1,2,3}; auto s=Sub_List(v,0,3); printf("returned size %zu last %g\n",s.size(),s.back()); }
  if(t=="sublist_big"){ std::vector<double> v={1,2,3}; auto s=Sub_List(v,0,10); printf("returned size %zu last %g\n",s.size(),s.back()); }
  if(t=="interp2"){ Interpolation I(std::vector<double>{0,1},std::vector<double>{0,1}); printf("returned %g\n",I(0.5)); }
  if(t=="interp1"){ Interpolation I(std::vector<double>{0},std::vector<double>{0}); printf("returned %g\n",I(0.0)); }
  if(t=="interp0"){ Interpolation I(std::vector<double>{},std::vector<double>{}); printf("returned\n"); }
  if(t=="locmin"){ Interpolation I(std::vector<double>{0,1,2,3},std::vector<double>{5,3,0,4}); printf("Local_Minimum(0.5,2.5)=%g  f(2)=%g\n",I.Local_Minimum(0.5,2.5),I(2.0));
     I.Set_Prefactor(-2.0); printf("pref -2: Local_Min(0.5,2.5)=%g Local_Max=%g GlobMin=%g GlobMax=%g f(0)=%g f(2)=%g\n",I.Local_Minimum(0.5,2.5),I.Local_Maximum(0.5,2.5),I.Global_Minimum(),I.Global_Maximum(),I(0.0),I(2.0)); }
  if(t=="feq"){ printf("Floats_Equal(0,0)=%d RelDiff=%g\n",Floats_Equal(0.0,0.0),Relative_Difference(0,0)); }
  if(t=="matidx"){ Matrix A(2,3,1.0); printf("%g\n",A[2][0]); }
  if(t=="mat_empty"){ std::vector<std::vector<double>> e; Matrix A(e); printf("returned %u x %u\n",A.Rows(),A.Columns()); }
  if(t=="spher_antiz"){ Vector ax({0,0,-1.0}); Vector v=Spherical_Coordinates(1.0,0.3,0.4,ax); printf("%g %g %g\n",v[0],v[1],v[2]); 
      Vector ax2({1e-13,0,-1.0}); v=Spherical_Coordinates(1.0,0.3,0.4,ax2); printf("%g %g %g norm %g angle %g\n",v[0],v[1],v[2],v.Norm(),Angle(v,ax2));
      Vector ax3({1e-9,0,1.0}); v=Spherical_Coordinates(1.0,0.3,0.4,ax3); printf("%g %g %g norm %g angle %g\n",v[0],v[1],v[2],v.Norm(),Angle(v,ax3));}
  if(t=="inv_perm"){ Matrix P(std::vector<std::vector<double>>{{0,1},{1,0}}); Matrix X=P.Inverse(); printf("returned %g\n",X[0][1]); }
  if(t=="inv_tiny"){ Matrix P(std::vector<std::vector<double>>{{1e-17,1},{1,1}}); Matrix X=P.Inverse(); Matrix R=X*P; printf("X*P = %g %g %g %g\n",R[0][0],R[0][1],R[1][0],R[1][1]); }
  if(t=="eig_diag"){ Matrix M(std::vector<double>{3,2,1}); auto es=Eigensystem(M); printf("returned %g\n",es.first[0]); }
  if(t=="eig_rand"){ Matrix M(std::vector<std::vector<double>>{{2,1,0.3},{1,3,0.2},{0.3,0.2,7}}); auto es=Eigensystem(M); for(int i=0;i<3;i++){ Vector r=M*es.second[i]-es.first[i]*es.second[i]; printf("lambda %g resid %g\n",es.first[i],r.Norm());} }
  if(t=="factorial171"){ printf("%g\n",Factorial(171)); }
  if(t=="transposelists_empty"){ std::vector<std::vector<double>> e; auto r=Transpose_Lists(e); printf("returned %zu\n",r.size()); }
  return 0;
}
