#include "libphysica/Numerics.hpp"
#include <cstdio>
#include <cmath>
#include <random>
#include <algorithm>
using namespace libphysica;
typedef long double ld;
struct Ref{ int N; std::vector<ld> x,y,a,b,c,d; 
  static ld sgn(ld v){return v>0?1:(v<0?-1:0);} 
  Ref(const std::vector<double>&X,const std::vector<double>&Y):N(X.size()),x(X.begin(),X.end()),y(Y.begin(),Y.end()){ std::vector<ld> h(N-1),s(N-1),dy(N); for(int i=0;i<N-1;i++){h[i]=x[i+1]-x[i]; s[i]=(y[i+1]-y[i])/h[i];}
    for(int i=0;i<N;i++){ if(i==0){ ld p=s[0]*(1+h[0]/(h[0]+h[1]))-s[1]*h[0]/(h[0]+h[1]); dy[i]= (p*s[0]<=0)?0: (fabsl(p)>2*fabsl(s[0])?2*s[0]:p);} else if(i==N-1){ ld p=s[N-2]*(1+h[N-2]/(h[N-2]+h[N-3]))-s[N-3]*h[N-2]/(h[N-2]+h[N-3]); dy[i]=(p*s[N-2]<=0)?0:(fabsl(p)>2*fabsl(s[N-2])?2*s[N-2]:p);} else { ld p=(s[i-1]*h[i]+s[i]*h[i-1])/(h[i-1]+h[i]); dy[i]=(sgn(s[i-1])+sgn(s[i]))*std::min(std::min(fabsl(s[i-1]),fabsl(s[i])),fabsl(p)/2);} }
    a.resize(N-1);b.resize(N-1);c.resize(N-1);d.resize(N-1); for(int i=0;i<N-1;i++){ a[i]=(dy[i]+dy[i+1]-2*s[i])/(h[i]*h[i]); b[i]=(3*s[i]-2*dy[i]-dy[i+1])/h[i]; c[i]=dy[i]; d[i]=y[i]; } }
  int seg(ld q)const{ if(q<=x[0])return 0; if(q>=x[N-1]) return N-2; int j=std::upper_bound(x.begin(),x.end(),q)-x.begin()-1; return std::min(j,N-2);} 
  ld eval(ld q,int j)const{ ld t=q-x[j]; return ((a[j]*t+b[j])*t+c[j])*t+d[j]; }
  ld der(ld q,int j,int k)const{ ld t=q-x[j]; if(k==1) return (3*a[j]*t+2*b[j])*t+c[j]; if(k==2) return 6*a[j]*t+2*b[j]; return 6*a[j]; }
  ld anti(ld q,int j)const{ ld t=q-x[j]; return (((a[j]/4*t+b[j]/3)*t+c[j]/2)*t+d[j])*t; }
  ld integ(ld p,ld q)const{ ld sg=1; if(p>q){std::swap(p,q);sg=-1;} int i=seg(p),j=seg(q); ld tot=0; for(int k=i;k<=j;k++){ ld lo=(k==i)?p:x[k], hi=(k==j)?q:x[k+1]; tot+=anti(hi,k)-anti(lo,k);} return sg*tot; }
};
int main(){
  std::mt19937_64 g(808); auto U=[&](double a,double b){return std::uniform_real_distribution<double>(a,b)(g);};
  double w_val=0,w_der[4]={0},w_int=0,w_knot=0,w_bound=0,w_mono=0; long q=0;
  for(int tb=0;tb<3000;tb++){ int N=3+(int)U(0,tb%10==0?300:25); std::vector<double> x(N),y(N); x[0]=U(-10,10)*pow(10,U(-2,2)); int style=tb%6;
    for(int i=1;i<N;i++){ double h= style<3? pow(10,U(-1,1)) : pow(10,U(-4.5,4.5)); x[i]=x[i-1]+h; }
    double mag=pow(10,U(-20,20)); for(int i=0;i<N;i++){ double v; switch(tb%5){case 0: v=U(-1,1);break; case 1: v=(i>N/3&&i<2*N/3)?0.5:U(-1,1);break; case 2: v=(i==N/2)?1e6:U(-1,1);break; case 3: v=U(-1,1)*pow(10,U(-6,0));break; default: v=sin(0.7*i)+0.01*U(-1,1);} y[i]=v*mag; }
    Interpolation I(x,y); Ref R(x,y);
    for(int k=0;k<200;k++){ int j=(int)U(0,N-1); double xq; int kk=k%6; if(kk==0) xq=x[j]; else if(kk==1) xq=std::nextafter(x[j+1],-1e300); else if(kk==2) xq=std::nextafter(x[j],1e300); else xq=x[j]+U(0,1)*(x[j+1]-x[j]); if(xq<x[j]||xq>x[j+1]) continue;
      double scale=std::max(fabs(y[j]),fabs(y[j+1])); if(kk==0&&j>0){ scale=std::max(scale,fabs(y[j-1])); } if(scale==0) continue; double hh=x[j+1]-x[j];
      int js=R.seg(xq); ld rv=R.eval(xq,js); double v=I(xq); q++;
      w_val=std::max(w_val,(double)(fabsl(v-rv)/(scale*2.2e-16L)));
      double lo=std::min(y[j],y[j+1]),hi=std::max(y[j],y[j+1]); double ex=std::max(lo-v,v-hi)/(scale*2.2e-16); w_bound=std::max(w_bound,ex);
      if(kk==0) w_knot=std::max(w_knot,fabs(v-y[j])/(scale*2.2e-16));
      for(int dk=1;dk<=3&&kk!=0;dk++){ ld rd=R.der(xq,js,dk); double dv=I.Derivative(xq,dk); double sc=scale/pow(hh,dk); w_der[dk]=std::max(w_der[dk],(double)(fabsl(dv-rd)/(sc*2.2e-16L))); }
      double x2=x[0]+U(0,1)*(x[N-1]-x[0]); ld ri=R.integ(xq,x2); double iv=I.Integrate(xq,x2); double M=0; for(int i=0;i<N;i++) M=std::max(M,fabs(y[i])); double isc=M*(fabs(xq)+fabs(x2)+fabs(x2-xq)); w_int=std::max(w_int,(double)(fabsl(iv-ri)/(isc*2.2e-16L)));
      // monotone: two points in same segment
      double xa=x[j]+U(0,1)*hh, xb=x[j]+U(0,1)*hh; if(xa>xb) std::swap(xa,xb); if(xa>=x[j]&&xb<=x[j+1]){ double fa=I(xa),fb=I(xb); double viol= (y[j+1]>=y[j])? (fa-fb):(fb-fa); w_mono=std::max(w_mono,viol/(scale*2.2e-16)); }
    }
  }
  printf("queries=%ld val-vs-ref=%g bound-excess=%g knot=%g mono=%g der1=%g der2=%g der3=%g integ=%g (all in eps*scale)\n",q,w_val,w_bound,w_knot,w_mono,w_der[1],w_der[2],w_der[3],w_int);
}
