#include "libphysica/Statistics.hpp"
#include <cstdio>
#include <cmath>
#include <random>
#include <algorithm>
using namespace libphysica;
static double ks(std::vector<double> v, std::function<double(double)> cdf){ std::sort(v.begin(),v.end()); double D=0; int n=v.size(); for(int i=0;i<n;i++){ double F=cdf(v[i]); D=std::max(D,std::max(F-(double)i/n,(double)(i+1)/n-F)); } return D*sqrt((double)n); }
int main(){ std::mt19937 g(123);
  for(double mu: {0.01,0.5,3.0,40.0,499.0,501.0,1500.0,5000.0}){ int N=100000; double s=0,s2=0; for(int i=0;i<N;i++){ double k=Sample_Poisson(g,mu); s+=k; s2+=k*k; } double m=s/N, var=s2/N-m*m; printf("poisson mu=%g mean z=%.2f var/mu=%.4f\n",mu,(m-mu)/sqrt(mu/N),var/mu); }
  { int N=200000; std::vector<double> v(N); for(auto&x:v)x=Sample_Gauss(g,1.0,2.0); printf("gauss KS sqrtN*D=%.3f\n",ks(v,[](double x){return CDF_Gauss(x,1.0,2.0);})); }
  { int N=100000; std::vector<double> v(N); for(auto&x:v)x=Inverse_Transform_Sampling([](double x){return CDF_Exponential(x,1.5);},0,40,g); printf("invtransform KS=%.3f\n",ks(v,[](double x){return CDF_Exponential(x,1.5);})); }
  { int N=100000; std::vector<double> v(N); for(auto&x:v)x=Rejection_Sampling([](double x){return PDF_Maxwell_Boltzmann(x,1.0);},0,8,0.6,g); printf("rejection KS=%.3f\n",ks(v,[](double x){return CDF_Maxwell_Boltzmann(x,1.0)/CDF_Maxwell_Boltzmann(8,1.0);})); }
  for(int th: {1,5,20}){ auto v=Sample_Metropolis(g,[](double x){return PDF_Gauss(x,0.5,1.0);},2.4,20000,th,500); printf("metropolis unbounded thinning=%d n=%zu KS=%.3f\n",th,v.size(),ks(v,[](double x){return CDF_Gauss(x,0.5,1.0);})); }
  for(int th: {1,5,20}){ auto v=Sample_Metropolis(g,[](double x){return PDF_Exponential(x,1.0);},1.5,20000,th,500,{0.0,5.0}); double nrm=CDF_Exponential(5,1.0); double mn=*std::min_element(v.begin(),v.end()),mx=*std::max_element(v.begin(),v.end()); printf("metropolis bounded thinning=%d n=%zu KS=%.3f range [%g,%g]\n",th,v.size(),ks(v,[=](double x){return CDF_Exponential(x,1.0)/nrm;}),mn,mx); }
}
