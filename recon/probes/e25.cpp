#include "libphysica/Special_Functions.hpp"
#include <cstdio>
#include <cmath>
#include <random>
using namespace libphysica;
int main(int argc,char**argv){ std::mt19937_64 g(99); auto U=[&](double a,double b){return std::uniform_real_distribution<double>(a,b)(g);}; std::string t=argv[1];
 if(t=="q"){ for(int i=0;i<6000;i++){ double a=pow(10,U(2.0001,4)); double x; int k=i%4; if(k==0) x=U(0,a+40*sqrt(a)+40); else if(k==1) x=a-1+U(-1,1)*1e-3; else if(k==2) x=std::max(0.0,a+U(-11,11)*sqrt(a)); else x=a+U(3,9)*sqrt(a); printf("%.17g %.17g %.17g %.17g\n",x,a,GammaQ(x,a),GammaP(x,a)); } }
 if(t=="inv"){ for(int i=0;i<3000;i++){ double a=pow(10,U(2.0001,3.5)); double p; int k=i%3; if(k==0)p=U(0,1); else if(k==1) p=pow(10,-U(0,12)); else p=1-pow(10,-U(0,12)); double x=Inv_GammaP(p,a); printf("%.17g %.17g %.17g %.17g\n",p,a,x,GammaP(x,a)); } }
}
