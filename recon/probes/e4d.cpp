#include "libphysica/Linear_Algebra.hpp"
#include <cstdio>
#include <cmath>
#include <random>
#include <unistd.h>
#include <sys/wait.h>
using namespace libphysica;
int main(){
  std::mt19937_64 g(4242);
  auto U=[&](double a,double b){return std::uniform_real_distribution<double>(a,b)(g);};
  std::normal_distribution<double> N01;
  int okc=0, exitc=0, hangc=0, badres=0, total=0; int bins[4]={0};
  for(int it=0;it<300;it++){
    int n=2+it%6;
    // random orthogonal via Gram-Schmidt
    std::vector<std::vector<double>> Q(n,std::vector<double>(n));
    for(int i=0;i<n;i++){ for(int j=0;j<n;j++) Q[i][j]=N01(g); for(int k=0;k<i;k++){ double d=0; for(int j=0;j<n;j++) d+=Q[i][j]*Q[k][j]; for(int j=0;j<n;j++) Q[i][j]-=d*Q[k][j]; } double nr=0; for(int j=0;j<n;j++) nr+=Q[i][j]*Q[i][j]; nr=sqrt(nr); for(int j=0;j<n;j++) Q[i][j]/=nr; }
    std::vector<double> lam(n); lam[0]=U(1,10)*(U(0,1)<0.5?-1:1); for(int i=1;i<n;i++) lam[i]=lam[i-1]*U(0.1,0.8)*(U(0,1)<0.5?-1:1);
    std::vector<std::vector<double>> M(n,std::vector<double>(n,0));
    for(int i=0;i<n;i++)for(int j=0;j<n;j++){ double s=0; for(int k=0;k<n;k++) s+=Q[k][i]*lam[k]*Q[k][j]; M[i][j]=s; }
    for(int i=0;i<n;i++)for(int j=0;j<i;j++) M[i][j]=M[j][i];
    total++;
    pid_t p=fork();
    if(p==0){ alarm(5); Matrix A(M); auto es=Eigensystem(A); double worst=0; for(int i=0;i<n;i++){ Vector r=A*es.second[i]-es.first[i]*es.second[i]; worst=std::max(worst,r.Norm()); } { double rel=worst/fabs(lam[0]); int code= rel<1e-13?0: rel<1e-11?10: rel<1e-9?11: rel<1e-7?12:13; _exit(code);}  }
    int st; waitpid(p,&st,0);
    if(WIFSIGNALED(st)) hangc++; else { int c=WEXITSTATUS(st); if(c==0) okc++; else if(c>=10){ bins[c-10]++; } else exitc++; }
  }
  printf("total=%d <1e-13:%d <1e-11:%d <1e-9:%d <1e-7:%d worse:%d exit_failure=%d hang=%d\n",total,okc,bins[0],bins[1],bins[2],bins[3],exitc,hangc);
}
