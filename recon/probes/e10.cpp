#include "libphysica/Integration.hpp"
#include <cstdio>
#include <cmath>
#include <random>
#include <complex>
using namespace libphysica;
int main(){
  std::mt19937_64 g(1313);
  auto U=[&](double a,double b){return std::uniform_real_distribution<double>(a,b)(g);};
  const char* methods[]={"Trapezoidal","Gauss-Legendre","Gauss-Kronrod","Tanh-Sinh","Gauss-Legendre_2","Adaptive-Simpson"};
  double worst[6]={0}; 
  for(int it=0;it<3000;it++){ int fam=it%3; double a=U(-2,2), w=U(0.2,3), b=a+w; std::function<double(double)> f; long double ex;
    if(fam==0){ double k=U(0.1,1.5), om=U(0,2*2*M_PI/w); /* up to two periods */ double ph=U(0,6); f=[=](double x){return exp(-k*x)*cos(om*x+ph);}; auto F=[=](long double x){ std::complex<long double> c(-k,om); std::complex<long double> v=std::exp(c*x+std::complex<long double>(0,ph))/c; return v.real(); }; ex=F(b)-F(a);} 
    else if(fam==1){ double c=U(-3,3), s=U(0.5,3); f=[=](double x){return 1.0/(1+((x-c)/s)*((x-c)/s));}; ex=s*(atanl((b-c)/(long double)s)-atanl((a-c)/(long double)s)); }
    else { double c=U(a,b), s=U(0.3,2); f=[=](double x){return exp(-0.5*((x-c)/s)*((x-c)/s));}; ex=s*sqrtl(M_PIl/2)*(erfl((b-c)/(s*sqrtl(2.0L)))-erfl((a-c)/(s*sqrtl(2.0L)))); }
    for(int m=0;m<6;m++){ double I=Integrate(f,a,b,methods[m]); double I2=Integrate(f,b,a,methods[m]); double rel=fabsl(I-ex)/fabsl(ex); if(fabsl(ex)>1e-3){ if(rel>worst[m]){worst[m]=rel; if(rel>(m==0?1e-6:1e-9)) printf("%s fam=%d a=%g b=%g rel=%g ex=%Lg\n",methods[m],fam,a,b,rel,ex);} } if(I2!=-I) printf("NEG MISMATCH %s %g %g\n",methods[m],I,I2); }
  }
  for(int m=0;m<6;m++) printf("%s worst rel=%g\n",methods[m],worst[m]);
  // 2D separable with distinct limits
  double w2=0,w3=0; for(int it=0;it<60;it++){ int m=it%6; double x1=U(-1,0),x2=U(0.5,2),y1=U(1,2),y2=U(2.5,4),z1=U(-3,-2),z2=U(-1.5,-0.5); auto fx=[](double x){return exp(0.3*x);}; auto fy=[](double y){return 1.0/(1+y*y);}; auto fz=[](double z){return exp(-0.5*z*z);};
    double Ix=Integrate(fx,x1,x2,methods[m]),Iy=Integrate(fy,y1,y2,methods[m]),Iz=Integrate(fz,z1,z2,methods[m]);
    double I2=Integrate_2D([&](double x,double y){return fx(x)*fy(y);},x1,x2,y1,y2,methods[m]); w2=std::max(w2,fabs(I2-Ix*Iy)/fabs(Ix*Iy));
    if(m!=0&&m!=3&&m!=5){ double I3=Integrate_3D([&](double x,double y,double z){return fx(x)*fy(y)*fz(z);},x1,x2,y1,y2,z1,z2,methods[m]); w3=std::max(w3,fabs(I3-Ix*Iy*Iz)/fabs(Ix*Iy*Iz)); } }
  printf("2D sep worst=%g 3D sep worst=%g\n",w2,w3);
}
