#include "libphysica/Special_Functions.hpp"
#include <cstdio>
#include <cmath>
#include <random>
#include <cstring>
using namespace libphysica;
int main(int argc,char**argv){
  std::mt19937_64 g(99);
  auto U=[&](double a,double b){return std::uniform_real_distribution<double>(a,b)(g);};
  std::string t=argv[1];
  if(t=="dawson"){ for(int i=0;i<20000;i++){ double x=(i%2?1:-1)*pow(10,U(-3,log10(26.0))); printf("%.17g %.17g %.17g\n",x,Dawson_Integral(x),Erfi(x)); } }
  if(t=="inverf"){ for(int i=0;i<5000;i++){ double p; int k=i%4; if(k==0)p=U(-1,1); else if(k==1) p=1-pow(10,-U(1,12)); else if(k==2) p=-1+pow(10,-U(1,12)); else p=U(-1e-3,1e-3); printf("%.17g %.17g\n",p,Inv_Erf(p)); } }
  if(t=="gammaq"){ for(int i=0;i<40000;i++){ double a=pow(10,U(-2,4)); double x; int k=i%4; if(k==0) x=U(0,a+40*sqrt(a)+40); else if(k==1) x=a+1+U(-1,1)*1e-3*(i%8<4?1:1e-6); else if(k==2) x=std::max(0.0,a+U(-6,6)*sqrt(a)); else x=a*pow(10,U(-3,0)); if(i%10==9) a=100+U(-1,1)*1e-6; printf("%.17g %.17g %.17g %.17g\n",x,a,GammaQ(x,a),GammaP(x,a)); } }
  if(t=="gammaln"){ for(int i=0;i<20000;i++){ double x=pow(10,U(-3,3)); if(i%3==0)x=U(0.5,175); printf("%.17g %.17g %.17g\n",x,GammaLn(x),Gamma(x)); } }
  if(t=="invgamma"){ for(int i=0;i<20000;i++){ double a=pow(10,U(-2,3.5)); double p; int k=i%3; if(k==0)p=U(0,1); else if(k==1) p=pow(10,-U(0,12)); else p=1-pow(10,-U(0,12)); double x=Inv_GammaP(p,a); printf("%.17g %.17g %.17g %.17g\n",p,a,x,GammaP(x,a)); } }
  return 0; }
