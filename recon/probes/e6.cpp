#include "libphysica/Numerics.hpp"
#include "libphysica/Integration.hpp"
#include "libphysica/Special_Functions.hpp"
#include "libphysica/Utilities.hpp"
#include <cstdio>
#include <cmath>
#include <random>
#include <cstring>
using namespace libphysica;
int main(int argc,char**argv){
  std::mt19937_64 g(31337);
  auto U=[&](double a,double b){return std::uniform_real_distribution<double>(a,b)(g);};
  std::string t=argv[1];
  if(t=="hist"){ // C09 history independence
    long mism=0,knotdiff=0,total=0; double worstknot=0;
    for(int tb=0;tb<300;tb++){
      int N=3+(int)U(0,tb%3==0?1997:60); std::vector<double> x(N),y(N); x[0]=U(-5,5); for(int i=1;i<N;i++) x[i]=x[i-1]+pow(10,U(-3,1)); for(int i=0;i<N;i++) y[i]=U(-1,1)*pow(10,U(-2,2));
      Interpolation used(x,y); double cur=x[0];
      for(int q=0;q<3000;q++){
        double xq; int k=(int)U(0,10);
        if(k<4){ cur+= (U(0,1)<0.5?-1:1)*pow(10,U(-3,0.5)); cur=std::min(std::max(cur,x[0]),x[N-1]); xq=cur; }
        else if(k<6){ xq=U(x[0],x[N-1]); cur=xq; }
        else if(k<7){ int i=(int)U(0,N); xq=x[i]; cur=xq; }
        else if(k<8){ int i=(int)U(0,N); xq=std::nextafter(x[i], U(0,1)<0.5? -1e300:1e300); if(xq<x[0]||xq>x[N-1]) xq=x[i]; cur=xq;}
        else if(k<9){ xq= U(0,1)<0.5? x[0]-U(0,0.0099)*(x[1]-x[0]) : x[N-1]+U(0,0.0099)*(x[N-1]-x[N-2]); }
        else { xq=cur; }
        Interpolation fresh(x,y);
        int op=(int)U(0,4); double a,b;
        if(op==0){a=used(xq); b=fresh(xq);} else if(op==1){a=used.Derivative(xq,1+(int)U(0,3)); } 
        if(op==1){ /* need same deriv order */ unsigned d=1+q%3; a=used.Derivative(xq,d); b=fresh.Derivative(xq,d);} 
        if(op==2){ double x2=U(x[0],x[N-1]); a=used.Integrate(xq,x2); b=fresh.Integrate(xq,x2);} 
        if(op==3){ a=used.Locate(xq); b=fresh.Locate(xq);} 
        total++;
        bool isknot=false; for(int i=0;i<N;i++) if(x[i]==xq){isknot=true;break;}
        if(a!=b && !(std::isnan(a)&&std::isnan(b))){ if(isknot){knotdiff++; if(op==0) worstknot=std::max(worstknot,fabs(a-b)/(fabs(a)+fabs(b)+1e-300));} else { mism++; if(mism<10) printf("MISMATCH op=%d xq=%.17g a=%.17g b=%.17g N=%d\n",op,xq,a,b,N);} }
      }
    }
    printf("total=%ld mismatches(nonknot)=%ld knotdiffs=%ld worst rel at knot(op0)=%g\n",total,mism,knotdiff,worstknot);
  }
  if(t=="gl"){ // C12
    double worst_sum=0,worst_sym=0,worst_poly=0; int unsorted=0,outside=0,negw=0;
    for(unsigned n=1;n<=512;n++){ for(int rep=0;rep<2;rep++){ double a=rep?U(-100,100):-1, b=rep?a+pow(10,U(-3,3)):1;
      auto rw=Compute_Gauss_Legendre_Roots_and_Weights(n,a,b); double s=0; for(auto&r:rw) s+=r[1]; worst_sum=std::max(worst_sum,fabs(s-(b-a))/(b-a));
      for(unsigned i=0;i<n;i++){ if(i&&rw[i][0]<=rw[i-1][0]) unsorted++; if(rw[i][0]<=a||rw[i][0]>=b) outside++; if(rw[i][1]<=0) negw++; double m=0.5*(a+b); worst_sym=std::max(worst_sym,fabs((rw[i][0]-m)+(rw[n-1-i][0]-m))/(b-a)); }
      // Legendre-basis exactness on mapped interval: integral P_k(t) dt = 0 for k>=1
      int kmax=std::min(2*n-1,60u); for(int k=1;k<=kmax;k++){ long double acc=0; for(auto&r:rw){ long double tt=(2*r[0]-a-b)/(b-a); long double p0=1,p1=tt; for(int j=2;j<=k;j++){ long double p2=((2*j-1)*tt*p1-(j-1)*p0)/j; p0=p1;p1=p2;} acc+= (k==0?1:p1)*r[1]; } worst_poly=std::max(worst_poly,(double)fabsl(acc/(b-a))); }
    }}
    printf("GL n<=512: worst rel sum err=%g sym=%g legendre-moment=%g unsorted=%d outside=%d nonpos=%d\n",worst_sum,worst_sym,worst_poly,unsorted,outside,negw);
    for(unsigned n: {1000u,2001u,4000u}){ auto rw=Compute_Gauss_Legendre_Roots_and_Weights(n,-1,1); double s=0; for(auto&r:rw) s+=r[1]; printf("n=%u sum-2=%g\n",n,s-2); }
  }
  if(t=="round"){ long nonidem=0,nonmono=0,nonodd=0,far=0,total=0; double worstid=0;
    for(int i=0;i<2000000;i++){ int d=1+i%7; double x; int k=i%5; if(k==0) x=pow(10,U(-300,300)); else if(k==1){ x=pow(10,(int)U(-300,300)); x=x*(1-pow(10,-U(1,16))); } else if(k==2){ x=pow(10,(int)U(-20,20))*(1+ (i%2?1:-1)*2.3e-16*(int)U(0,8)); } else if(k==3){ double base=(int)U(1,pow(10,d)); x=(base+0.5)*pow(10,(int)U(-30,30)); } else x=U(0,10)*pow(10,(int)U(-50,50));
      double r=Round(x,d); total++;
      double rr=Round(r,d); if(rr!=r){ nonidem++; worstid=std::max(worstid,fabs(rr-r)/r); }
      if(Round(-x,d)!=-r) nonodd++;
      double x2=x*(1+pow(10,-U(0,15))); double r2=Round(x2,d); if(r2<r){ nonmono++; if(nonmono<5) printf("NONMONO x=%.17g x2=%.17g r=%.17g r2=%.17g d=%d\n",x,x2,r,r2,d);} 
      double unit=pow(10,floor(log10(x))-d+1); if(fabs(r-x)>0.5*unit*(1+1e-9)) { far++; if(far<5) printf("FAR x=%.17g d=%d r=%.17g unit=%g diff/unit=%g\n",x,d,r,unit,fabs(r-x)/unit);} }
    printf("round total=%ld nonidem=%ld (worst rel %g) nonodd=%ld nonmono=%ld far=%ld\n",total,nonidem,worstid,nonodd,nonmono,far);
  }
  if(t=="space"){ long badc=0,bade=0,badm=0; double worstend=0,worstspacing=0;
    for(int i=0;i<20000;i++){ unsigned steps=2+(unsigned)U(0,1999); double a=U(-1,1)*pow(10,U(-3,3)), b=U(-1,1)*pow(10,U(-3,3)); auto v=Linear_Space(a,b,steps); if(v.size()!=steps) badc++; if(v[0]!=a) bade++; worstend=std::max(worstend,fabs(v.back()-b)/(std::max(fabs(a),fabs(b))*2.2e-16)); for(unsigned j=1;j<steps;j++){ if((b>a)!=(v[j]>v[j-1])) badm++; }
      double a2=pow(10,U(-10,10)), b2=pow(10,U(-10,10)); auto w=Log_Space(a2,b2,steps); if(w.size()!=steps) badc++; worstspacing=std::max(worstspacing,fabs(w.back()-b2)/(b2*2.2e-16)); }
    printf("space badcount=%ld badstart=%ld nonmono=%ld worst end err (eps units) lin=%g log=%g\n",badc,bade,badm,worstend,worstspacing);
    long wd=0; for(unsigned w=1;w<=128;w++) for(unsigned t2=0;t2<=1024;t2++){ auto v=Workload_Distribution(w,t2); bool ok=v.size()==w+1&&v[0]==0&&v[w]==(int)t2; int mn=1<<30,mx=-1; for(unsigned j=0;j<w&&ok;j++){ int dd=v[j+1]-v[j]; if(dd<0) ok=false; mn=std::min(mn,dd);mx=std::max(mx,dd);} if(!ok||mx-mn>1) wd++; } printf("workload bad=%ld\n",wd);
  }
  return 0; }
