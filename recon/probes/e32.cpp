#include "libphysica/Integration.hpp"
#include <cstdio>
#include <cmath>
#include <random>
using namespace libphysica; typedef long double ld;
int main(){ std::mt19937_64 g(3); auto U=[&](double a,double b){return std::uniform_real_distribution<double>(a,b)(g);}; double worst=0, worstC03=0; long n=0,warn=0;
 for(int it=0;it<200000;it++){ int fam=it%3; double a,b; std::function<double(double)> f; ld ex; 
   if(fam==0){ double w=U(-3,3); if(fabs(w)<1e-3) w=1; double len=log(4.0)/fabs(w)*U(0.05,1); a=U(-5,5); b=a+len; f=[=](double x){return exp(w*x);}; ex=(expl((ld)w*b)-expl((ld)w*a))/w; }
   else if(fam==1){ int k=1+(int)U(0,5.99); /* (x+s)^-k: f'''' ~ (x+s)^-(k+4): ratio ((b+s)/(a+s))^(k+4)<=4 */ double s=U(0.5,5); a=U(0,5); double r=pow(4.0,1.0/(k+4)); b=a+(a+s)*(r-1)*U(0.05,1); f=[=](double x){return pow(x+s,-k);}; ex= (k==1)? logl(((ld)b+s)/((ld)a+s)) : (powl((ld)b+s,1-k)-powl((ld)a+s,1-k))/(1-k); }
   else { double p=U(4.5,9); /* x^p, f''''~x^(p-4) ratio (b/a)^(p-4)<=4 */ a=U(0.5,5); double r=pow(4.0,1.0/(p-4)); b=a*(1+(r-1)*U(0.05,1)); f=[=](double x){return pow(x,p);}; ex=(powl(b,p+1)-powl(a,p+1))/(p+1); }
   double I=Integrate(f,a,b,"Adaptive-Simpson"); double rel=fabsl(I-ex)/fabsl(ex); worst=std::max(worst,rel); n++;
   double eps=pow(10,U(-14,-2))*fabsl(ex); double I2=Integrate(f,a,b,eps,25); double e2=fabsl(I2-ex); worstC03=std::max(worstC03,(double)(e2/(4*eps+64*2.2e-16*fabsl(ex)))); }
 printf("named Adaptive-Simpson on regular families: worst rel=%g over %ld; C03 bound ratio worst=%g\n",worst,n,worstC03); }
