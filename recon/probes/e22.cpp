#include "libphysica/Natural_Units.hpp"
#include <cstdio>
#include <cmath>
using namespace libphysica::natural_units;
#define CHK(name,expr) { double v=name, e=(expr); double rel=fabs(v-e)/fabs(e); printf("%-10s %.17g vs %.17g rel=%g %s\n",#name,v,e,rel, (rel<1e-14)?"":"<<<<<< MISMATCH"); }
int main(){ CHK(Joule,kg*meter*meter/sec/sec); CHK(erg,gram*cm*cm/sec/sec); CHK(cal,4.184*Joule); CHK(Newton,kg*meter/sec/sec); CHK(Watt,Joule/sec); CHK(Pa,Newton/meter/meter); CHK(dyne,1e-5*Newton); CHK(Volt*Coulomb,Joule); CHK(Ohm,Volt/Ampere); CHK(Tesla,Newton*sec/(Coulomb*meter)); CHK(Hz,1.0/sec); CHK(Farad,Coulomb/Volt); CHK(Siemens,1.0/Ohm); CHK(Weber,Tesla*meter*meter); CHK(Higgs_VeV,pow(sqrt(2)*G_Fermi,-0.5)); CHK(mPlanck_reduced,mPlanck/sqrt(8*M_PI)); CHK(year,365.25*24*3600*sec); CHK(km,1e5*cm); return 0; }
