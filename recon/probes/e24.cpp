#include "libphysica/Integration.hpp"
#include <cstdio>
#include <cmath>
#include <random>
namespace libphysica{ namespace verif{ extern bool mc_seed_override; extern unsigned int mc_seed_value; }}
using namespace libphysica;
typedef long double ld;
int main(int argc,char**argv){ verif::mc_seed_override=true; 
  std::mt19937_64 g(atoi(argv[1])); auto U=[&](double a,double b){return std::uniform_real_distribution<double>(a,b)(g);};
  const char* M[]={"Monte-Carlo","Vegas","Miser"}; double worst[3][3]={{0}}; long over[3][3]={{0}},tot[3]={0}; 
  for(int it=0;it<1200;it++){ int dim=1+it%6; std::vector<double> reg(2*dim); double vol=1; for(int i=0;i<dim;i++){ reg[i]=U(-5,5); reg[i+dim]=reg[i]+pow(10,U(-3,3)); vol*=reg[i+dim]-reg[i]; }
    int fam=(it/6)%3; int nc= (int)pow(10,U(3,5)); std::function<double(std::vector<double>&,const double)> f; ld ex=vol, m2=1; // E[f], E[f^2] as products
    std::vector<double> k(dim),c(dim),w(dim);
    if(fam==0){ for(int i=0;i<dim;i++){ k[i]=U(-1.5,1.5); ld e1=(k[i]==0)?1:(expl(k[i])-1)/k[i], e2=(expl(2*k[i])-1)/(2*k[i]); ex*=e1; m2*=e2; } f=[=](std::vector<double>&x,const double){double s=1; for(int i=0;i<dim;i++) s*=exp(k[i]*(x[i]-reg[i])/(reg[i+dim]-reg[i])); return s;}; }
    else if(fam==1){ for(int i=0;i<dim;i++){ c[i]=U(0.1,0.9); w[i]=U(0.15,0.5); ld a=(0-c[i])/w[i], b=(1-c[i])/w[i]; ld e1=w[i]*sqrtl(M_PIl/2)*(erfl(b/sqrtl(2.L))-erfl(a/sqrtl(2.L))); ld e2=w[i]*sqrtl(M_PIl)/2*(erfl(b)-erfl(a)); ex*=e1; m2*=e2; } f=[=](std::vector<double>&x,const double){double s=0; for(int i=0;i<dim;i++){ double u=(x[i]-reg[i])/(reg[i+dim]-reg[i]); s+=(u-c[i])*(u-c[i])/(w[i]*w[i]);} return exp(-0.5*s);}; }
    else { for(int i=0;i<dim;i++){ k[i]=U(0.2,2); /* 1+k u^2 */ ld e1=1+k[i]/3.0L, e2=1+2*k[i]/3.0L+k[i]*k[i]/5.0L; ex*=e1; m2*=e2;} f=[=](std::vector<double>&x,const double){double s=1; for(int i=0;i<dim;i++){ double u=(x[i]-reg[i])/(reg[i+dim]-reg[i]); s*=1+k[i]*u*u;} return s;}; }
    ld mean=ex/vol; ld var=m2-mean*mean; ld se=vol*sqrtl(var/nc); if(fabsl(ex)/nc<1e-9) continue;
    tot[fam]++;
    for(int m=0;m<3;m++){ verif::mc_seed_value=it*7+m; double r=Integrate_MC(f,reg,nc,M[m]); double z=fabsl(r-ex)/se; worst[m][fam]=std::max(worst[m][fam],z); if(z>6){ over[m][fam]++; if(over[m][fam]<3) printf("%s fam=%d dim=%d nc=%d z=%g rel=%Lg\n",M[m],fam,dim,nc,z,fabsl(r-ex)/ex);} }
  }
  for(int m=0;m<3;m++){ printf("%-12s",M[m]); for(int f=0;f<3;f++) printf(" fam%d worst z=%.2f over6=%ld/%ld |",f,worst[m][f],over[m][f],tot[f]); printf("\n"); }
}
