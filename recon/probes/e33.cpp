#include "libphysica/Numerics.hpp"
#include <cstdio>
#include <cmath>
#include <random>
using namespace libphysica;
int main(){ std::mt19937_64 g(9); auto U=[&](double a,double b){return std::uniform_real_distribution<double>(a,b)(g);}; double worst=0; long cnt=0, endfail=0;
 for(int it=0;it<200000;it++){ double m=U(-1,1)*pow(10,U(-3,3)); if(m==0) m=1; double root=U(-10,10)*pow(10,U(-2,2)); double a=root-pow(10,U(-3,3)), b=root+pow(10,U(-3,3)); double acc=(b-a)*pow(10,-U(0,13)); if(it%2) std::swap(a,b); auto f=[=](double x){return m*(x-root);}; double r=Find_Root(f,a,b,acc); double sc=std::max(fabs(a),fabs(b)); worst=std::max(worst,fabs(r-root)/(sc*2.2e-16)); cnt++;
   // zero at an end
   double r2=Find_Root(f,root,b,acc); if(r2!=root) endfail++; double r3=Find_Root(f,a,root,acc); if(r3!=root) endfail++; }
 printf("linear: worst |r-root|/(eps*scale)=%g over %ld; end-zero failures=%ld\n",worst,cnt,endfail); }
