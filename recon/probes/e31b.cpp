#include "libphysica/Numerics.hpp"
#include <cstdio>
#include <cmath>
#include <random>
#include <unistd.h>
#include <sys/wait.h>
using namespace libphysica;
int main(int argc,char**argv){
  std::mt19937_64 g(atoi(argv[1]));
  auto U=[&](double a,double b){return std::uniform_real_distribution<double>(a,b)(g);};
  std::normal_distribution<double> N01;
  long tot[7]={0},far[7]={0},exits[7]={0}; double worst=0;
  for(int it=0;it<150000;it++){ int n=1+it%6; 
      std::vector<std::vector<double>> Q(n,std::vector<double>(n)); for(int i=0;i<n;i++){ for(int j=0;j<n;j++) Q[i][j]=N01(g); for(int k=0;k<i;k++){ double d=0; for(int j=0;j<n;j++) d+=Q[i][j]*Q[k][j]; for(int j=0;j<n;j++) Q[i][j]-=d*Q[k][j]; } double nr=0; for(int j=0;j<n;j++) nr+=Q[i][j]*Q[i][j]; nr=sqrt(nr); for(int j=0;j<n;j++) Q[i][j]/=nr; }
      std::vector<double> lam(n),c(n); double cond=pow(10,U(0,4)); double sc=pow(10,U(-3,3)); for(int i=0;i<n;i++){ lam[i]=sc*pow(cond,n==1?0:(double)i/(n-1)); c[i]=U(-5,5)*pow(10,U(-2,2));} double f0=U(-3,3)*pow(10,U(-2,2)); if(it%7==0) f0=0;
      auto f=[&](std::vector<double> x){ double s=f0; for(int k=0;k<n;k++){ double p=0; for(int j=0;j<n;j++) p+=Q[k][j]*(x[j]-c[j]); s+=lam[k]*p*p; } return s; };
      double ftol=pow(10,-U(3,12)); Minimization M(ftol); double dist=pow(10,U(-3,3)); std::vector<double> st(n); double nr=0; std::vector<double> dir(n); for(int i=0;i<n;i++){dir[i]=N01(g); nr+=dir[i]*dir[i];} nr=sqrt(nr); for(int i=0;i<n;i++) st[i]=c[i]+dist*dir[i]/nr; double del=dist*pow(10,U(log10(1/3.0),1.5)); if(U(0,1)<0.5) del=-del;
      double best=f(st); for(int i=0;i<n;i++){ auto p=st; p[i]+=del; best=std::min(best,f(p)); }
      int pfd[2]; pipe(pfd); fflush(stdout); pid_t pp=fork(); if(pp==0){ close(2); std::vector<double> rr=M.minimize(st,del,f); double buf[8]; for(int i=0;i<n;i++)buf[i]=rr[i]; buf[6]=M.nfunc; write(pfd[1],buf,64); _exit(0);} close(pfd[1]); int stt; waitpid(pp,&stt,0); double buf[8]; std::vector<double> r(n); if(WIFEXITED(stt)&&WEXITSTATUS(stt)==0){ read(pfd[0],buf,64); for(int i=0;i<n;i++) r[i]=buf[i]; M.nfunc=buf[6]; close(pfd[0]); } else { close(pfd[0]); exits[n]++; if(exits[n]<4) printf("EXIT n=%d cond=%.3g ftol=%.3g dist=%.3g del=%.3g f0=%.3g sc=%.3g\n",n,cond,ftol,dist,del,f0,sc); continue; }
      double fr=f(r); double excess=fr-f0, init=best-f0; double allow=std::max(1e4*ftol*(fabs(fr)+1e-10),1e-3*init); tot[n]++; double ratio=excess/allow; if(ratio>worst){worst=ratio;} if(excess>allow){ far[n]++; if(far[n]<4) printf("FAR n=%d cond=%.3g ftol=%.3g dist=%.3g del=%.3g f0=%.3g sc=%.3g excess=%.3g init=%.3g allow=%.3g nfunc=%d\n",n,cond,ftol,dist,del,f0,sc,excess,init,allow,M.nfunc);} }
  for(int n=1;n<=6;n++) printf("n=%d far %ld/%ld exits %ld\n",n,far[n],tot[n],exits[n]); printf("worst ratio %g\n",worst);
}
