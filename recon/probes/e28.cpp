#include "libphysica/Linear_Algebra.hpp"
#include <cstdio>
#include <cmath>
using namespace libphysica;
static void run(const char*name, std::vector<std::vector<double>> m){ Matrix M(m); auto es=Eigensystem(M); printf("%s:",name); for(unsigned i=0;i<es.first.size();i++){ Vector r=M*es.second[i]-es.first[i]*es.second[i]; printf(" lam=%g res=%.2g |v|=%.3f;",es.first[i],r.Norm(),es.second[i].Norm()); } printf("\n"); }
int main(){ run("blockdiag",{{2,1,0,0},{1,2,0,0},{0,0,7,2},{0,0,2,-5}}); run("diag",{{5,0,0},{0,-2,0},{0,0,0.5}}); run("1x1",{{3.5}}); run("2x2sym",{{2,1},{1,2}}); run("perm-ish",{{0,2},{2,0.5}}); run("nonsym test",{{12.0, -51.0, 4.0}, {6.0, 167.0, -68.0}, {-4.0, 24.0, -41.0}}); run("zero-ev",{{1,1},{1,1.0000001}}); }
