#include "libphysica/Linear_Algebra.hpp"
#include "libphysica/Integration.hpp"
#include "libphysica/Statistics.hpp"
#include "libphysica/Utilities.hpp"
#include "libphysica/Natural_Units.hpp"
#include <cstdio>
#include <cmath>
#include <random>
using namespace libphysica;
int main(int argc,char**argv){ std::mt19937_64 g(606); auto U=[&](double a,double b){return std::uniform_real_distribution<double>(a,b)(g);}; std::normal_distribution<double> N01; std::string t=argv[1];
 if(t=="sph"){ double w_norm=0,w_pol=0,w_rh=0; long nan=0; for(int it=0;it<300000;it++){ Vector ax({N01(g),N01(g),N01(g)}); int k=it%10; if(k<6){ ax=Vector({0,0,0}); ax[k%3]=(k<3?1:-1);} else if(k==6){ ax=Vector({U(-1,1)*1e-12,U(-1,1)*1e-12,(it%20<10?1.:-1.)}); } else if(k==7){ ax=Vector({U(-1,1)*1e-7,U(-1,1)*1e-7,(it%20<10?1.:-1.)}); } ax=ax*pow(10,U(-6,6));
   double r=pow(10,U(-3,3)), th=U(0,M_PI), ph=U(0,2*M_PI); if(it%50==0) th=0; if(it%50==1) th=M_PI; Vector v=Spherical_Coordinates(r,th,ph,ax); Vector n=ax.Normalized(); if(std::isnan(v[0])||std::isnan(v[1])||std::isnan(v[2])){nan++; continue;} w_norm=std::max(w_norm,fabs(v.Norm()-r)/r); double pol=atan2(v.Cross(n).Norm(), v*n); w_pol=std::max(w_pol,fabs(pol-th));
   double dph=1e-3; Vector v2=Spherical_Coordinates(r,th,ph+dph,ax); // right-handed: (v x v2).n >0 for sin th>0
   if(sin(th)>1e-3){ double s=(v.Cross(v2))*n; double expect=r*r*sin(th)*sin(th)*sin(dph); w_rh=std::max(w_rh,fabs(s-expect)/fabs(expect)); } }
   printf("sph: norm=%g polar=%g righthand rel=%g nan=%ld\n",w_norm,w_pol,w_rh,nan); }
 if(t=="sph3d"){ // spherical overload
   for(int it=0;it<20;it++){ double r1=U(0.1,1), r2=r1+U(0.5,2), c1=U(-1,0.2), c2=c1+U(0.1,0.8), p1=U(0,3), p2=p1+U(0.2,3); double rmin=1e9,rmax=0,cmin=9,cmax=-9,pmin=99,pmax=-99; double a=U(0.3,2);
     auto f=[&](Vector v){ double r=v.Norm(); rmin=std::min(rmin,r);rmax=std::max(rmax,r); double c=v[2]/r; cmin=std::min(cmin,c);cmax=std::max(cmax,c); double p=atan2(v[1],v[0]); if(p<0)p+=2*M_PI; pmin=std::min(pmin,p);pmax=std::max(pmax,p); return exp(-a*r);} ;
     double I=Integrate_3D(f,r1,r2,c1,c2,p1,p2); auto F=[&](double r){ return -exp(-a*r)*(r*r/a+2*r/(a*a)+2/(a*a*a)); }; double ex=(F(r2)-F(r1))*(c2-c1)*(p2-p1); printf("sph3d rel=%.2g r[%.3f,%.3f] in [%.3f,%.3f] c[%.3f,%.3f] in [%.3f,%.3f] p[%.3f,%.3f] in [%.3f,%.3f]\n",fabs(I-ex)/ex,rmin,rmax,r1,r2,cmin,cmax,c1,c2,pmin,pmax,p1,p2); if(it>3) break; } }
 if(t=="io"){ double worst=0; long shape=0; for(int it=0;it<300;it++){ int R=1+(int)U(0,200), C=1+(int)U(0,12); std::vector<double> dims(C); for(auto&d:dims) d=pow(10,U(-30,30)); std::vector<std::vector<double>> T(R,std::vector<double>(C)); for(auto&row:T)for(int c=0;c<C;c++){ int k=(int)U(0,5); double v= k==0? (int)U(-1000,1000) : k==1? U(-1,1)*pow(10,U(-260,260)) : k==2? 0.0 : U(-1,1); row[c]=v*dims[c]/ (k==1?1:1); if(k==1) row[c]=v; if(fabs(row[c]/dims[c])>1e300||(row[c]!=0&&fabs(row[c]/dims[c])<1e-300)) row[c]=dims[c]; }
     int hl=(int)U(0,4); std::string header; for(int h=0;h<hl;h++){ header+="# header line 12 3.5"; if(h<hl-1) header+="\n"; }
     std::string fn="/tmp/lps/io_test.txt"; Export_Table(fn,T,(it%3==0)?std::vector<double>{}:dims,header); auto B=Import_Table(fn,(it%3==0)?std::vector<double>{}:dims,hl); if(B.size()!=T.size()||B[0].size()!=(size_t)C){ shape++; printf("SHAPE %zu x %zu vs %d x %d hl=%d\n",B.size(),B[0].size(),R,C,hl); continue;} for(int r=0;r<R;r++)for(int c=0;c<C;c++){ double e= T[r][c]==0? fabs(B[r][c]) : fabs(B[r][c]-T[r][c])/fabs(T[r][c]); worst=std::max(worst,e);} }
   printf("io worst rel=%g shape mismatches=%ld\n",worst,shape); }
 if(t=="kde"){ double w_int=0; double minv=1e9; for(int it=0;it<200;it++){ int N=20+(int)U(0,400); double lo=U(-5,5), hi=lo+pow(10,U(-1,2)); std::vector<DataPoint> d; for(int i=0;i<N;i++){ double x= (it%2)? lo+ (hi-lo)*fabs(N01(g))*0.3 : lo+(hi-lo)*U(0,1); d.push_back(DataPoint(x, (it%3)?1.0:U(0.1,3))); } double bw=(it%4==0)?0.0:(hi-lo)*pow(10,U(-2,-0.5)); Interpolation k=Perform_KDE(d,lo,hi,bw); double I=k.Integrate(lo,hi); w_int=std::max(w_int,fabs(I-1)); for(int j=0;j<=1000;j++){ double v=k(lo+(hi-lo)*j/1000.0); minv=std::min(minv,v);} } printf("kde |int-1| worst=%g min value=%g\n",w_int,minv); }
}
