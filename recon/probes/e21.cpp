#include "libphysica/Statistics.hpp"
#include "libphysica/Special_Functions.hpp"
#include <cstdio>
#include <cmath>
#include <random>
using namespace libphysica;
typedef long double ld;
// composite GL 8pt in long double
static ld glint(std::function<double(double)> f, double a,double b,int panels=400){ static const ld xs[4]={0.1834346424956498L,0.5255324099163290L,0.7966664774136267L,0.9602898564975363L}, ws[4]={0.3626837833783620L,0.3137066458778873L,0.2223810344533745L,0.1012285362903763L}; ld tot=0; ld h=((ld)b-a)/panels; for(int p=0;p<panels;p++){ ld m=a+(p+0.5L)*h; for(int k=0;k<4;k++){ tot+=ws[k]*(f((double)(m+0.5L*h*xs[k]))+f((double)(m-0.5L*h*xs[k]))); } } return tot*0.5L*h; }
int main(){
  std::mt19937_64 g(2024); auto U=[&](double a,double b){return std::uniform_real_distribution<double>(a,b)(g);};
  double w_pois=0,w_bin=0,w_chi=0,w_chi_hi=0,w_mb=0,w_exp=0,w_gauss=0,w_like=0,w_q=0,w_invp=0,w_chibar=0; int negpdf=0, nonmono=0;
  for(int it=0;it<4000;it++){
    double mu=pow(10,U(-3,3)); unsigned k=(unsigned)U(0,std::min(500.0,mu+10*sqrt(mu)+10)); ld s=0; for(unsigned i=0;i<=k;i++) s+=PMF_Poisson(mu,i); double c=CDF_Poisson(mu,k); double tol= (k+1>100)?1:1; double e=fabsl(c-s); if(k+1<=100) w_pois=std::max(w_pois,e); else w_chi_hi=std::max(w_chi_hi,e);
    if(k+1<=100 && c>1e-12 && c<1-1e-12 && k>0){ double muinv=Inv_CDF_Poisson(k,c); w_invp=std::max(w_invp,fabs(CDF_Poisson(muinv,k)-c)); }
    unsigned n=(unsigned)U(0,170.99); double p=U(0,1); if(it%10==0)p=0; if(it%10==1)p=1; unsigned x=(unsigned)U(0,n+0.99); ld sb=0; for(unsigned i=0;i<=n;i++){ double pm=PMF_Binomial(n,p,i); if(pm<0) negpdf++; sb+=pm; } w_bin=std::max(w_bin,(double)fabsl(sb-1)); 
    double dof=U(0.5,200); double x1=U(0,dof+5*sqrt(2*dof)), x2=x1+U(0,3*sqrt(2*dof)); if(dof<2&&x1<0.05) x1=0.05; ld ic=glint([=](double t){return PDF_Chi_Square(t,dof);},x1,x2); double dc=CDF_Chi_Square(x2,dof)-CDF_Chi_Square(x1,dof); w_chi=std::max(w_chi,(double)fabsl(dc-ic));
    double a=pow(10,U(-2,2)); x1=U(0,3*a); x2=x1+U(0,3*a); ld im=glint([=](double t){return PDF_Maxwell_Boltzmann(t,a);},x1,x2); w_mb=std::max(w_mb,(double)fabsl(CDF_Maxwell_Boltzmann(x2,a)-CDF_Maxwell_Boltzmann(x1,a)-im));
    double mean=pow(10,U(-2,2)); x1=U(0,3*mean); x2=x1+U(0,5*mean); ld ie=glint([=](double t){return PDF_Exponential(t,mean);},x1,x2); w_exp=std::max(w_exp,(double)fabsl(CDF_Exponential(x2,mean)-CDF_Exponential(x1,mean)-ie));
    double m0=U(-5,5),sg=pow(10,U(-2,2)); x1=m0+U(-6,6)*sg; x2=x1+U(0,4)*sg; ld ig=glint([=](double t){return PDF_Gauss(t,m0,sg);},x1,x2); w_gauss=std::max(w_gauss,(double)fabsl(CDF_Gauss(x2,m0,sg)-CDF_Gauss(x1,m0,sg)-ig));
    double pq=U(0,1); if(it%4==0) pq=pow(10,-U(1,10)); if(it%4==1) pq=1-pow(10,-U(1,10)); double xq=Quantile_Gauss(pq,m0,sg); w_q=std::max(w_q,fabs(xq- (m0+sg*sqrt(2.0)*0))/1e300); double back=CDF_Gauss(xq,m0,sg); // quantile error in x units: 
    { // true quantile via bisection on erfc in long double
      ld lo=-40,hi=40; for(int b=0;b<200;b++){ ld mid=(lo+hi)/2; ld cdf=0.5L*erfcl(-mid/sqrtl(2.0L)); if(cdf<pq) lo=mid; else hi=mid;} ld zt=(lo+hi)/2; w_q=std::max(w_q,(double)fabsl((xq-m0)/sg-zt)); }
    double bkg=U(0,3); unsigned long nobs=k; double L=Likelihood_Poisson(mu,nobs,bkg), pm=PMF_Poisson(mu+bkg,nobs); if(pm>1e-300) w_like=std::max(w_like,fabs(L-pm)/pm);
    std::vector<double> w={U(0,1),U(0,1),U(0,1),U(0,1)}; double sw=w[0]+w[1]+w[2]+w[3]; for(auto&v:w)v/=sw; x1=U(0.05,8); x2=x1+U(0,8); ld icb=glint([=](double t){return PDF_Chi_Bar_Square(t,w);},x1,x2); w_chibar=std::max(w_chibar,(double)fabsl(CDF_Chi_Bar_Square(x2,w)-CDF_Chi_Bar_Square(x1,w)-icb));
  }
  printf("poisson cdf-sum(a<=100)=%g (a>100)=%g invpois=%g binom-norm=%g chi=%g MB=%g exp=%g gauss=%g quantile(z err)=%g like rel=%g chibar=%g negpmf=%d\n",w_pois,w_chi_hi,w_invp,w_bin,w_chi,w_mb,w_exp,w_gauss,w_q,w_like,w_chibar,negpdf);
}
