#include "libphysica/Numerics.hpp"
#include <cstdio>
#include <cmath>
#include <random>
#include <functional>
using namespace libphysica;
int main(){ std::mt19937_64 g(2); auto U=[&](double a,double b){return std::uniform_real_distribution<double>(a,b)(g);}; long n=0,bad=0,maxev=0; double sumev=0;
 for(int it=0;it<300000;it++){ int fam=it%4; double a,b,root; std::function<double(double)> f;
   if(fam==0){ double p=U(0.2,8),c=pow(10,U(-6,6)); root=pow(c,1/p); a=root*pow(10,-U(0,6)); b=root*pow(10,U(0,6)); f=[=](double x){return pow(x,p)-c;}; }
   else if(fam==1){ double r=U(-5,5); root=r; a=r-pow(10,U(-3,4)); b=r+pow(10,U(-3,4)); f=[=](double x){double d=x-r; return d*d*d;}; }
   else if(fam==2){ double r=U(0.5,5), k=pow(10,U(0,3)); root=r; a=r-pow(10,U(-3,3)); b=r+pow(10,U(-3,3)); f=[=](double x){return tanh(k*(x-r));}; }
   else { double r=U(-5,5), k=U(0.1,30); root=r; a=r-pow(10,U(-2,1.3)); b=r+pow(10,U(-2,1.3)); f=[=](double x){return exp(k*(x-r))-1;}; }
   double acc=std::max(1e-14*fabs(root),4.5e-16*std::max(fabs(a),fabs(b))); if(it%3==0) acc*=pow(10,U(0,3)); long ev=0; double lo=std::min(a,b),hi=std::max(a,b); bool out=false; auto fw=[&](double x){ev++; if(x<lo||x>hi) out=true; return f(x);} ;
   double r=Find_Root(fw,a,b,acc); n++; sumev+=ev; maxev=std::max(maxev,ev); double l=std::max(lo,r-acc),h=std::min(hi,r+acc); bool ok=(r>=lo&&r<=hi)&&!out&&(f(r)==0||f(l)*f(h)<=0); if(!ok){ bad++; if(bad<8) printf("BAD fam=%d a=%.17g b=%.17g acc=%g r=%.17g root=%.17g ev=%ld out=%d\n",fam,a,b,acc,r,root,ev,out);} }
 printf("n=%ld bad=%ld mean evals=%.1f max evals=%ld\n",n,bad,sumev/n,maxev); }
