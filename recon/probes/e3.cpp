#include "libphysica/Integration.hpp"
#include <cstdio>
#include <cmath>
#include <random>
#include <functional>
using namespace libphysica;
typedef long double ld;
int main(){
  std::mt19937_64 g(777);
  auto U=[&](double a,double b){return std::uniform_real_distribution<double>(a,b)(g);};
  // quintic exactness
  double worst=0; long cnt=0; double worstcount=0;
  for(int it=0;it<100000;it++){
    double c[6]; int deg=it%6; for(int k=0;k<6;k++) c[k]= k<=deg? U(-1,1)*pow(10,U(-3,3)):0;
    double a=U(-10,10), w=pow(10,U(-6,3)); double b=a+w; if(it%2) std::swap(a,b);
    double eps=pow(10,U(-18,2)); if(it%5==0) eps=-eps; int depth=(int)U(0,15.99);
    long evals=0; double lo=std::min(a,b),hi=std::max(a,b); bool out=false; ld scale=0;
    auto f=[&](double x){ evals++; if(x<lo||x>hi) out=true; double s=0; for(int k=5;k>=0;k--) s=s*x+c[k]; return s;};
    double I=Integrate(f,a,b,eps,depth);
    ld ex=0; ld absint=0; for(int k=0;k<6;k++){ ex+= (ld)c[k]*(powl(b,k+1)-powl(a,k+1))/(k+1); absint+= fabsl((ld)c[k])*(powl(fabsl(b),k+1)+powl(fabsl(a),k+1))/(k+1);} 
    // scale: sum |c_k| max|x|^k * width
    ld m=std::max(fabs(a),fabs(b)); ld sc=0; for(int k=0;k<6;k++) sc+=fabsl(c[k])*powl(m,k); sc*=fabsl((ld)b-a);
    double err=fabsl(I-ex)/ (sc*2.2e-16L);
    if(err>worst){worst=err; printf("worst %g  deg=%d a=%g b=%g eps=%g depth=%d I=%.17g ex=%.17Lg evals=%ld\n",err,deg,a,b,eps,depth,I,ex,evals);} 
    if(out) printf("OUTSIDE\n"); if(evals> (1L<<(depth+2))+1) printf("TOO MANY EVALS %ld depth %d\n",evals,depth);
    cnt++;
  }
  printf("quintic worst err in units of eps*scale: %g over %ld\n",worst,cnt);
  // swap negation exact
  long neq=0; for(int it=0;it<20000;it++){ double a=U(-3,3),b=U(-3,3); double w=U(0.1,5); auto f=[=](double x){return exp(w*x)*cos(x);}; double e=pow(10,U(-12,-2)); double I1=Integrate(f,a,b,e), I2=Integrate(f,b,a,e); if(I1!=-I2) neq++; }
  printf("swap-negation mismatches: %ld\n",neq);
}
