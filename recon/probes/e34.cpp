#include "libphysica/Special_Functions.hpp"
#include <cstdio>
#include <cmath>
#include <random>
#include <boost/math/special_functions/gamma.hpp>
using namespace libphysica;
int main(int argc,char**argv){ std::mt19937_64 g(atoi(argv[1])); auto U=[&](double a,double b){return std::uniform_real_distribution<double>(a,b)(g);}; double worst=0; long n=0, over=0; int N=atoi(argv[2]);
 for(int i=0;i<N;i++){ double a=pow(10,U(2.0001,4)); double x; int k=i%4; if(k==0) x=U(0,a+40*sqrt(a)+40); else if(k==1) x=a-1+U(-3,3)*sqrt(a); else if(k==2) x=std::max(0.0,a+U(-11,11)*sqrt(a)); else x=a-1+U(-0.5,0.5)*sqrt(a); double Q=GammaQ(x,a); long double ref=boost::math::gamma_q((long double)a,(long double)x); double e=fabsl(Q-ref); n++; if(e>worst){worst=e; printf("worst %.3g at x=%.17g a=%.17g Q=%.10g ref=%.10Lg\n",e,x,a,Q,ref);} if(e>1e-3) over++; }
 printf("n=%ld worst=%g over1e-3=%ld\n",n,worst,over); }
