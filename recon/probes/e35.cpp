#include "libphysica/Special_Functions.hpp"
#include <cstdio>
#include <cmath>
#include <random>
#include <boost/math/special_functions/gamma.hpp>
using namespace libphysica;
int main(int argc,char**argv){ std::mt19937_64 g(atoi(argv[1])); auto U=[&](double a,double b){return std::uniform_real_distribution<double>(a,b)(g);}; double worst=0,worsti=0; long n=0, unrep=0; int N=atoi(argv[2]);
 for(int i=0;i<N;i++){ double a=pow(10,U(-3,2)); if(i%5==0) a=100-pow(10,-U(0,9)); double x; int k=i%5; if(k==0) x=U(0,a+40*sqrt(a)+40); else if(k==1) x=a+1+U(-1,1)*pow(10,-U(0,12)); else if(k==2) x=std::max(0.0,a+U(-8,8)*sqrt(a)); else if(k==3) x=a*pow(10,-U(0,8)); else x=pow(10,U(-12,0)); double Q=GammaQ(x,a),P=GammaP(x,a); long double rq=boost::math::gamma_q((long double)a,(long double)x), rp=boost::math::gamma_p((long double)a,(long double)x); double e=std::max(fabsl(Q-rq),fabsl(P-rp)); n++; if(e>worst){worst=e; if(e>1e-13) printf("worst %.3g at x=%.17g a=%.17g\n",e,x,a);} 
   double p; int kk=i%3; if(kk==0)p=U(0,1); else if(kk==1) p=pow(10,-U(0,12)); else p=1-pow(10,-U(0,12)); long double xt=boost::math::gamma_p_inv((long double)a,(long double)p); if(xt<1e-290L){unrep++;} else { double xi=Inv_GammaP(p,a); long double pt=boost::math::gamma_p((long double)a,(long double)xi); double ei=fabsl(pt-p); if(!(ei<=worsti)){ worsti=ei; if(!(ei<1e-8)) printf("inv worst %.3g at p=%.17g a=%.17g x=%.17g xt=%.17Lg\n",ei,p,a,xi,xt);} } }
 printf("n=%ld worst PQ err=%g worst inv err=%g unrepresentable=%ld\n",n,worst,worsti,unrep); }
