#include "libphysica/Integration.hpp"
#include <cstdio>
#include <cmath>
#include <random>
namespace libphysica{ namespace verif{ extern bool mc_seed_override; extern unsigned int mc_seed_value; }}
using namespace libphysica;
int main(int argc,char**argv){ verif::mc_seed_override=true; 
  std::mt19937_64 g(5); auto U=[&](double a,double b){return std::uniform_real_distribution<double>(a,b)(g);};
  const char* M[]={"Monte-Carlo","Vegas","Miser"}; double worst[3]={0};
  for(int it=0;it<1500;it++){ int dim=1+it%6; std::vector<double> reg(2*dim); double vol=1; for(int i=0;i<dim;i++){ reg[i]=U(-5,5); reg[i+dim]=reg[i]+pow(10,U(-3,3)); vol*=reg[i+dim]-reg[i]; }
    double c= pow(10,U(-3,3))*(it%3?1:-1); int nc=1000*(1+it%7);
    std::function<double(std::vector<double>&,const double)> f=[=](std::vector<double>&x,const double){return c;}; verif::mc_seed_value=it;
    for(int m=0;m<3;m++){ double r=Integrate_MC(f,reg,nc,M[m]); double rel=fabs(r-c*vol)/fabs(c*vol); if(rel>worst[m]) {worst[m]=rel; if(rel>1e-10) printf("%s dim=%d nc=%d c=%g vol=%g rel=%g  c*vol/calls=%g\n",M[m],dim,nc,c,vol,rel,c*vol/nc);} } }
  for(int m=0;m<3;m++) printf("%s worst rel=%g\n",M[m],worst[m]); }
