#include "libphysica/Numerics.hpp"
#include "libphysica/Special_Functions.hpp"
#include <cstdio>
#include <cmath>
#include <random>
#include <functional>
using namespace libphysica;
int main(){
  std::mt19937_64 g(12345);
  auto U=[&](double a,double b){return std::uniform_real_distribution<double>(a,b)(g);};
  long n=0,bad=0,outside=0; long badf[8]={0}; 
  for(int it=0;it<200000;it++){
    int fam=it%8; double a,b,acc; std::function<double(double)> f; double root=NAN;
    if(fam==0){ double p=U(0.2,8),c=pow(10,U(-6,6)); root=pow(c,1/p); a=root*pow(10,-U(0,6)); b=root*pow(10,U(0,6)); f=[=](double x){return pow(x,p)-c;}; }
    else if(fam==1){ double c=U(-1.5,1.5), s=pow(10,U(-3,3)); root=tan(c)/s; a=root-pow(10,U(-2,4)); b=root+pow(10,U(-2,4)); f=[=](double x){return atan(s*x)-c;}; }
    else if(fam==2){ double p=U(-1,1); if(fabs(p)>0.999999) p=0.5; root=NAN; a=-10;b=10; f=[=](double x){return erf(x)-p;}; }
    else if(fam==3){ double p=1-pow(10,-U(3,12)); a=-10;b=10; f=[=](double x){return erf(x)-p;}; }
    else if(fam==4){ double r=U(-5,5); root=r; a=r-U(0.1,10); b=r+U(0.1,10); f=[=](double x){return (x-r)*(x-r)*(x-r);}; }
    else if(fam==5){ double r=U(-5,5),k=U(0.1,20); a=r-U(0.1,10); b=r+U(0.1,10); f=[=](double x){return exp(k*(x-r))-1;}; }
    else if(fam==6){ double r=U(-5,5),k=pow(10,U(0,3)); a=r-U(0.1,10); b=r+U(0.1,10); f=[=](double x){return tanh(k*(x-r));}; }
    else { double r=U(0.5,5); a=r-U(0.1,0.4); b=r+U(0.1,0.4); f=[=](double x){return sin(x-r)*(1+0.3*cos(3*x));}; }
    double width=fabs(b-a);
    acc = width*pow(10,-U(0,13));
    if(it%3==0) std::swap(a,b);
    double lo=std::min(a,b),hi=std::max(a,b); bool out=false;
    auto fw=[&](double x){ if(x<lo||x>hi) out=true; return f(x);};
    double r=Find_Root(fw,a,b,acc);
    n++; if(out) outside++;
    double l=std::max(lo,r-acc), h=std::min(hi,r+acc);
    bool ok = (r>=lo&&r<=hi) && (f(r)==0 || f(l)*f(h)<=0);
    if(!ok){ bad++; badf[fam]++; if(bad<=25) printf("BAD fam=%d a=%.17g b=%.17g acc=%g r=%.17g f(r)=%g f(l)=%g f(h)=%g\n",fam,a,b,acc,r,f(r),f(l),f(h)); }
  }
  printf("n=%ld bad=%ld outside=%ld\n",n,bad,outside); for(int i=0;i<8;i++)printf("fam%d bad=%ld\n",i,badf[i]);
}
