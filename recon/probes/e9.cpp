#include "libphysica/Numerics.hpp"
#include <cstdio>
#include <cmath>
#include <random>
using namespace libphysica;
int main(){
  std::mt19937_64 g(5);
  auto U=[&](double a,double b){return std::uniform_real_distribution<double>(a,b)(g);};
  std::normal_distribution<double> N01;
  long tot[7][3]={{0}},far[7][3]={{0}};
  for(int it=0;it<60000;it++){ int n=1+it%6; 
      std::vector<std::vector<double>> Q(n,std::vector<double>(n)); for(int i=0;i<n;i++){ for(int j=0;j<n;j++) Q[i][j]=N01(g); for(int k=0;k<i;k++){ double d=0; for(int j=0;j<n;j++) d+=Q[i][j]*Q[k][j]; for(int j=0;j<n;j++) Q[i][j]-=d*Q[k][j]; } double nr=0; for(int j=0;j<n;j++) nr+=Q[i][j]*Q[i][j]; nr=sqrt(nr); for(int j=0;j<n;j++) Q[i][j]/=nr; }
      std::vector<double> lam(n),c(n); double cond=pow(10,U(0,4)); for(int i=0;i<n;i++){ lam[i]=pow(cond,n==1?0:(double)i/(n-1)); c[i]=U(-5,5);} double f0=U(0.5,3)*(U(0,1)<0.5?-1:1);
      auto f=[&](std::vector<double> x){ double s=f0; for(int k=0;k<n;k++){ double p=0; for(int j=0;j<n;j++) p+=Q[k][j]*(x[j]-c[j]); s+=lam[k]*p*p; } return s; };
      double ftol=pow(10,-U(3,12)); Minimization M(ftol); std::vector<double> st(n); for(int i=0;i<n;i++) st[i]=c[i]+U(-10,10); int dc=(it/6)%3; double del= dc==0? pow(10,U(-3,-1)) : dc==1? pow(10,U(-1,1)) : pow(10,U(1,3));
      std::vector<double> r=M.minimize(st,del,f);
      double fr=f(r); // excess f
      double excess=fr-f0; double allow=100*ftol*fabs(f0)+1e-12; tot[n][dc]++; if(excess>allow){ far[n][dc]++; if(dc>=1) printf("n=%d dc=%d cond=%.3g ftol=%.3g del=%.3g f0=%.3g excess=%.3g ratio=%.3g nfunc=%d\n",n,dc,cond,ftol,del,f0,excess,excess/(ftol*fabs(f0)),M.nfunc);}
  }
  for(int n=1;n<=6;n++){ printf("n=%d:",n); for(int dc=0;dc<3;dc++) printf("  del-class%d far %ld/%ld",dc,far[n][dc],tot[n][dc]); printf("\n"); }
}
