#include "libphysica/Linear_Algebra.hpp"
#include "libphysica/Integration.hpp"
#include "libphysica/Special_Functions.hpp"
#include "libphysica/Statistics.hpp"
#include "libphysica/Numerics.hpp"
#include <cstdio>
#include <cmath>
#include <cstring>
#include <random>
using namespace libphysica;
static bool biteq(double a,double b){ return std::memcmp(&a,&b,8)==0 || (a==b); }
int main(){ std::mt19937_64 g(4); auto U=[&](double a,double b){return std::uniform_real_distribution<double>(a,b)(g);};
 // C04 exactness
 long bad_tp=0,bad_AI=0,bad_elem=0,bad_cmp=0,bad_mv=0; 
 for(int it=0;it<3000;it++){ int m=1+it%5,n=1+(it/5)%5,k=1+(it/25)%5; Matrix A(m,n),B(n,k),C(m,n); for(int i=0;i<m;i++)for(int j=0;j<n;j++){A[i][j]=U(-1,1)*pow(10,U(-8,8)); C[i][j]=U(-1,1)*pow(10,U(-8,8)); if(it%7==0) A[i][j]=0;} for(int i=0;i<n;i++)for(int j=0;j<k;j++)B[i][j]=U(-1,1)*pow(10,U(-8,8));
   Matrix L=(A*B).Transpose(), Rr=B.Transpose()*A.Transpose(); if(!(L==Rr)) bad_tp++; if(!((A*Identity_Matrix(n))==A)) bad_AI++; if(!(A.Transpose().Transpose()==A)) bad_AI++;
   Matrix S=A+C, D=A-C; for(int i=0;i<m;i++)for(int j=0;j<n;j++){ if(!biteq(S[i][j],A[i][j]+C[i][j])||!biteq(D[i][j],A[i][j]-C[i][j])) bad_elem++; } Matrix E=A; E+=C; if(!(E==S)) bad_cmp++; E=A; E-=C; if(!(E==D)) bad_cmp++;
   Vector v(n); for(int j=0;j<n;j++) v[j]=U(-1,1); Vector mv=A*v; Matrix col(n,1); for(int j=0;j<n;j++) col[j][0]=v[j]; Matrix mc=A*col; for(int i=0;i<m;i++) if(!biteq(mv[i],mc[i][0])) bad_mv++; Vector w(m); for(int i=0;i<m;i++) w[i]=U(-1,1); Vector vm=w*A; Matrix row(1,m); for(int i=0;i<m;i++) row[0][i]=w[i]; Matrix rm=row*A; for(int j=0;j<n;j++) if(!biteq(vm[j],rm[0][j])) bad_mv++; }
 printf("C04: transpose-product mismatches=%ld A*I/TT=%ld elementwise=%ld compound=%ld matvec=%ld\n",bad_tp,bad_AI,bad_elem,bad_cmp,bad_mv);
 // C12 overload equality
 long bad_gl=0; for(unsigned n=1;n<=80;n++){ double a=U(-3,3), b=a+U(0.1,4); auto f=[](double x){return exp(0.3*x)*cos(x);}; double I1=Integrate_Gauss_Legendre(f,a,b,n); auto rw=Compute_Gauss_Legendre_Roots_and_Weights(n,a,b); double I2=Integrate_Gauss_Legendre(f,rw); std::vector<double> fv; for(auto&r:rw) fv.push_back(f(r[0])); double I3=Integrate_Gauss_Legendre(fv,rw); if(!biteq(I1,I2)||!biteq(I2,I3)) bad_gl++; } printf("C12 overload mismatches=%ld\n",bad_gl);
 // C11 Find_Maximum == Find_Minimum(-f)
 long bad_max=0; for(int it=0;it<2000;it++){ double m=U(-3,3),s=U(0.1,3); auto f=[=](double x){return -(x-m)*(x-m)/s+cos(x);}; auto nf=[=](double x){return -1.0*f(x);}; double x0=U(-5,5),x1=x0+U(0.1,2); double a=Find_Maximum(f,x0,x1,1e-8), b=Find_Minimum(nf,x0,x1,1e-8); if(!biteq(a,b)) bad_max++; } printf("C11 max/min mismatches=%ld\n",bad_max);
 // C17 Inv_Erf oddness, Dawson oddness
 double w_odd=0; long bad_d=0; for(int it=0;it<20000;it++){ double p=U(0,1); if(it%3==0) p=1-pow(10,-U(1,12)); w_odd=std::max(w_odd,fabs(Inv_Erf(p)+Inv_Erf(-p))); double x=U(0,30); if(!biteq(Dawson_Integral(-x),-Dawson_Integral(x))) bad_d++; } printf("C17 Inv_Erf odd worst=%g Dawson odd mismatches=%ld\n",w_odd,bad_d);
 // C06 factorial recurrence bit-exact
 long bad_f=0; for(unsigned n=170;n>=1;n--){ if(!biteq(Factorial(n),n*Factorial(n-1))) bad_f++; } printf("C06 factorial recurrence mismatches (descending first call order)=%ld\n",bad_f);
 // C09 prefactor exactness
 long bad_p=0,bad_p2=0,bad_p3=0; double worst=0; { std::vector<double> x={0,1,2.5,4,4.2,7}, y={1,-2,0.5,3,3,-1}; Interpolation I(x,y), F(x,y); double pf=-3.7e5; I.Set_Prefactor(pf); for(int it=0;it<20000;it++){ double q=U(0,7); if(!biteq(I(q),pf*F(q))) bad_p++; if(!biteq(I.Derivative(q,1),pf*F.Derivative(q,1))||!biteq(I.Derivative(q,2),pf*F.Derivative(q,2))||!biteq(I.Derivative(q,3),pf*F.Derivative(q,3))) bad_p2++; double i1=I.Integrate(q,3.3), i2=pf*F.Integrate(q,3.3); if(!biteq(i1,i2)){ bad_p3++; worst=std::max(worst,fabs(i1-i2)/(fabs(pf)*3*(fabs(q)+3.3)*2.2e-16)); } } } printf("C09 prefactor: value=%ld deriv=%ld integ=%ld (worst integ diff in eps*scale=%g)\n",bad_p,bad_p2,bad_p3,worst);
 // C03 sign of epsilon irrelevant, swap exact
 long bad_s=0; for(int it=0;it<5000;it++){ double a=U(-3,3),b=U(-3,3),e=pow(10,U(-12,-1)); auto f=[](double x){return exp(-x*x)*x+sin(3*x);}; if(!biteq(Integrate(f,a,b,e),Integrate(f,a,b,-e))) bad_s++; if(!biteq(Integrate(f,a,b,e),-Integrate(f,b,a,e))) bad_s++; } printf("C03 eps-sign/swap mismatches=%ld\n",bad_s);
}
