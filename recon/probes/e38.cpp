#include "libphysica/Integration.hpp"
#include <cstdio>
using namespace libphysica;
int main(){ std::vector<double> reg={0,0,1,2}; auto f=[](std::vector<double>&x,const double){return x[0]*x[1];}; for(const char* m: {"Monte-Carlo","Vegas","Miser"}) printf("%s %g\n",m,Integrate_MC(f,reg,5000,m)); printf("%g\n",Integrate_2D([](double x,double y){return x*y;},0,1,0,2,"Miser",4000)); }
