#!/usr/bin/env python3
"""Development tool (not a registered command): run checks against a mutated scratch copy of /repo.

  selftest/mutant.py --patch <diff> | --sed <file> <sed-expr>  [--tier quick] [--seed N] [--keep] PROP [PROP...]

Copies /repo/src and /repo/include to a scratch dir under /tmp, applies the change, runs `bin/check PROP` with
VERIF_REPO/VERIF_BUILD/VERIF_EVIDENCE_DIR pointing at the scratch dir, prints the verdict lines and removes the scratch dir.
Never touches /repo or /verif/evidence.
"""
import os, shutil, subprocess, sys, tempfile
VERIF = os.path.dirname(os.path.dirname(os.path.abspath(__file__)))
a = sys.argv[1:]
patch = sed = None
tier, seed, keep = "quick", "1", False
props = []
i = 0
while i < len(a):
    if a[i] == "--patch": patch = a[i + 1]; i += 2
    elif a[i] == "--sed": sed = (a[i + 1], a[i + 2]); i += 3
    elif a[i] == "--tier": tier = a[i + 1]; i += 2
    elif a[i] == "--seed": seed = a[i + 1]; i += 2
    elif a[i] == "--keep": keep = True; i += 1
    else: props.append(a[i]); i += 1
d = tempfile.mkdtemp(prefix="verif-mutant-", dir="/tmp")
try:
    os.makedirs(d + "/repo")
    shutil.copytree("/repo/src", d + "/repo/src")
    shutil.copytree("/repo/include", d + "/repo/include")
    if patch:
        r = subprocess.run(["patch", "-p1", "-i", os.path.abspath(patch)], cwd=d + "/repo", capture_output=True, text=True)
        if r.returncode != 0:
            print("PATCH FAILED", r.stdout, r.stderr); sys.exit(2)
    if sed:
        before = open(d + "/repo/" + sed[0]).read()
        subprocess.run(["sed", "-i", "-E", sed[1], d + "/repo/" + sed[0]], check=True)
        if open(d + "/repo/" + sed[0]).read() == before:
            print("SED CHANGED NOTHING"); sys.exit(2)
    env = dict(os.environ, VERIF_REPO=d + "/repo", VERIF_BUILD=d + "/build", VERIF_EVIDENCE_DIR=d + "/ev", VERIF_SEED=seed)
    os.makedirs(d + "/ev/replay")
    rc_all = {}
    for p in props:
        r = subprocess.run([sys.executable, VERIF + "/bin/check", p, "--tier", tier], env=env, capture_output=True, text=True)
        lines = [l for l in r.stdout.splitlines() if l.startswith(("VIOLATION", "  key=", "KNOWN", "INCONCL", "HARNESS", p + " tier"))]
        print("\n".join(l[:400] for l in lines[:12]))
        print("==> %s exit %d" % (p, r.returncode))
        if r.returncode == 2 and r.stderr: print(r.stderr[-1500:])
        rc_all[p] = r.returncode
finally:
    if not keep:
        shutil.rmtree(d, ignore_errors=True)
    else:
        print("kept", d)
