#!/usr/bin/env python3
"""Development tool: prints the markdown table of seeded changes (seeded/*/meta.json) for DESIGN.md section 10."""
import glob, json, os
VERIF = os.path.dirname(os.path.dirname(os.path.abspath(__file__)))
rows = []
for d in sorted(glob.glob(os.path.join(VERIF, "seeded", "*"))):
    m = json.load(open(os.path.join(d, "meta.json")))
    sid = os.path.basename(d)
    what = (m.get("what_changed") or m.get("what") or "").replace("|", "\\|").replace("\n", " ")
    needs = (m.get("needs_to_manifest") or "").replace("|", "\\|").replace("\n", " ")
    chk = m.get("checks_run", {})
    caught = []
    for c, v in chk.items():
        if v.get("exit") == "1":
            keys = [k for k in v.get("violation_keys", []) if not k.startswith("process-death") or len(v.get("violation_keys", [])) == 1][:2]
            caught.append("%s (%s)" % (c, ", ".join(keys)))
    def cut(s, n):
        return s if len(s) <= n else s[: n - 1].rstrip() + "…"
    rows.append("| %s | %s | %s | %s |" % (sid, cut(what, 230), cut(needs, 170), "; ".join(caught) if caught else "**not caught**"))
print("| id | change | needs to manifest | caught by quick check (first violation keys) |")
print("|---|---|---|---|")
print("\n".join(rows))
