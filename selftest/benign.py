#!/usr/bin/env python3
"""Development tool (not a registered command): run the quick checks against the HARMLESS maintenance changes written by sub-agents
(/tmp/wt4/out4_<ID>/b<k>/patch.diff, or the copies filed under /verif/benign/).  Every check must stay silent (exit 0).

  selftest/benign.py [--jobs 4] [--only C03-b1,C07-b2] [--from-filed] [--tier quick]

For each change the owning property's check runs, plus the checks of every property anchored in a source file the patch touches, plus C10 (diagnostics).
The change is filed under /verif/benign/<ID>-b<k>/ with meta.json extended by what the checks said.  Nothing is applied to /repo."""
import json, os, re, shutil, subprocess, sys
from concurrent.futures import ThreadPoolExecutor
VERIF = os.path.dirname(os.path.dirname(os.path.abspath(__file__)))
a = sys.argv[1:]
jobs, only, filed, tier = 4, None, False, "quick"
i = 0
while i < len(a):
    if a[i] == "--jobs": jobs = int(a[i + 1]); i += 2
    elif a[i] == "--only": only = set(a[i + 1].split(",")); i += 2
    elif a[i] == "--from-filed": filed = True; i += 1
    elif a[i] == "--tier": tier = a[i + 1]; i += 2
    else: i += 1
GROUPS = {"Numerics": ["C01", "C02", "C08", "C09", "C11"], "Integration": ["C03", "C12", "C13", "C14"], "Linear_Algebra": ["C04", "C05", "C15", "C16"],
          "Special_Functions": ["C06", "C07", "C17", "C18"], "Statistics": ["C07", "C18", "C19"], "Utilities": ["C19", "C20"], "Natural_Units": ["C20"], "List_Manipulations": ["C19"]}
items = []
if filed:
    for d in sorted(os.listdir(os.path.join(VERIF, "benign"))):
        if os.path.exists(os.path.join(VERIF, "benign", d, "patch.diff")):
            items.append((d, os.path.join(VERIF, "benign", d)))
else:
    for n in range(1, 21):
        pid = "C%02d" % n
        base = "/tmp/wt4/out4_%s" % pid
        if not os.path.isdir(base): continue
        for k in sorted(os.listdir(base)):
            if re.fullmatch(r"b\d+", k) and os.path.exists(os.path.join(base, k, "patch.diff")):
                items.append(("%s-%s" % (pid, k), os.path.join(base, k)))
if only:
    items = [x for x in items if x[0] in only]

def run_one(it):
    bid, d = it
    pid = bid.split("-")[0]
    patch = os.path.join(d, "patch.diff")
    txt = open(patch).read()
    checks = [pid]
    for g, props in GROUPS.items():
        if re.search(r"^\+\+\+ b/.*%s\.(cpp|hpp)" % g, txt, re.M):
            for p in props:
                if p not in checks: checks.append(p)
    if "C10" not in checks: checks.append("C10")
    r = subprocess.run("git -C /repo apply --check %s" % patch, shell=True, capture_output=True, text=True)
    res = {"applies_to_head": r.returncode == 0, "checks": {}}
    if r.returncode == 0:
        for c in checks:
            p = subprocess.run("python3 %s/selftest/mutant.py --patch %s --tier %s %s" % (VERIF, patch, tier, c), shell=True, capture_output=True, text=True, timeout=7200)
            o = p.stdout + p.stderr
            ex = [l for l in o.splitlines() if l.startswith("==>")]
            keys = [l.split("key=")[1].split(" ")[0] for l in o.splitlines() if l.strip().startswith("key=")]
            res["checks"][c] = {"exit": ex[-1].split()[-1] if ex else "?", "violation_keys": keys[:8]}
    dst = os.path.join(VERIF, "benign", bid)
    os.makedirs(dst, exist_ok=True)
    if os.path.abspath(d) != os.path.abspath(dst):
        for f in ("patch.diff", "demo.cpp", "build.sh"):
            if os.path.exists(os.path.join(d, f)): shutil.copy(os.path.join(d, f), dst)
    try:
        meta = json.load(open(os.path.join(d, "meta.json")))
    except Exception as e:
        meta = {"note": "agent meta.json unreadable: %s" % e}
    meta["quick_checks_against_this_change"] = res
    meta["silent"] = bool(res["applies_to_head"] and all(v["exit"] == "0" for v in res["checks"].values()))
    json.dump(meta, open(os.path.join(dst, "meta.json"), "w"), indent=1)
    alarms = {c: v for c, v in res["checks"].items() if v["exit"] != "0"}
    print(bid, "SILENT" if meta["silent"] else "ALARM %s" % json.dumps(alarms)[:600], flush=True)
    return bid, meta["silent"]

with ThreadPoolExecutor(max_workers=jobs) as ex:
    out = list(ex.map(run_one, items))
bad = [b for b, ok in out if not ok]
print("BENIGN DONE: %d changes, %d not silent: %s" % (len(out), len(bad), bad))
