#!/usr/bin/env python3
"""Development tool: run the owning property's quick check against every kept seeded change at another VERIF_SEED and list the ones it no longer catches.

  selftest/seed_sweep.py --seed 2 [--jobs 5] [--only C02-m1,...]

Nothing is written to the meta files; the result goes to stdout (one line per change) and to seeded/SEED_SWEEP_<seed>.txt."""
import json, os, subprocess, sys
from concurrent.futures import ThreadPoolExecutor
VERIF = os.path.dirname(os.path.dirname(os.path.abspath(__file__)))
a = sys.argv[1:]
seed, jobs, only = "2", 5, None
i = 0
while i < len(a):
    if a[i] == "--seed": seed = a[i + 1]; i += 2
    elif a[i] == "--jobs": jobs = int(a[i + 1]); i += 2
    elif a[i] == "--only": only = set(a[i + 1].split(",")); i += 2
    else: i += 1
ids = sorted(d for d in os.listdir(os.path.join(VERIF, "seeded")) if os.path.exists(os.path.join(VERIF, "seeded", d, "patch.diff")))
if only: ids = [x for x in ids if x in only]
def run(sid):
    d = os.path.join(VERIF, "seeded", sid)
    m = json.load(open(os.path.join(d, "meta.json")))
    if m.get("neutralised_by_fix") or not m.get("caught_by"):
        return sid, "skipped", []
    prop = sid.split("-")[0]
    p = subprocess.run("python3 %s/selftest/mutant.py --patch %s/patch.diff --tier quick --seed %s %s" % (VERIF, d, seed, prop), shell=True, capture_output=True, text=True, timeout=7200)
    o = p.stdout + p.stderr
    ex = [l for l in o.splitlines() if l.startswith("==>")]
    keys = [l.split("key=")[1].split(" ")[0] for l in o.splitlines() if l.strip().startswith("key=")]
    r = ex[-1].split()[-1] if ex else "?"
    print(sid, "exit", r, keys[:3], flush=True)
    return sid, r, keys[:3]
with ThreadPoolExecutor(max_workers=jobs) as ex:
    res = list(ex.map(run, ids))
missed = [s for s, r, k in res if r not in ("1", "skipped")]
open(os.path.join(VERIF, "seeded", "SEED_SWEEP_%s.txt" % seed), "w").write("VERIF_SEED=%s: %d changes checked, not caught at this seed: %s\n" % (seed, sum(1 for s, r, k in res if r != "skipped"), missed) + "\n".join("%s exit %s %s" % x for x in res) + "\n")
print("SWEEP DONE seed", seed, "missed:", missed)
