#!/bin/bash
# Development tool: every driver once under valgrind memcheck (g++ -O0 build with hooks), tiny workload; prints the error summary per driver.
#   selftest/memcheck_all.sh [scale]      (default 0.01)
cd "$(dirname "$0")/.." || exit 2
scale=${1:-0.01}
for d in c01_interp c02_findroot c03_simpson c04_algebra c05_inverse_det c06_gamma c07_distributions c08_interp_calculus c09_interp_history c11_minimisers c12_gausslegendre c13_methods c14_montecarlo c15_eigen c16_rotations c17_special c18_samplers c19_helpers c20_io_units; do
  exe=$(python3 -c "import sys; sys.path.insert(0,'bin'); import buildlib; print(buildlib.ensure_driver('memcheck','$d'))" 2>/dev/null | tail -1)
  ( timeout 3000 valgrind --quiet --error-exitcode=97 --track-origins=yes --num-callers=12 "$exe" --seed 1 --tier quick --shard 0/1 --scale "$scale" > /tmp/verif-memcheck-$d.out 2> /tmp/verif-memcheck-$d.err; echo "$d rc=$? errors=$(grep -c 'Conditional jump\|Use of uninitialised\|Invalid read\|Invalid write' /tmp/verif-memcheck-$d.err)" ) &
done
wait
