#!/usr/bin/env python3
"""Development tool (not a registered command): confirm and file the seeded changes a sub-agent produced.

  selftest/confirm_seeded.py <ID> [--checks C01,C09] [--tier quick]

For every /tmp/wt/out_<ID>/m<k>/ (patch.diff, demo.cpp, build.sh, meta.json) it
  1. applies the patch in the scratch worktree /tmp/wt/<ID>, rebuilds, runs the pinned suite (ctest, one retry for the known flaky MC tests),
     builds+runs the demonstration (must FAIL), reverts, rebuilds, runs the demonstration again (must PASS);
  2. runs the registered quick check(s) of the property against a scratch copy of /repo with the patch applied (selftest/mutant.py);
  3. files the change under /verif/seeded/<ID>-m<k>/ with meta.json extended by what was run and what the checks said.
Nothing is ever applied to /repo itself.
"""
import json, os, shutil, subprocess, sys, time
VERIF = os.path.dirname(os.path.dirname(os.path.abspath(__file__)))
a = sys.argv[1:]
pid = a[0]
checks = [pid]
tier = "quick"
rnd = ""
root = "/tmp/wt"
i = 1
while i < len(a):
    if a[i] == "--checks": checks = a[i + 1].split(","); i += 2
    elif a[i] == "--round": rnd = a[i + 1]; i += 2
    elif a[i] == "--tier": tier = a[i + 1]; i += 2
    elif a[i] == "--root": root = a[i + 1]; i += 2
    else: i += 1
wt, out = root + "/" + pid, "%s/out%s_%s" % (root, rnd, pid)

def sh(cmd, cwd=None, timeout=3600):
    r = subprocess.run(cmd, shell=True, cwd=cwd, capture_output=True, text=True, timeout=timeout)
    return r.returncode, (r.stdout + r.stderr)

def build():
    rc, o = sh("cmake --build _build 2>&1 | tail -5", cwd=wt)
    return rc == 0 and "FAILED" not in o and "error:" not in o, o

def suite():
    for attempt in range(3):
        rc, o = sh("ctest --test-dir _build -j8 --timeout 900 2>&1 | tail -12", cwd=wt)
        if "100% tests passed" in o:
            return True, "ctest: 100%% tests passed (attempt %d)" % (attempt + 1)
    # which gtest cases fail?  accept only the flaky Monte-Carlo ones
    rc, o2 = sh("for t in _build/tests/test_*; do [ -x $t ] && $t 2>&1 | grep -E '^\\[  FAILED  \\]' ; done | sort -u", cwd=wt)
    failed = sorted(set(l.split("]")[1].split("(")[0].split(",")[0].strip() for l in o2.splitlines() if "FAILED" in l and "." in l))
    flaky = {"TestIntegration.TestIntegrate2DMC", "TestStatistics.TestMetropolis2D"}
    ok = all(f in flaky for f in failed)
    return ok, "ctest failing cases after 3 attempts: %s" % failed

def demo(d):
    rc, o = sh("sh ./build.sh", cwd=d, timeout=1800)
    return rc, o[-600:]

results = []
for k in sorted(os.listdir(out)):
    d = os.path.join(out, k)
    if not (k.startswith("m") and os.path.exists(os.path.join(d, "patch.diff"))):
        continue
    rec = {"id": "%s-%s%s" % (pid, ("r%s" % rnd) if rnd else "", k)}
    sh("git checkout -- . && git clean -fdq -e _build", cwd=wt)
    rc, o = sh("git apply --whitespace=nowarn %s/patch.diff" % d, cwd=wt)
    if rc != 0:
        rec["error"] = "patch does not apply: " + o[-300:]
        results.append(rec); print(rec); continue
    okb, ob = build()
    oks, os_ = suite() if okb else (False, "build failed: " + ob[-400:])
    rc_changed, o_changed = demo(d) if okb else (None, "")
    sh("git checkout -- . && git clean -fdq -e _build", cwd=wt)
    okb2, _ = build()
    rc_clean, o_clean = demo(d)
    rec.update({"compiles": okb, "suite_passes_with_change": oks, "suite_note": os_, "demo_exit_with_change": rc_changed,
                "demo_exit_unchanged": rc_clean, "demo_tail_with_change": o_changed[-300:], "demo_tail_unchanged": o_clean[-200:]})
    confirmed = bool(okb and oks and rc_changed not in (0, None) and rc_clean == 0)
    rec["confirmed"] = confirmed
    # run the checks against a scratch copy of /repo's current tree with the patch applied; a patch that was rebased onto a later fix: commit
    # lives in /verif/seeded/<id>/patch.diff and takes precedence over the sub-agent's original (which was confirmed above on the tree it was written for)
    chk = {}
    seeded_patch = os.path.join(VERIF, "seeded", rec["id"], "patch.diff")
    check_patch = os.path.join(d, "patch.diff")
    rebased = False
    if os.path.exists(seeded_patch) and open(seeded_patch).read() != open(check_patch).read():
        check_patch, rebased = seeded_patch, True
    for c in checks:
        t0 = time.time()
        rc, o = sh("python3 %s/selftest/mutant.py --patch %s --tier %s %s" % (VERIF, check_patch, tier, c), timeout=7200)
        keys = [l.split("key=")[1].split(" ")[0] for l in o.splitlines() if l.strip().startswith("key=")]
        ex = [l for l in o.splitlines() if l.startswith("==>")]
        chk[c] = {"exit": ex[-1].split()[-1] if ex else "?", "violation_keys": keys[:8], "wall_s": round(time.time() - t0, 1)}
    rec["checks"] = chk
    rec["caught_by"] = [c for c, v in chk.items() if v["exit"] == "1"]
    results.append(rec)
    print(json.dumps(rec)[:1500], flush=True)
    if confirmed:
        dst = os.path.join(VERIF, "seeded", rec["id"])
        os.makedirs(dst, exist_ok=True)
        for f in ("patch.diff", "demo.cpp", "build.sh"):
            if f == "patch.diff" and rebased:
                shutil.copy(os.path.join(d, f), os.path.join(dst, "patch.original.diff"))   # as written by the sub-agent, for the tree before the later fix
                continue
            if os.path.exists(os.path.join(d, f)):
                shutil.copy(os.path.join(d, f), dst)
        try:
            meta = json.load(open(os.path.join(d, "meta.json")))
        except Exception as e:
            meta = {"note": "agent meta.json unreadable: %s" % e}
        meta["confirmation"] = {"what_i_ran": "in scratch worktree %s: git apply patch.diff; cmake --build _build; ctest --test-dir _build -j8 (retry for flaky MC tests); sh build.sh (demo must fail); "
                                              "git checkout -- .; rebuild; sh build.sh (demo must pass); then selftest/mutant.py --patch patch.diff --tier %s %s" % (wt, tier, " ".join(checks)),
                                "compiles": okb, "suite": os_, "demo_exit_with_change": rc_changed, "demo_exit_unchanged": rc_clean}
        if rebased:
            meta["rebased"] = "patch.diff was rebased by hand onto /repo HEAD after a later fix: commit touched the same lines; patch.original.diff is the sub-agent's patch for the earlier tree (demo confirmed on that tree)"
        meta["checks_run"] = chk
        meta["caught_by"] = rec["caught_by"]
        json.dump(meta, open(os.path.join(dst, "meta.json"), "w"), indent=1)
json.dump(results, open("%s/confirm%s_%s.json" % (root, rnd, pid), "w"), indent=1)
print("SUMMARY", pid, [(r["id"], r.get("confirmed"), r.get("caught_by")) for r in results])
