#!/usr/bin/env python3
"""Development tool (not a registered command): re-confirm every kept seeded change against /repo's *current* HEAD.

  selftest/reconfirm_all.py [--jobs 4] [--only C02-m1,C07-m2] [--no-checks]

For every /verif/seeded/<id>/ it uses a scratch worktree of /repo HEAD under /tmp (removed afterwards) to
  1. apply patch.diff (must apply), rebuild, run the pinned suite (retry for the known flaky Monte-Carlo tests),
  2. build and run the demonstration (build.sh with its hard-wired worktree path rewritten): must FAIL,
  3. revert, rebuild, run the demonstration again: must PASS,
  4. unless --no-checks: run the owning property's quick check against a scratch copy with the patch applied (selftest/mutant.py): must exit 1,
and writes the outcome into seeded/<id>/meta.json under "reconfirmed_on_head".
"""
import json, os, re, shutil, subprocess, sys, tempfile
from concurrent.futures import ThreadPoolExecutor

VERIF = os.path.dirname(os.path.dirname(os.path.abspath(__file__)))
a = sys.argv[1:]
jobs, only, checks = 4, None, True
checks_only = False
i = 0
while i < len(a):
    if a[i] == "--jobs": jobs = int(a[i + 1]); i += 2
    elif a[i] == "--only": only = set(a[i + 1].split(",")); i += 2
    elif a[i] == "--no-checks": checks = False; i += 1
    elif a[i] == "--checks-only": checks_only = True; i += 1
    else: i += 1

def sh(cmd, cwd=None, timeout=3600):
    r = subprocess.run(cmd, shell=True, cwd=cwd, capture_output=True, text=True, timeout=timeout)
    return r.returncode, r.stdout + r.stderr

head = subprocess.run("git -C /repo rev-parse HEAD", shell=True, capture_output=True, text=True).stdout.strip()
ids = sorted(d for d in os.listdir(os.path.join(VERIF, "seeded")) if os.path.exists(os.path.join(VERIF, "seeded", d, "patch.diff")))
if only:
    ids = [x for x in ids if x in only]
FLAKY = {"TestIntegration.TestIntegrate2DMC", "TestStatistics.TestMetropolis2D"}

def worker_checks_only(slot_ids):
    slot, my = slot_ids
    out = {}
    for sid in my:
        d = os.path.join(VERIF, "seeded", sid)
        mp = os.path.join(d, "meta.json")
        m = json.load(open(mp))
        prop = sid.split("-")[0]
        rc, o = sh("python3 %s/selftest/mutant.py --patch %s/patch.diff --tier quick %s" % (VERIF, d, prop), timeout=7200)
        ex = [l for l in o.splitlines() if l.startswith("==>")]
        keys = [l.split("key=")[1].split(" ")[0] for l in o.splitlines() if l.strip().startswith("key=")]
        rec = m.get("reconfirmed_on_head", {})
        rec["check_exit"] = ex[-1].split()[-1] if ex else "?"
        rec["violation_keys"] = keys[:6]
        rec["check_rerun_on_repo_head"] = head[:7]
        rec["ok"] = bool(rec.get("patch_applies") and rec.get("compiles") and rec.get("suite_passes_with_change") and rec.get("demo_exit_with_change") not in (0, None)
                         and rec.get("demo_exit_unchanged") == 0 and rec.get("check_exit") == "1")
        m["reconfirmed_on_head"] = rec
        if rec["check_exit"] in ("0", "1"):
            m.setdefault("checks_run", {})[prop] = {"exit": rec["check_exit"], "violation_keys": rec["violation_keys"]}
            m["caught_by"] = [prop] if rec["check_exit"] == "1" else []
        json.dump(m, open(mp, "w"), indent=1)
        out[sid] = rec
        print(sid, json.dumps(rec)[:300], flush=True)
    return out

def worker(slot_ids):
    slot, my = slot_ids
    wt = "/tmp/verif-reconfirm-%d" % slot
    sh("git -C /repo worktree remove --force %s" % wt)
    rc, o = sh("git -C /repo worktree add --detach %s %s" % (wt, head))
    rc, o = sh("cmake -G Ninja -B _build -DCMAKE_BUILD_TYPE=RelWithDebInfo -DFETCHCONTENT_SOURCE_DIR_GOOGLETEST=/usr/src/googletest -DFETCHCONTENT_UPDATES_DISCONNECTED=ON >/dev/null 2>&1 && cmake --build _build 2>&1 | tail -2", cwd=wt)
    out = {}
    for sid in my:
        d = os.path.join(VERIF, "seeded", sid)
        rec = {"repo_head": head[:7]}
        sh("git checkout -- . && git clean -fdq -e _build", cwd=wt)
        rc, o = sh("git apply --whitespace=nowarn %s/patch.diff" % d, cwd=wt)
        rec["patch_applies"] = rc == 0
        if rc == 0:
            rc, o = sh("cmake --build _build 2>&1 | tail -3", cwd=wt)
            rec["compiles"] = rc == 0 and "FAILED" not in o and "error:" not in o
            ok = False
            for attempt in range(3):
                rc, o = sh("ctest --test-dir _build -j4 --timeout 900 2>&1 | tail -6", cwd=wt)
                if "100% tests passed" in o:
                    ok = True
                    break
            if not ok:
                rc, o2 = sh("for t in _build/tests/test_*; do [ -x $t ] && $t 2>&1 | grep -E '^\\[  FAILED  \\]' ; done | sort -u", cwd=wt)
                failed = sorted(set(l.split("]")[1].split("(")[0].split(",")[0].strip() for l in o2.splitlines() if "FAILED" in l and "." in l))
                ok = all(f in FLAKY for f in failed)
                rec["suite_failures"] = failed
            rec["suite_passes_with_change"] = ok
            # demonstration: copy to a scratch dir with the worktree path rewritten
            dd = tempfile.mkdtemp(prefix="verif-demo-", dir="/tmp")
            for f in os.listdir(d):
                if os.path.isfile(os.path.join(d, f)):
                    shutil.copy(os.path.join(d, f), dd)
            bs = os.path.join(dd, "build.sh")
            if os.path.exists(bs):
                txt = open(bs).read()
                txt = re.sub(r"/tmp/wt\d?/C\d\d", wt, txt)
                open(bs, "w").write(txt)
                rcd, od = sh("sh ./build.sh", cwd=dd, timeout=1800)
                rec["demo_exit_with_change"] = rcd
                sh("git checkout -- . && git clean -fdq -e _build", cwd=wt)
                sh("cmake --build _build 2>&1 | tail -3", cwd=wt)
                rcc, oc = sh("sh ./build.sh", cwd=dd, timeout=1800)
                rec["demo_exit_unchanged"] = rcc
            else:
                rec["demo"] = "no build.sh"
            shutil.rmtree(dd, ignore_errors=True)
        sh("git checkout -- . && git clean -fdq -e _build", cwd=wt)
        if checks and rec.get("patch_applies"):
            prop = sid.split("-")[0]
            rc, o = sh("python3 %s/selftest/mutant.py --patch %s/patch.diff --tier quick %s" % (VERIF, d, prop), timeout=7200)
            ex = [l for l in o.splitlines() if l.startswith("==>")]
            keys = [l.split("key=")[1].split(" ")[0] for l in o.splitlines() if l.strip().startswith("key=")]
            rec["check_exit"] = ex[-1].split()[-1] if ex else "?"
            rec["violation_keys"] = keys[:6]
        rec["ok"] = bool(rec.get("patch_applies") and rec.get("compiles") and rec.get("suite_passes_with_change") and rec.get("demo_exit_with_change") not in (0, None)
                         and rec.get("demo_exit_unchanged") == 0 and (not checks or rec.get("check_exit") == "1"))
        out[sid] = rec
        mp = os.path.join(d, "meta.json")
        m = json.load(open(mp))
        m["reconfirmed_on_head"] = rec
        if checks and rec.get("check_exit") in ("0", "1"):
            prop = sid.split("-")[0]
            m.setdefault("checks_run", {})[prop] = {"exit": rec["check_exit"], "violation_keys": rec.get("violation_keys", [])}
            m["caught_by"] = [prop] if rec["check_exit"] == "1" else []
        json.dump(m, open(mp, "w"), indent=1)
        print(sid, json.dumps(rec)[:300], flush=True)
    sh("git -C /repo worktree remove --force %s" % wt)
    shutil.rmtree(wt, ignore_errors=True)
    return out

slots = [(k, ids[k::jobs]) for k in range(jobs)]
with ThreadPoolExecutor(max_workers=jobs) as ex:
    res = {}
    for r in ex.map(worker_checks_only if checks_only else worker, slots):
        res.update(r)
bad = [k for k, v in res.items() if not v["ok"]]
print("RECONFIRM DONE: %d changes, %d not ok: %s" % (len(res), len(bad), bad))
