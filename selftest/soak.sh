#!/bin/bash
# Development tool (not a registered command): silence soak of the quick (or thorough) tier over several VERIF_SEED values.
#   selftest/soak.sh [tier] seed...      evidence goes to a scratch directory, never to /verif/evidence
cd "$(dirname "$0")/.." || exit 2
tier=${1:-quick}; shift
seeds=${@:-2 3 4 5 6 7 1000003 987654321}
ev=$(mktemp -d /tmp/verif-soak-XXXXXX)
bad=0
for s in $seeds; do
  for p in C01 C02 C03 C04 C05 C06 C07 C08 C09 C10 C11 C12 C13 C14 C15 C16 C17 C18 C19 C20; do
    out=$(VERIF_SEED=$s VERIF_EVIDENCE_DIR=$ev python3 bin/check $p --tier $tier 2>&1); rc=$?
    line=$(echo "$out" | grep -E "tier=" | tail -1)
    echo "seed=$s $p rc=$rc $line"
    if [ $rc -ne 0 ]; then bad=$((bad+1)); echo "$out" | grep -E "VIOLATION|key=|INCONCLUSIVE|HARNESS" | head -6; fi
  done
done
rm -rf "$ev"
echo "SOAK DONE: $bad non-zero exits"
