#!/usr/bin/env python3
"""Offline setup: checks the toolchain, creates build/, pre-builds the library flavours. Fetches nothing."""
import os
import shutil
import subprocess
import sys

HERE = os.path.dirname(os.path.abspath(__file__))
sys.path.insert(0, HERE)
import buildlib  # noqa: E402

missing = [t for t in ("g++", "clang++", "ar") if shutil.which(t) is None]
if missing:
    print("missing tools:", missing)
    sys.exit(2)
r = subprocess.run("echo '#include <boost/math/special_functions/gamma.hpp>\n#include <libconfig.h++>\nint main(){}' | g++ -x c++ -fsyntax-only -", shell=True)
if r.returncode != 0:
    print("Boost.Math or libconfig++ headers missing")
    sys.exit(2)
os.makedirs(buildlib.BUILD, exist_ok=True)
os.makedirs(os.path.join(buildlib.VERIF, "evidence", "replay"), exist_ok=True)
from concurrent.futures import ThreadPoolExecutor  # noqa: E402
with ThreadPoolExecutor(max_workers=6) as ex:
    list(ex.map(lambda f: buildlib.ensure_lib(f), ["rel", "asan", "cfg-gxx-O0", "cfg-gxx-O2", "cfg-clangxx-O0", "cfg-clangxx-O2"]))
print("setup ok")
