"""C19 configuration for bin/check."""
from propdefs.common import STD_ASSUME

PROP = {
    "driver": "c19_helpers",
    "flavours": [("rel", 1.0), ("asan", 0.2)],
    "shards": {"quick": 8, "thorough": 16},
    "rule": "exhaustive cases are all non-trivial (per clause the driver also counts tasks % workers != 0); random cases: more than one list element / data point, steps >= 2 with distinct ends; "
            "distinct = hash of the parameters. Workload_Distribution for every (workers, tasks) in 1..128 x 0..1024; Range for every (min, max, step) in [-40,40]^2 x 1..40 in both directions; "
            "Locate_Closest_Location on every non-decreasing list over {0..4} of length 1..8 x 15 half-integer targets (below, above, on elements, ties) plus random lists to length 64; "
            "Linear_Space/Log_Space with 0..2000 steps in either orientation; list templates on int, double, std::string incl. empty lists and every Sub_List index pair from -2 to size+2; "
            "summary statistics on data sets of length 1..200",
    "floors": {"quick": {"cases": 96000, "distinct_nontrivial": 100000,
                         "clauses": {"workload-distribution-partition": 131200, "range-enumerates-half-open-integer-range": 262440, "closest-location-is-a-nearest-element": 100000,
                                     "linear-space-equally-spaced": 5000, "log-space-equally-spaced-in-the-logarithm": 5000, "sub-list-definition": 100000,
                                     "variance-vs-reference-(n-1)": 5000, "equal-weights-give-standard-error-s-over-sqrtN": 4000, "median-definition": 6000}},
               "thorough": {"cases": 2000000, "distinct_nontrivial": 400000,
                            "clauses": {"workload-distribution-partition": 131200, "range-enumerates-half-open-integer-range": 262440, "sub-list-definition": 10000000}}},
    "exhaustive": {"quick": ["Workload_Distribution: all 1<=workers<=128, 0<=tasks<=1024", "Range: all min,max in [-40,40], steps 1..40", "Locate_Closest_Location: all non-decreasing lists over a 5-letter alphabet up to length 8 x 15 targets"],
                   "thorough": ["Workload_Distribution: all 1<=workers<=128, 0<=tasks<=1024", "Range: all min,max in [-40,40], steps 1..40", "Locate_Closest_Location: all non-decreasing lists over a 5-letter alphabet up to length 8 x 15 targets"]},
    "technique": "runtime monitoring: definition oracles written out in the driver (element-wise list definitions, nearest-element scan, long double summary statistics, translation/scaling/permutation laws) "
                 "applied to exhaustively enumerated finite sub-spaces and random inputs; the ASan+UBSan build runs the same enumerations to see out-of-range list accesses",
    "level_text": "The finite sub-spaces the property names were enumerated completely against the real library (131 200 partitions, 265 680 integer ranges, ~1.3e4 sorted lists x 15 targets) and "
                  "tens of thousands of random grids, lists (int/double/string, incl. empty and ragged) and data sets were judged by the written-out definitions and laws. exhaustive:true applies to the listed sub-spaces only.",
    "level_note": "Trusted: the definitions as written in the driver (half-open Range in both directions, inclusive clamped Sub_List, nearest element by absolute distance, variance with N-1, "
                  "Cochran standard error reducing to s/sqrt(N) for equal weights). Linear_Space/Log_Space with steps < 2 or min == max return {min}: pinned as observed, such requests have no meaning.",
    "assumptions": STD_ASSUME + ["Range step sizes are >= 1 (a step of 0 never terminates and is outside the quantifier)",
                                 "Transpose_Lists is called with a non-empty outer list; the standard-error clause is judged where the spread exceeds 1e-6 of the largest |value|"],
}
PROP["level_text"] += ' Grids also run over ranges scaled by 2^+-40..160 and starting at zero, data sets with offsets up to 1e5 sigma, lists with zeros of either sign and NaN, Range(max) for negative max.'
PROP["level_text"] += " Weighted_Average must leave the caller's list as it was (bit for bit, and a second call returns the same); ranges narrow relative to their position, subnormal data, the median between the central order statistics."
