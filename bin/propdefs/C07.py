"""C07 configuration for bin/check."""
from propdefs.common import STD_ASSUME

PROP = {
    "driver": "c07_distributions",
    "shards": {"quick": 8, "thorough": 16},
    "rule": "a case is non-trivial when a judged CDF difference lies between 1e-6 and 1-1e-6 (continuous families, Poisson), when the argument set straddles a support boundary, "
            "for binomial when 0<p<1 and trials>0, for likelihoods when several bins carry a background, for every KDE data set; distinct = hash of the family parameters. "
            "Families: uniform, normal, exponential, Maxwell-Boltzmann, chi-square (dof 0.5..400 incl. both sides of dof/2=100 and the singular densities dof<2), chi-bar-square "
            "(random weight vectors incl. the dof=0 atom), binomial (all trials 0..170, p incl. 0, 1 and 1e-12 from either), Poisson (means 1e-3..1e3, all counts 0..500), "
            "Poisson likelihoods (1..8 bins, with and without background), KDE (20..420 weighted points, windows 0.1..100, automatic and manual bandwidth)",
    "floors": {"quick": {"cases": 27000, "distinct_nontrivial": 22000,
                         "clauses": {"normal-cdf-difference-is-integral-of-density": 4000, "chi-square-cdf-difference-is-integral-of-density": 6000,
                                     "chi-bar-square-cdf-difference-is-integral-of-density": 2000, "maxwell-boltzmann-cdf-difference-is-integral-of-density": 2000,
                                     "exponential-cdf-difference-is-integral-of-density": 1500, "uniform-cdf-difference-is-integral-of-density": 1500,
                                     "binomial-cdf-is-sum-of-masses": 10000, "poisson-cdf-is-sum-of-masses": 5000, "poisson-cdf-is-sum-of-masses-shape>100": 5000,
                                     "inv-cdf-poisson-inverts-cdf": 1500, "quantile-gauss-inverts-cdf": 8000, "likelihood-poisson-equals-mass-at-signal-plus-background": 8000,
                                     "binned-likelihood-is-product-of-bin-likelihoods": 2000, "kde-integrates-to-one-over-its-window": 300}},
               "thorough": {"cases": 1000000, "distinct_nontrivial": 400000,
                            "clauses": {"chi-square-cdf-difference-is-integral-of-density": 600000, "poisson-cdf-is-sum-of-masses": 500000, "kde-integrates-to-one-over-its-window": 30000}}},
    "technique": "runtime monitoring: coherence oracles between pairs of library functions (CDF difference vs the driver's long double Gauss-Legendre quadrature of the library's own density, "
                 "CDF vs running long double sum of the library's mass function), independent references (Boost.Math gamma_q / erf_inv, lgammal) for inverses and masses; ASan+UBSan build in parallel",
    "level_text": "For thousands of sampled parameter sets per family the real library's density/mass, CDF, quantile and likelihood functions were called on argument sets that include support "
                  "ends, adjacent doubles at branch points and far tails; the monitors checked non-negativity, range, monotonicity and limits of every CDF, CDF differences against the integral "
                  "(sum) of the density (mass) within 1e-11 (2e-3 where the incomplete gamma call has shape > 100, property C06's accuracy there), inverses against Boost references, "
                  "likelihoods against the mass function and lgammal, KDE non-negativity on a 1000-point scan and unit integral within 1e-5. Exploration over sampled parameters.",
    "level_note": "Trusted: the driver's quadrature (16-point Gauss-Legendre panels in long double, geometric refinement towards the origin for singular densities), Boost.Math and libm long double "
                  "functions as references, harness plumbing.",
    "assumptions": STD_ASSUME + ["coherence tolerance 1e-11 absolute; 1e-3 per CDF value when the underlying incomplete gamma call has shape parameter > 100 (the accuracy property C06 states for that branch)",
                                 "KDE data lie mostly inside the window and manual bandwidths are between 2% and 50% of the window (the table has 150 points)"],
}
PROP["level_text"] += ' Quantile_Gauss is judged in x down to the last representable probabilities; the binned likelihoods must leave their argument lists as they were (an explicit empty background list is reused across binnings); KDE windows sit at offsets up to 1e9 widths or next to the sample.'
