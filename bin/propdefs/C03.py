"""C03 configuration for bin/check."""
from propdefs.common import STD_ASSUME

PROP = {
    "driver": "c03_simpson",
    "flavours": [("rel", 1.0), ("asan", 0.1)],
    "shards": {"quick": 8, "thorough": 16},
    "rule": "a case is non-trivial when the recursion went at least two levels deep (>= 9 integrand evaluations recorded by the wrapper) "
            "or depth = 0 forced the 5-point rule; distinct = hash of (integrand parameters, limits, epsilon, depth). Generators: polynomials of "
            "degree <= 5 (random coefficients, widths 1e-6..1e3 anywhere in [-1e3,1e3], both orientations, epsilon 1e-18..1e2 of either sign, "
            "depth 0..25), estimator-regular families exp(wx), cosh(wx), (x+s)^-k, x^p with max|f''''|/min|f''''| <= 4 checked analytically, "
            "quartic splines with piecewise constant f'''' in [m,4m], and rough integrands (kinks, steps, noise, spikes) for the universal clauses",
    "floors": {
        "quick": {"cases": 150000, "distinct_nontrivial": 83000, "ticks": {"Simpson.panel": 1000000},
                  "clauses": {"polynomial-degree<=5-exact": 40000, "error-at-most-4eps-on-regular-integrands": 8000,
                              "swap-negates-bit-for-bit": 60000, "epsilon-sign-irrelevant": 60000, "equal-limits-give-zero": 60000,
                              "evaluations-inside-closed-interval": 120000, "evaluation-count-at-most-2^(depth+2)+1": 120000}},
        "thorough": {"cases": 3000000, "distinct_nontrivial": 1500000, "ticks": {"Simpson.panel": 50000000},
                     "clauses": {"polynomial-degree<=5-exact": 2000000, "error-at-most-4eps-on-regular-integrands": 400000,
                                 "swap-negates-bit-for-bit": 3000000, "epsilon-sign-irrelevant": 3000000, "equal-limits-give-zero": 3000000}},
    },
    "technique": "runtime monitoring: value oracle against a long double reference (midpoint-shifted polynomial, closed forms), integrand wrapper "
                 "recording every abscissa, a-priori depth bound from the fourth derivative (no dependence on library message text), tick counter on the panel routine; gcc ASan+UBSan build in parallel",
    "level_text": "Integrate(f,a,b,epsilon,depth) was executed on generated polynomials, estimator-regular integrands, quartic splines and rough integrands; "
                  "each result was compared with an exact long double reference (exactness within 64 eps |b-a| sum (k+1)|c_k| m^k; error <= 4|epsilon| + 64 eps int|f| "
                  "for requests whose depth budget suffices a priori: derived from the maximum of the fourth derivative, the width and epsilon); quartics and quintics with epsilon 1e-18 at depth 16-21 exhaust the recursion everywhere and must still be exact; nested calls (the integrand itself integrates); each call was repeated with swapped limits, with -epsilon and with equal limits (bit comparison), "
                  "and every evaluation abscissa and the evaluation count were checked. Exploration: it shows the property on the inputs run, not on all inputs.",
    "level_note": "Trusted: the long double reference formulas in harness/integ_common.hpp, the analytic ratio of the fourth derivative computed by the driver, "
                  "the a-priori depth bound of harness/integ_common.hpp (Simpson error formula), the harness plumbing. No clause depends on the text of a library message.",
    "assumptions": STD_ASSUME + ["the error clause is judged only for requests whose depth budget is at least the a-priori bound simpson_depth_needed (others are counted as outside: no implementation can meet 4 epsilon there)",
                                 "integrands are evaluated in double (Horner, std::exp, std::pow); their rounding is covered by the 64 eps int|f| term"],
}
PROP["level_text"] += ' Also: nested integrations whose inner range is empty at an outer end point, integrands level at both limits and the midpoint, intervals narrow relative to their position, Find_Epsilon on the same limits before the observed call.'
