"""C12 configuration for bin/check."""
from propdefs.common import STD_ASSUME

PROP = {
    "driver": "c12_gausslegendre",
    "shards": {"quick": 8, "thorough": 16},
    "rule": "a case is non-trivial when n is odd, n >= 100, or the interval is not [-1,1]; distinct = hash of (n, a, b, orientation). Every order n = 1..64 (thorough: 1..512) is run "
            "on 6 interval kinds ([-1,1], [0,L], random, far from the origin with width down to 1e-3, straddling 0, offset up to 1e6) in both orientations; random orders 65..512 and "
            "a sample of orders 513..4000 (incl. 4000 and 2001); mismatched value/rule lengths in isolated children",
    "floors": {"quick": {"cases": 1200, "distinct_nontrivial": 990, "ticks": {"GaussLegendre.newton": 100000},
                         "clauses": {"nodes-strictly-increasing": 700, "reversed-nodes-strictly-decreasing": 300, "exact-on-legendre-basis-up-to-degree-2n-1": 50000,
                                     "exact-on-monomials-up-to-degree-2n-1": 20000, "nodes-vs-long-double-reference": 1100, "three-overloads-agree": 1200,
                                     "mismatched-lengths-terminate-with-diagnostic": 40}},
               "thorough": {"cases": 20000, "distinct_nontrivial": 15000, "ticks": {"GaussLegendre.newton": 5000000},
                            "clauses": {"exact-on-legendre-basis-up-to-degree-2n-1": 1000000, "three-overloads-agree": 20000}}},
    "exhaustive": {"quick": ["orders n = 1..64, each on 6 interval kinds and both orientations"], "thorough": ["orders n = 1..512, each on 6 interval kinds and both orientations"]},
    "technique": "runtime monitoring: rule-axiom oracles on the returned nodes/weights, exactness on Legendre-basis and monomial test polynomials evaluated in long double, independent long double "
                 "Newton reference (n <= 64), bit comparison of the three overloads, evaluation trace, step budget through the tick hook on the Newton loop, isolated child for rejects; ASan+UBSan build",
    "level_text": "Compute_Gauss_Legendre_Roots_and_Weights was run for every order up to 64 (thorough 512) and a sample up to 4000 on intervals of every kind and both orientations; the monitors "
                  "checked strict ordering, strict containment, symmetry, sign and sum of the weights, exactness on P_k (k <= min(2n-1,60)) and on monomials (k <= min(2n-1,20)) within "
                  "512 eps |b-a| + k(k+1) ulp(max|a|,|b|), agreement with an independent long double rule, that the three Integrate_Gauss_Legendre overloads agree bit for bit and evaluate the "
                  "integrand exactly at the n nodes, that mismatched lengths exit with a diagnostic, and that Newton needs at most 100 steps per root. Orders above 512 are sampled.",
    "level_note": "Trusted: long double arithmetic of the test polynomials, the reference rule in harness/special_common.hpp, the derivation of the node-rounding term k(k+1) ulp.",
    "assumptions": STD_ASSUME + ["exactness tolerance 512 eps |b-a| + k(k+1) ulp(max|a|,|b|) ('to rounding' for a routine that converges its nodes to 1e-14; measured <= ~100 eps for all n <= 4000): the second term is the unavoidable rounding of node positions in an interval far from the origin"],
}
PROP["level_text"] += ' Before the observed call one to three rules of other orders (n+-1, 30, 199/200) are computed; a rule held by reference must survive later calls; intervals down to 1e-300 wide at the origin.'
