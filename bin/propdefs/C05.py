"""C05 configuration for bin/check."""
from propdefs.common import STD_ASSUME

PROP = {
    "driver": "c05_inverse_det",
    "shards": {"quick": 8, "thorough": 16},
    "rule": "a case is non-trivial when n >= 3 and the unpivoted leading principal minors are not all >= 1e-3 in relative magnitude (a row exchange matters; measured by an "
            "unpivoted long double elimination); rejected requests are all non-trivial; distinct = hash of shape and entries. Sizes 1..7 cyclically x 10 kinds: dense Gaussian, "
            "graded U diag(sigma) V^T with kappa up to 1e8, 40% zeros with zero corner, signed permutations, tiny (1e-17..1e-12) leading entries, triangular, diagonal, symmetric, "
            "anti-diagonal structure with all leading minors zero, mixed magnitudes 1e-4..1e4; exactly singular integer matrices (duplicate/zero rows, rank-deficient products, "
            "dependent rows) and non-square shapes for the rejecting clauses",
    "floors": {"quick": {"cases": 60000, "distinct_nontrivial": 15000, "ticks": {"Inverse.row_exchange": 20000},
                         "clauses": {"determinant-vs-reference": 20000, "determinant-multiplicative": 20000, "inverse-vs-reference": 35000, "left-residual-XM-minus-I": 35000,
                                     "inverse-of-singular-terminates-with-diagnostic": 250, "inverse-of-non-square-terminates-with-diagnostic": 50,
                                     "determinant-of-non-square-terminates-with-diagnostic": 50, "triangular-determinant-is-product-of-diagonal": 3000}},
               "thorough": {"cases": 2000000, "distinct_nontrivial": 500000, "ticks": {"Inverse.row_exchange": 600000},
                            "clauses": {"determinant-vs-reference": 700000, "inverse-vs-reference": 1200000, "inverse-of-singular-terminates-with-diagnostic": 5000}}},
    "technique": "runtime monitoring: reference-model oracle (pivoted Gauss-Jordan and signed subset expansion in long double, permanent of |M| as rounding scale), algebraic identity "
                 "checkers, forked worker for 'valid requests return', one isolated child per rejected request with process-outcome oracle; gcc ASan+UBSan build in parallel",
    "level_text": "Tens of thousands (thorough: millions) of generated square matrices of size 1..7 were passed to Determinant/Invertible/Inverse of the real library; every determinant "
                  "was compared with a long double reference within 8 n eps perm(|M|) and checked for multiplicativity, transpose invariance, sign flip under a row swap and the "
                  "triangular product rule; every inverse was compared with a long double pivoted Gauss-Jordan inverse within 16 n kappa_F eps (plus left/right residuals); exactly "
                  "singular integer matrices and non-square shapes were run one per child process and must exit EXIT_FAILURE with a diagnostic. Exploration over sampled matrices.",
    "level_note": "Trusted: the long double reference (two independent algorithms cross-checked on every case), the tolerance scales, fork/pipe plumbing. Matrices with kappa_F > 1e10 are counted as outside.",
    "assumptions": STD_ASSUME + ["kappa_F = ||M||_F ||M^-1||_F from the long double reference; cases with kappa_F > 1e10 are outside the quantifier (it names condition numbers up to 1e8)",
                                 "entries within ~1e-10..1e10 so that no determinant over- or underflows"],
}
PROP["level_text"] += ' Also: determinants that are subnormal numbers, one subnormal row with compensating powers of two, writes through a row reference retained across Determinant(), growth matrices (sub-diagonal part up to 9.95 x the diagonal), the row sizes of the returned inverse.'
