"""C10 configuration for bin/check."""
import json
import os
import shutil
import subprocess
import sys

from propdefs.common import STD_ASSUME

sys.path.insert(0, os.path.dirname(os.path.dirname(os.path.abspath(__file__))))
import buildlib  # noqa: E402


def pre(tier, seed):
    """Thorough tier only: the whole guard catalogue once more under valgrind memcheck (g++ -O0 build, hooks off), which sees use of uninitialised values
    that ASan cannot.  A memcheck error makes the child exit with status 97, which the process-outcome oracle reports like any other wrong outcome."""
    if tier != "thorough":
        return []
    if shutil.which("valgrind") is None:
        return [{"t": "fatal", "reason": "valgrind not found"}]
    exe = buildlib.ensure_driver("cfg-gxx-O0", "c10_guards")   # unoptimised: locals live in memory, so memcheck sees their definedness
    cmd = ["valgrind", "--quiet", "--error-exitcode=97", exe, "--seed", str(seed), "--tier", "quick", "--shard", "0/1", "--scale", "1", "--only", "catalogue"]
    try:
        r = subprocess.run(cmd, stdout=subprocess.PIPE, stderr=subprocess.PIPE, timeout=3 * 3600)
    except subprocess.TimeoutExpired:
        return [{"t": "inconclusive", "reason": "memcheck run timed out"}]
    recs = []
    for line in r.stdout.decode("utf-8", "replace").splitlines():
        if not line.startswith("{"):
            continue
        try:
            rec = json.loads(line)
        except Exception:
            continue
        if rec.get("t") == "clause":
            rec["id"] = "memcheck:" + rec["id"]
        elif rec.get("t") == "viol":
            rec["key"] = "memcheck:" + rec["key"]
            rec["clause"] = "memcheck:" + rec.get("clause", "")
        elif rec.get("t") in ("ticks", "outcomes", "sample"):
            continue
        recs.append(rec)
    if r.returncode != 0 or not any(x.get("t") == "summary" for x in recs):
        recs.append({"t": "fatal", "reason": "memcheck run failed (rc %d): %s" % (r.returncode, r.stderr.decode("utf-8", "replace")[-400:])})
    return recs


PROP = {
    "driver": "c10_guards",
    "pre": pre,
    "flavours": [("asan", 1.0), ("rel", 1.0)],
    "shards": {"quick": 16, "thorough": 16},
    "rule": "catalogue of guarded entry points (one isolated child per request, each request is one side of one guard: "
            "index size-1/size/size+1/UINT_MAX, shapes equal/transposed/off-by-one, x at/inside/outside the 1% edge tolerance, "
            "tables of length 0..3, method names +- one character, parameters at/beyond their range, list lengths) plus random "
            "requests around 13 parametrised guard families (incl. guard-violating parameters crossed with random other arguments and Factorial after random valid call histories); every request is non-trivial; distinct = distinct request text",
    "floors": {"quick": {"cases": 2400, "distinct_nontrivial": 4700},
               "thorough": {"cases": 30000, "distinct_nontrivial": 5000, "clauses": {"memcheck:accepted-side-returns": 300, "memcheck:rejected-side-exits-with-diagnostic": 500}}},
    "exhaustive": {"quick": ["the guard catalogue (every entry run in both flavours)"], "thorough": ["the guard catalogue (every entry run in both flavours)"]},
    "technique": "runtime monitoring: one forked child per request under gcc ASan+UBSan, process-outcome oracle (exit status, diagnostic bytes, sanitizer reports); thorough tier: the catalogue again under valgrind memcheck",
    "level_text": "Every catalogued guard (both sides) and thousands of random requests around 13 guard families were executed against the real "
                  "library in an ASan+UBSan build and an -O2 build; each outcome (returned / exit(EXIT_FAILURE)+diagnostic / other exit / signal / sanitizer report) "
                  "was classified by the parent. Exploration: it shows the property on the requests run, not on all inputs.",
    "level_note": "Trusted: the catalogue's classification of a request as meaningful or not (written from the property text), gcc's ASan/UBSan "
                  "(red-zone based: non-adjacent overruns are invisible), fork/pipe plumbing of harness/common/verif.hpp.",
    "assumptions": STD_ASSUME + ["a request is 'meaningful' or not according to the catalogue written from the property text; "
                                 "ASan/UBSan red zones see adjacent overruns only"],
}
PROP["level_text"] += ' The catalogue has grown to about 1300 requests: guards after call histories, after shape modifiers (Resize, assignment of another size), on tables scaled by 2^-43..2^43 and at 1e-3/1e-6/1e-9 of the extrapolation tolerance.'
