"""C10 configuration for bin/check."""
import json
import os
import shutil
import subprocess
import sys

from propdefs.common import STD_ASSUME

sys.path.insert(0, os.path.dirname(os.path.dirname(os.path.abspath(__file__))))
import buildlib  # noqa: E402


FUZZ_RUNS = {"thorough": 6000000}
FUZZ_JOBS = 6
FUZZ_FLAGS = "-O1 -g -fsanitize=%s,address,undefined -fno-sanitize=object-size -fno-sanitize-recover=all"


def build_fuzzer():
    """clang++ build of /repo/src/*.cpp (fuzzer-no-link + ASan + UBSan, hooks off) and of harness/c10_fuzz.cpp (libFuzzer); content-hashed like the other builds."""
    import glob
    import hashlib
    from concurrent.futures import ThreadPoolExecutor
    out = os.path.join(buildlib.BUILD, "fuzz")
    os.makedirs(out, exist_ok=True)
    gen = os.path.join(buildlib.BUILD, "gen")
    srcs = sorted(glob.glob(os.path.join(buildlib.REPO, "src", "*.cpp")))
    hdrs = sorted(glob.glob(os.path.join(buildlib.REPO, "include", "libphysica", "*.hpp")))
    harness = os.path.join(buildlib.VERIF, "harness", "c10_fuzz.cpp")
    h = hashlib.sha256()
    for f in srcs + hdrs + [harness]:
        h.update(open(f, "rb").read())
    h.update(FUZZ_FLAGS.encode())
    exe, stamp = os.path.join(out, "c10_fuzz"), os.path.join(out, "c10_fuzz.sha")
    if os.path.exists(exe) and os.path.exists(stamp) and open(stamp).read() == h.hexdigest():
        return exe, None
    buildlib.ensure_lib("rel")   # makes sure build/gen/version.hpp exists
    def cc(src):
        obj = os.path.join(out, os.path.basename(src)[:-4] + ".o")
        r = subprocess.run("clang++ -std=c++14 %s -I%s/include -I%s -c %s -o %s" % (FUZZ_FLAGS % "fuzzer-no-link", buildlib.REPO, gen, src, obj),
                           shell=True, stdout=subprocess.PIPE, stderr=subprocess.STDOUT)
        return r.returncode, r.stdout.decode("utf-8", "replace")[-600:], obj
    with ThreadPoolExecutor(max_workers=8) as ex:
        res = list(ex.map(cc, srcs))
    for rc, log, obj in res:
        if rc != 0:
            return None, "clang++ failed: " + log
    r = subprocess.run("clang++ -std=gnu++17 %s -I%s/include -I%s %s %s -lconfig++ -ldl -o %s" % (
        FUZZ_FLAGS % "fuzzer", buildlib.REPO, gen, harness, " ".join(o for _, _, o in res), exe), shell=True, stdout=subprocess.PIPE, stderr=subprocess.STDOUT)
    if r.returncode != 0:
        return None, "clang++ link failed: " + r.stdout.decode("utf-8", "replace")[-600:]
    open(stamp, "w").write(h.hexdigest())
    return exe, None


def fuzz_report(text):
    """first sanitizer / libFuzzer diagnosis line and the topmost library frames of a crash report"""
    import re
    kind = "crash"
    m = re.search(r"(runtime error: [^\n]*|ERROR: AddressSanitizer: [a-z\-]+|ERROR: libFuzzer: [a-z \-]+|VERIF-FUZZ: [^\n]*)", text)
    if m:
        kind = m.group(1)
    frames = re.findall(r"#\d+ 0x[0-9a-f]+ in (libphysica::[A-Za-z_0-9:~\[\]<>= ]+?)[\(<]", text)
    return kind, frames[:4]


def run_fuzzer_once(exe, args, workdir, timeout):
    env = dict(os.environ, ASAN_OPTIONS="detect_leaks=0:abort_on_error=1", UBSAN_OPTIONS="print_stacktrace=1")
    try:
        r = subprocess.run([exe] + args, cwd=workdir, env=env, stdout=subprocess.DEVNULL, stderr=subprocess.PIPE, timeout=timeout)
    except subprocess.TimeoutExpired:
        return None, ""
    return r.returncode, r.stderr.decode("utf-8", "replace")


def fuzz_step(tier, seed):
    """Thorough tier only: coverage-guided API-sequence fuzzing (harness/c10_fuzz.cpp) under clang ASan+UBSan, a fixed number of inputs from an empty corpus."""
    import re
    import tempfile
    if tier not in FUZZ_RUNS:
        return []
    if shutil.which("clang++") is None:
        return [{"t": "fatal", "reason": "clang++ not found"}]
    exe, err = build_fuzzer()
    if exe is None:
        return [{"t": "fatal", "reason": err}]
    work = tempfile.mkdtemp(prefix="verif-c10-fuzz-")
    try:
        # FUZZ_JOBS independent campaigns (own corpus, own -seed), each a share of the input budget, side by side
        from concurrent.futures import ThreadPoolExecutor
        total = int(os.environ.get("VERIF_FUZZ_RUNS", FUZZ_RUNS[tier]))
        os.makedirs(os.path.join(work, "art"))
        def campaign(k):
            os.makedirs(os.path.join(work, "corpus%d" % k))
            return run_fuzzer_once(exe, ["-runs=%d" % (total // FUZZ_JOBS), "-seed=%d" % ((int(seed) * 131 + k * 7919) % 2000000000 + 1), "-max_len=128", "-close_fd_mask=1",
                                         "-artifact_prefix=%s/art/" % work, "-print_final_stats=1", "corpus%d" % k], work, 2 * 3600)
        with ThreadPoolExecutor(max_workers=FUZZ_JOBS) as ex:
            outs = list(ex.map(campaign, range(FUZZ_JOBS)))
        if any(rc is None for rc, _ in outs):
            return [{"t": "inconclusive", "reason": "fuzzing run timed out"}]
        recs = []
        stats = [re.search(r"VERIF-FUZZ-STATS inputs=(\d+) calls=(\d+) exits=(\d+)", t) for _, t in outs]
        bad = [t for rc, t in outs if rc != 0]
        text = bad[0] if bad else outs[0][1]
        rc = 1 if bad else 0
        m = None
        if all(stats):
            class M:   # summed statistics of the campaigns
                def __init__(self, v): self.v = v
                def group(self, i): return str(self.v[i - 1])
            m = M([sum(int(x.group(i)) for x in stats) for i in (1, 2, 3)])
        arts = sorted(os.listdir(os.path.join(work, "art")))
        if arts:
            data = open(os.path.join(work, "art", arts[0]), "rb").read()
            kind, frames = fuzz_report(text)
            site = frames[0] if frames else "harness"
            recs.append({"t": "viol", "key": "fuzz:%s:%s" % (kind.split(":")[-1].strip().replace(" ", "-")[:60], site), "clause": "fuzz:api-sequences-never-corrupt-memory",
                         "gen": "fuzz", "index": 0, "flavour": "fuzz", "seed": seed, "tier": tier, "params": {"input_hex": data.hex(), "bytes": len(data)},
                         "observation": {"diagnosis": kind, "library_frames": frames, "report_head": text[max(text.find("ERROR"), 0):][:1500]}})
            done = re.findall(r"#(\d+)\s", text)
            n = int(done[-1]) if done else 1
            recs.append({"t": "clause", "id": "fuzz:api-sequences-never-corrupt-memory", "n": n, "nontrivial": n, "max_ratio": 1e300, "argmax": "fuzz"})
        elif m and rc == 0:
            n, calls, exits = int(m.group(1)), int(m.group(2)), int(m.group(3))
            recs.append({"t": "clause", "id": "fuzz:api-sequences-never-corrupt-memory", "n": n, "nontrivial": n, "max_ratio": 0.0, "argmax": ""})
            recs.append({"t": "clause", "id": "fuzz:library-calls-made", "n": calls, "nontrivial": calls, "max_ratio": 0.0, "argmax": ""})
            recs.append({"t": "clause", "id": "fuzz:inputs-ended-by-a-refused-request(exit-status-not-zero)", "n": exits, "nontrivial": exits, "max_ratio": 0.0, "argmax": ""})
        else:
            recs.append({"t": "fatal", "reason": "fuzzer ended with rc %s and no artifact: %s" % (rc, text[-400:])})
        return recs
    finally:
        shutil.rmtree(work, ignore_errors=True)


def replay_fuzz(R):
    """re-executes a recorded fuzz input (bin/check C10 --replay <file> for a violation found by the fuzzing step)"""
    import tempfile
    exe, err = build_fuzzer()
    if exe is None:
        return [{"t": "fatal", "reason": err}]
    work = tempfile.mkdtemp(prefix="verif-c10-fuzz-")
    try:
        inp = os.path.join(work, "input")
        open(inp, "wb").write(bytes.fromhex(R["params"]["input_hex"]))
        rc, text = run_fuzzer_once(exe, [inp], work, 600)
        if rc not in (0, None):
            kind, frames = fuzz_report(text)
            return [{"t": "viol", "key": R["key"], "clause": R.get("clause"), "observation": {"diagnosis": kind, "library_frames": frames}}]
        return []
    finally:
        shutil.rmtree(work, ignore_errors=True)


def pre(tier, seed):
    return fuzz_step(tier, seed) + memcheck_step(tier, seed)


def memcheck_step(tier, seed):
    """Thorough tier only: the whole guard catalogue once more under valgrind memcheck (g++ -O0 build, hooks off), which sees use of uninitialised values
    that ASan cannot.  A memcheck error makes the child exit with status 97, which the process-outcome oracle reports like any other wrong outcome."""
    if tier != "thorough":
        return []
    if shutil.which("valgrind") is None:
        return [{"t": "fatal", "reason": "valgrind not found"}]
    exe = buildlib.ensure_driver("cfg-gxx-O0", "c10_guards")   # unoptimised: locals live in memory, so memcheck sees their definedness
    cmd = ["valgrind", "--quiet", "--error-exitcode=97", exe, "--seed", str(seed), "--tier", "quick", "--shard", "0/1", "--scale", "1", "--only", "catalogue"]
    try:
        r = subprocess.run(cmd, stdout=subprocess.PIPE, stderr=subprocess.PIPE, timeout=3 * 3600)
    except subprocess.TimeoutExpired:
        return [{"t": "inconclusive", "reason": "memcheck run timed out"}]
    recs = []
    for line in r.stdout.decode("utf-8", "replace").splitlines():
        if not line.startswith("{"):
            continue
        try:
            rec = json.loads(line)
        except Exception:
            continue
        if rec.get("t") == "clause":
            rec["id"] = "memcheck:" + rec["id"]
        elif rec.get("t") == "viol":
            rec["key"] = "memcheck:" + rec["key"]
            rec["clause"] = "memcheck:" + rec.get("clause", "")
        elif rec.get("t") in ("ticks", "outcomes", "sample"):
            continue
        recs.append(rec)
    if r.returncode != 0 or not any(x.get("t") == "summary" for x in recs):
        recs.append({"t": "fatal", "reason": "memcheck run failed (rc %d): %s" % (r.returncode, r.stderr.decode("utf-8", "replace")[-400:])})
    return recs


PROP = {
    "driver": "c10_guards",
    "pre": pre,
    "replay_hooks": {"fuzz": replay_fuzz},
    "flavours": [("asan", 1.0), ("rel", 1.0)],
    "shards": {"quick": 16, "thorough": 16},
    "rule": "catalogue of guarded entry points (one isolated child per request, each request is one side of one guard: "
            "index size-1/size/size+1/UINT_MAX, shapes equal/transposed/off-by-one, x at/inside/outside the 1% edge tolerance, "
            "tables of length 0..3, method names +- one character, parameters at/beyond their range, list lengths) plus random "
            "requests around 13 parametrised guard families (incl. guard-violating parameters crossed with random other arguments and Factorial after random valid call histories); every request is non-trivial; distinct = distinct request text",
    "floors": {"quick": {"cases": 2400, "distinct_nontrivial": 4700},
               "thorough": {"cases": 30000, "distinct_nontrivial": 5000, "clauses": {"memcheck:accepted-side-returns": 300, "memcheck:rejected-side-exits-with-diagnostic": 500}}},
    "exhaustive": {"quick": ["the guard catalogue (every entry run in both flavours)"], "thorough": ["the guard catalogue (every entry run in both flavours)"]},
    "technique": "runtime monitoring: one forked child per request under gcc ASan+UBSan, process-outcome oracle (exit status, diagnostic bytes, sanitizer reports); thorough tier: coverage-guided API-sequence fuzzing (clang libFuzzer + ASan + UBSan, 6e6 inputs, exit interposed) and the catalogue again under valgrind memcheck",
    "level_text": "Every catalogued guard (both sides) and thousands of random requests around 13 guard families were executed against the real "
                  "library in an ASan+UBSan build and an -O2 build; each outcome (returned / exit(EXIT_FAILURE)+diagnostic / other exit / signal / sanitizer report) "
                  "was classified by the parent. Exploration: it shows the property on the requests run, not on all inputs.",
    "level_note": "Trusted: the catalogue's classification of a request as meaningful or not (written from the property text), gcc's ASan/UBSan "
                  "(red-zone based: non-adjacent overruns are invisible), fork/pipe plumbing of harness/common/verif.hpp.",
    "assumptions": STD_ASSUME + ["a request is 'meaningful' or not according to the catalogue written from the property text; "
                                 "ASan/UBSan red zones see adjacent overruns only"],
}
PROP["level_text"] += ' The catalogue has grown to about 1300 requests: guards after call histories, after shape modifiers (Resize, assignment of another size), on tables scaled by 2^-43..2^43 and at 1e-3/1e-6/1e-9 of the extrapolation tolerance.'
PROP["level_text"] += " Thorough tier: 6e6 coverage-guided API sequences (libFuzzer, clang ASan+UBSan) on pools of Vector/Matrix/Interpolation objects and the guarded free functions, judged for memory safety and failure status only."
PROP["level_text"] += ' Later additions: edge-of-format tables and matrices (abscissae one ulp apart, around 2^53, subnormal spacing, regular by one ulp), unknown method names with equal limits, moved-from vectors and matrices, brackets narrower than the accuracy, an edge tolerance of 2.56 ulp, tables next to the largest double.'
