"""C10 configuration for bin/check."""
from propdefs.common import STD_ASSUME

PROP = {
    "driver": "c10_guards",
    "flavours": [("asan", 1.0), ("rel", 1.0)],
    "shards": {"quick": 16, "thorough": 16},
    "rule": "catalogue of guarded entry points (one isolated child per request, each request is one side of one guard: "
            "index size-1/size/size+1/UINT_MAX, shapes equal/transposed/off-by-one, x at/inside/outside the 1% edge tolerance, "
            "tables of length 0..3, method names +- one character, parameters at/beyond their range, list lengths) plus random "
            "requests around 13 parametrised guard families (incl. guard-violating parameters crossed with random other arguments and Factorial after random valid call histories); every request is non-trivial; distinct = distinct request text",
    "floors": {"quick": {"cases": 1500, "distinct_nontrivial": 700}, "thorough": {"cases": 30000, "distinct_nontrivial": 5000}},
    "exhaustive": {"quick": ["the guard catalogue (every entry run in both flavours)"], "thorough": ["the guard catalogue (every entry run in both flavours)"]},
    "technique": "runtime monitoring: one forked child per request under gcc ASan+UBSan, process-outcome oracle (exit status, diagnostic bytes, sanitizer reports)",
    "level_text": "Every catalogued guard (both sides) and thousands of random requests around 13 guard families were executed against the real "
                  "library in an ASan+UBSan build and an -O2 build; each outcome (returned / exit(EXIT_FAILURE)+diagnostic / other exit / signal / sanitizer report) "
                  "was classified by the parent. Exploration: it shows the property on the requests run, not on all inputs.",
    "level_note": "Trusted: the catalogue's classification of a request as meaningful or not (written from the property text), gcc's ASan/UBSan "
                  "(red-zone based: non-adjacent overruns are invisible), fork/pipe plumbing of harness/common/verif.hpp.",
    "assumptions": STD_ASSUME + ["a request is 'meaningful' or not according to the catalogue written from the property text; "
                                 "ASan/UBSan red zones see adjacent overruns only"],
}
