"""C04 configuration for bin/check."""
from propdefs.common import STD_ASSUME

PROP = {
    "driver": "c04_algebra",
    "flavours": [("rel", 1.0), ("asan", 0.1)],
    "shards": {"quick": 8, "thorough": 16},
    "rule": "a case is one shape triple (m,n,k) with random entries ({0,+-1}, mixed magnitudes 1e-8..1e8, signed zeros, small integers) on which every "
            "operator spelling is executed; non-trivial = the triple is not all-equal (some operand is non-square); every unequal-shape request "
            "(one isolated child each) is non-trivial; distinct = hash of shapes and entries / of the request text",
    "floors": {
        "quick": {"cases": 13000, "distinct_nontrivial": 15000,
                  "clauses": {"unequal-shapes-exit-with-diagnostic": 2000, "product-entries-are-sums-aik-bkj": 5000,
                              "sums-differences-elementwise": 50000, "block-constructor-definition": 5000}},
        "thorough": {"cases": 250000, "distinct_nontrivial": 200000,
                     "clauses": {"unequal-shapes-exit-with-diagnostic": 8000, "product-entries-are-sums-aik-bkj": 400000}},
    },
    "exhaustive": {"quick": ["all 125 shape triples (m,n,k) in 1..5 (each with several entry draws, both flavours)",
                             "unequal-shape requests: all ordered pairs of shapes up to 4x4 for the six sum/difference spellings, all (r,c,n) up to 5x5,6 for "
                             "the three matrix-vector spellings, all vector sizes 1..6 for the six vector spellings and Cross"],
                   "thorough": ["all 125 shape triples (m,n,k) in 1..5", "unequal-shape requests: all ordered pairs of shapes up to 5x5 (sums, products), "
                                "all (r,c,n) up to 5x5,6 (matrix-vector), all vector sizes 1..6"]},
    "technique": "runtime monitoring: reference matrix type (long-double sums) run side by side with every Vector/Matrix operation, bit comparison of "
                 "element-wise results, process-outcome oracle for conformability (forked worker / one child per unequal-shape request), gcc ASan+UBSan build",
    "level_text": "Every shape triple up to 5 and random triples up to 8 were executed through all operator spellings of the real library in an -O2 and an "
                  "ASan+UBSan build and compared with a reference matrix type; every unequal-shape request of the catalogue ran in its own child whose "
                  "exit status and diagnostic were classified. Exploration: entries are sampled, shapes above 5 are sampled.",
    "level_note": "Trusted: the 40-line reference matrix type and its long-double sums, IEEE-754 arithmetic of the build (no FMA contraction on x86-64 "
                  "baseline), fork/pipe plumbing of harness/common/verif.hpp, gcc's ASan/UBSan.",
    "assumptions": STD_ASSUME + ["element-wise results are compared bit for bit with the single IEEE operation computed by the driver in the same build"],
}
PROP["level_text"] += ' Since then: Matrix and Vector objects are also driven through random histories of mutations (=, +=, -=, [], Assign, Resize, Delete_Row/Column, copies, self-assignment) side by side with a reference model, and every binary operation also runs with the same object on both sides.'
PROP["level_text"] += ' Products whose factors overflowed to infinities are compared entry by entry with the IEEE sum (class NaN / +inf / -inf / finite).'
