"""C14 configuration for bin/check."""
from propdefs.common import STD_ASSUME

PROP = {
    "driver": "c14_montecarlo",
    "shards": {"quick": 8, "thorough": 16},
    "rule": "a case is non-trivial when the dimension is >= 2 and the region is anisotropic; for history pairs when the preceding history contains an integration of a different dimension; "
            "front-end and witness cases are all non-trivial; distinct = hash of (method, dimension, budget, seed, region, integrand parameters). Regions: dimensions 1..6, widths 1e-3..1e3, "
            "offset and anisotropic; budgets 1e3..3e5 (thorough: up to 1e6); integrands: constants over 24 decades, products of exponentials, products of off-centre Gaussians "
            "(width >= 0.15 of the side, also peaked next to a face), sums of quadratics, each with exact mean and variance; the zero function and constants +-1e-250..1e-160; histories of 1..6 "
            "integrations of differing dimension, region, budget, method and seed before the observed call, whose integrand is in 3 of 10 cases a narrow off-centre peak (sigma 0.3-2 % of the side, "
            "exactly zero on one side of the midpoint in every dimension: Miser's fallback branch, Vegas iterations without information)",
    "floors": {"quick": {"cases": 3000, "distinct_nontrivial": 1700,
                         "ticks": {"Vegas.init0": 500, "Vegas.regrid": 500, "Miser.leaf": 50000, "Miser.fallback_dimension": 100, "Vegas.tiny_variance": 1000},
                         "clauses": {"every-sample-inside-the-region": 3000, "Monte-Carlo-within-six-standard-errors": 400, "Vegas-within-six-standard-errors": 400,
                                     "Miser-within-six-standard-errors": 400, "result-identical-with-and-without-preceding-integrations": 700,
                                     "result-identical-in-long-lived-process": 700, "front-end-argument-i-sampled-inside-limit-pair-i": 550,
                                     "Monte-Carlo-integrates-constants-to-rounding": 200, "Miser-integrates-constants-to-rounding": 200, "Vegas-integrates-constants-to-rounding": 100,
                                     "Vegas-integrates-zero-and-tiny-constants": 50, "Miser-integrates-zero-and-tiny-constants": 50, "Monte-Carlo-integrates-zero-and-tiny-constants": 50}},
               "thorough": {"cases": 130000, "distinct_nontrivial": 70000, "ticks": {"Vegas.init0": 50000, "Miser.leaf": 5000000},
                            "clauses": {"every-sample-inside-the-region": 120000, "result-identical-with-and-without-preceding-integrations": 28000}}},
    "technique": "runtime monitoring with the seed hook: integrand wrapper checking every sample location, exact-moment oracle (six plain-MC standard errors), offline comparison of recorded "
                 "result/sample-trace logs between a fresh process, a fresh process after a random call history and a long-lived process; tick counters on Vegas/Miser branches; ASan+UBSan build in parallel",
    "level_text": "About a thousand (thorough: 1e5) Monte-Carlo integrations of each kind were executed on the real library with the generator seed fixed through the guarded hook; every sample "
                  "location was checked against the closed hyper-rectangle, constants were integrated to 1e-9 relative, smooth integrands with exact mean and variance landed within six "
                  "plain-MC standard errors, and for 300 (thorough 3e4) target calls the result bits (and the hash of all sample locations) were recorded in three histories - first call of a "
                  "fresh process, after 1..6 unrelated integrations in another fresh process, and twice in a long-lived worker - and compared bit for bit. Statistical clauses are decided at "
                  "six standard errors on a PRNG stream fixed by VERIF_SEED.",
    "level_note": "Trusted: the closed-form moments of the integrand families, the seed hook (an ignored hook shows up as irreproducible results, i.e. as a violation of the history clauses), "
                  "fork plumbing. Vegas on constants with |cV|/calls < 1e-9 is matched against known finding D17 (recorded witnesses re-executed on every run; gross-error bound 1e-2).",
    "assumptions": STD_ASSUME + ["six standard errors of the plain Monte-Carlo estimator V*sigma_f/sqrt(calls) (which the variance-reduction methods must not exceed) on a fixed PRNG stream; "
                                 "false-alarm probability of the order of 1e-6 per run across seeds"],
}
PROP["level_text"] += " Since then: about four thousand (thorough 1.6e5) calls per run, the zero function and constants down to 1e-250, the region vector handed to the library must read the same during and after every call, and three in ten history targets are narrow off-centre peaks that are exactly zero on one side of the midpoint in every dimension (Miser's fallback branch, Vegas iterations without information)."
PROP["level_text"] += ' Histories also contain direct use of Sample_Uniform on other intervals and a Miser call left through an exception; regions 1e-12 of their offset wide are sampled 3e5 times each; a plain Monte-Carlo integrand that runs another integration must find its own point unchanged.'
