"""C18 configuration for bin/check."""
from propdefs.common import STD_ASSUME

PROP = {
    "driver": "c18_samplers",
    "shards": {"quick": 16, "thorough": 16},
    "rule": "a case is non-trivial for replayed scripts when several samplers are interleaved on one generator, for the Metropolis grid when thinning > 1 and burn_in is not a multiple "
            "of thinning, and for every (sampler, parameter) law test; distinct = hash of seed, state offset and script / grid point / parameters. Scripts: each of the 9 sampler entry "
            "points alone and random interleavings of 2..30 calls, generator states = seed + 0..700 discarded draws (crosses the 624-word refill); grid: all (sample, thinning, burn_in) in "
            "{0,1,2,3,5,10,50,200} x {1,2,3,7,10,50,200} x {0,1,2,9,10,100,200} for 1D and 2D, bounded and unbounded; laws: uniform, Gaussian, Poisson (means 1e-2..5e3 incl. 499, 500, 501, "
            "1000), inverse transform and rejection (tight and loose envelopes) on five targets, 2D rejection, Metropolis 1D/2D bounded and unbounded on thinned chains",
    "floors": {"quick": {"cases": 4200, "distinct_nontrivial": 930,
                         "ticks": {"Sample_Poisson.rescale": 1000, "Rejection_Sampling.trial": 100000},
                         "clauses": {"equal-generator-states-give-identical-outputs": 1800, "equal-generator-states-leave-equal-states-behind": 1800,
                                     "every-sampler-call-advances-the-passed-generator": 1800,
                                     "metropolis-returns-exactly-the-requested-number-of-samples": 780, "metropolis-2d-returns-exactly-the-requested-number-of-samples": 780,
                                     "poisson-chi-square-pooled-tails": 14, "gauss-kolmogorov-smirnov": 7, "uniform-kolmogorov-smirnov": 7, "rejection-kolmogorov-smirnov": 7,
                                     "inverse-transform-kolmogorov-smirnov": 7, "metropolis-unbounded-kolmogorov-smirnov": 7, "metropolis-bounded-kolmogorov-smirnov": 7, "metropolis-compact-support-kolmogorov-smirnov": 14}},
               "thorough": {"cases": 190000, "distinct_nontrivial": 20000,
                            "clauses": {"equal-generator-states-give-identical-outputs": 180000, "poisson-chi-square-pooled-tails": 140, "gauss-kolmogorov-smirnov": 70}}},
    "exhaustive": {"quick": ["the (sample, thinning, burn_in) grid 8 x 7 x 7 for Sample_Metropolis and Sample_Metropolis_2D"],
                   "thorough": ["the (sample, thinning, burn_in) grid 8 x 7 x 7 for Sample_Metropolis and Sample_Metropolis_2D"]},
    "technique": "runtime monitoring: offline comparison of recorded output logs and generator end states of replayed call scripts (incl. interleavings), count/containment assertions on an "
                 "exhaustive parameter grid, goodness-of-fit monitors (Kolmogorov-Smirnov, pooled chi-square, moment z-tests) at significance <= 1e-9 on a fixed PRNG stream; ASan+UBSan build in parallel",
    "level_text": "Every sampling entry point was run from pairs of equal std::mt19937 states (alone and in random interleavings): the recorded outputs are bit-identical, the end states "
                  "compare equal, every call advanced the generator it was given and a different state gives a different log; the full (sample, thinning, burn_in) grid returned exactly the "
                  "requested number of points inside the domain; 80 (thorough 800) law tests with 1e5 (1e6) draws each (Metropolis: thinned chains) stayed below sqrt(N) D = 3.3, "
                  "p(chi2) >= 1e-9 and |z| <= 6.2. The statistical verdicts are deterministic given VERIF_SEED but remain statistical statements.",
    "level_note": "Trusted: closed-form CDFs of the targets, Boost gamma_q for the chi-square p-value, std::mt19937 equality. A hidden entropy source (random_device, global rand, static generator) "
                  "cannot be observed directly; it shows up as a mismatch between the two replayed logs.",
    "assumptions": STD_ASSUME + ["thinning >= 1 (the property's quantifier); Metropolis law tests use thinning 25..45 and proposal widths of the order of the target width so that thinned samples are close to independent",
                                 "false-alarm probability across VERIF_SEED values of the order of 1e-7 per run"],
}
PROP["level_text"] += ' Law tests now number 96 (thorough 2880); inverse-transform and rejection targets also run on the windows [0,1e-12], [1e9,1e9+1], [-3e8,-3e8+0.5] and [0,1e6] with 2e5 draws.'
PROP["level_text"] += ' One sampler call from equal generator states is compared after different histories of other sampler calls on other generators; the third moment of Sample_Poisson is tested around mean 1000 with N = 1000 mean.'
