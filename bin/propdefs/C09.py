"""C09 configuration for bin/check."""
from propdefs.common import STD_ASSUME

PROP = {
    "driver": "c09_interp_history",
    "shards": {"quick": 16, "thorough": 16},
    "rule": "a history is non-trivial when the table is non-uniform with the limiter active at >= 1 interior knot (long double reference model) and the history contained "
            ">= 1 hunt look-up (tick counter Locate.hunt read before/after); distinct = hash of the table. Histories: 1500-6000 operations per table (3..2000 points) on a pool of "
            "used objects (original, copies and assignment targets taken at random points): Interpolate/operator(), Derivative(0..4), Integrate, Local_Minimum/Maximum, Locate, "
            "Global_*, Set_Prefactor/Multiply, copy construction, assignment; queries by a random walk (short steps both ways, far jumps, repeats, knots, nextafter neighbours, "
            "domain ends, 1% extrapolation zone); 2D grids up to 200x120 likewise",
    "floors": {"quick": {"cases": 2000, "distinct_nontrivial": 1700, "ticks": {"Locate.hunt": 100000, "Locate.bisection": 100000},
                         "clauses": {"interpolate-bit-identical-to-fresh-object-off-knots": 200000, "interpolate-within-rounding-of-fresh-object-at-knots": 30000,
                                     "derivative-bit-identical-to-fresh-object-off-knots": 80000, "local-extremum-bit-identical-to-fresh-object-off-knots": 30000,
                                     "locate-identical-to-fresh-object-off-knots": 40000, "integrate-within-rounding-of-prefactor-times-fresh-object": 40000,
                                     "2d-interpolate-bit-identical-to-fresh-object-off-grid-lines": 80000}},
               "thorough": {"cases": 30000, "distinct_nontrivial": 8000, "ticks": {"Locate.hunt": 10000000, "Locate.bisection": 10000000},
                            "clauses": {"interpolate-bit-identical-to-fresh-object-off-knots": 20000000}}},
    "technique": "runtime monitoring: history-vs-executable-model checker - after every operation of a long recorded call sequence on a used object, a freshly constructed object "
                 "answers the same single question and the two answers are compared bit for bit (off knots) or within rounding (at knots); hunt/bisection tick counters prove both searches ran; ASan+UBSan build in parallel",
    "level_text": "Hundreds (thorough: tens of thousands) of call histories of 1500-6000 mixed operations each were executed on used interpolation objects (1D and 2D, incl. copies and "
                  "assignment targets); after every operation a fresh object was asked the same question: bit-identical off knots, within 64 eps x both neighbouring ordinate scales at knots; "
                  "prefactor histories must give exactly prefactor x the unit answer (Integrate within its rounding tolerance). The hunt path was taken hundreds of thousands of times (tick counter). Exploration over sampled histories.",
    "level_note": "Trusted: that a freshly constructed object is the specification of a single query (its own correctness is C01/C08's business); for tables > 200 points 7 of 8 fresh objects "
                  "are copies of a never-queried object; harness plumbing.",
    "assumptions": STD_ASSUME + ["at tabulated abscissae answers may differ by rounding (64 eps x the ordinate scale of both neighbouring segments), as the property states",
                                 "second and third derivatives exactly at a knot are not compared (they are discontinuous there)"],
}
PROP["level_text"] += ' Histories include self-assignment through a reference and copies whose source was destroyed and its memory reused.'
PROP["level_text"] += ' Extremum queries are repeated on the range of the previous query across Multiply and copies.'
