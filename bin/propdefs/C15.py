"""C15 configuration for bin/check."""
from propdefs.common import STD_ASSUME

PROP = {
    "driver": "c15_eigen",
    "shards": {"quick": 8, "thorough": 16},
    "rule": "a case is non-trivial when n >= 3 and (for eigen cases) at least one eigenvalue is negative or the matrix is structured (diagonal, 2x2-block diagonal whose (1,-1) eigenvectors "
            "are orthogonal to the all-ones start vector, direct sum of rotated blocks = eigenvectors with exact zero components); distinct = hash of the entries. Sizes 1..7 cyclically. "
            "QR: dense Gaussian, graded U diag V^T with kappa up to 1e6, sparse diagonally dominant with zeros in the first column, row-shifted sparse matrices with M[0][0] = 0, block-diagonal matrices whose 2x2 blocks start with an exact zero. Symmetric: Q diag(lambda) Q^T with Haar Q, "
            "|lambda_(i+1)/lambda_i| in [0.1,0.8] of either sign and random order, overall scale 1e-3..1e3, plus the structured kinds (incl. see-saw blocks [[0,m],[m,M]] with exact zeros on the diagonal) and an all-ones eigenvector",
    "floors": {"quick": {"cases": 14000, "distinct_nontrivial": 5000, "ticks": {"Eigenvalues.sweep": 200000, "Eigenvector.iteration": 50000},
                         "clauses": {"qr-product-is-the-matrix": 7000, "q-is-orthogonal": 14000, "r-is-upper-triangular": 7000, "eigenvalues-match-jacobi-reference": 6000,
                                     "eigenpair-satisfies-Mv=lambda-v": 25000, "eigenvector-has-unit-norm": 25000, "eigenvectors-equals-eigensystem-second": 6000,
                                     "eigenvalues-multiply-to-the-determinant": 6000}},
               "thorough": {"cases": 1400000, "distinct_nontrivial": 500000, "ticks": {"Eigenvalues.sweep": 20000000, "Eigenvector.iteration": 5000000},
                            "clauses": {"qr-product-is-the-matrix": 700000, "eigenpair-satisfies-Mv=lambda-v": 2500000}}},
    "technique": "runtime monitoring: defining-equation oracles evaluated in long double on the returned factors and eigenpairs, cyclic-Jacobi reference spectrum, trace/determinant identities, "
                 "forked worker + tick-hook step budgets for 'terminates and returns' (bounded progress in iterations, not seconds); ASan+UBSan build in parallel",
    "level_text": "Thousands (thorough: ~1e6) of generated matrices were passed to QR_Decomposition, Eigenvalues, Eigensystem and Eigenvectors of the real library inside a forked worker with "
                  "an iteration budget; the monitors checked ||QR-M|| <= 64 n eps ||M||, ||QQ^T-I|| <= 64 n eps, R exactly upper triangular, spectrum equal to a long double Jacobi reference "
                  "within 1e-11 ||M||, sum = trace, product = determinant (propagated bound), every returned pair a unit vector with ||Mv - lambda v|| <= 1e-12 ||M||, all n eigenvalues "
                  "covered, Eigenvectors(M) bit-identical to Eigensystem(M).second, and that every call returned. Exploration over sampled matrices.",
    "level_note": "Trusted: the Jacobi reference and Haar generator in harness/linalg_common.hpp, long double evaluation of the residuals, the tick hook as progress measure.",
    "assumptions": STD_ASSUME + ["spectra are separated in magnitude (ratios 0.1..0.8 as the property's quantifier states); cases whose rounded matrix violates |lambda_i| <= 0.85 |lambda_(i+1)| are counted as outside",
                                 "QR cases with kappa_F > 1e8 are counted as outside (quantifier: condition number up to 1e6)"],
}
PROP["level_text"] += ' Spectra include traceless ones that cancel exactly in binary, block matrices come with permuted (interleaved) blocks, Eigenvectors is compared with Eigensystem up to the overall sign; witness matrices of repaired defect D35.'
