"""C08 configuration for bin/check."""
from propdefs.common import STD_ASSUME

PROP = {
    "driver": "c08_interp_calculus",
    "shards": {"quick": 8, "thorough": 16},
    "rule": "a table is non-trivial when its spacing is non-uniform and the long double Steffen reference model reports the slope limiter active at >= 1 interior knot; "
            "distinct = hash of stored abscissae and ordinates. Per table 24 limit pairs of 7 kinds (inside one interval, spanning many, at knots, knot+interior, "
            "1% extrapolation zone incl. both limits in one zone, tiny interval, whole domain), either order, interleaved with random Set_Prefactor/Multiply histories "
            "(positive, negative, 1e-30, 1e30); 2D grids with four prefactor rounds",
    "floors": {"quick": {"cases": 15000, "distinct_nontrivial": 12000,
                         "clauses": {"integrate-is-integral-of-interpolate": 40000, "integrate-antisymmetric": 40000, "integrate-additive-over-adjacent-intervals": 40000,
                                     "integrate-scales-with-prefactor": 40000, "local-minimum-is-smallest-curve-value": 30000, "no-evaluation-below-local-minimum": 40000,
                                     "local-minimum-is-attained-incl-extrapolation-zone": 3000, "local-extrema-scale-with-prefactor": 40000,
                                     "global-extrema-are-prefactor-times-table-extrema": 2500, "2d-global-extrema-are-prefactor-times-table-extrema": 3000,
                                     "integral-derivative-wrt-upper-limit-is-interpolate": 3000}},
               "thorough": {"cases": 300000, "distinct_nontrivial": 100000,
                            "clauses": {"integrate-is-integral-of-interpolate": 4000000, "local-minimum-is-smallest-curve-value": 3000000,
                                        "local-minimum-is-attained-incl-extrapolation-zone": 300000}}},
    "technique": "runtime monitoring: model-free oracles over the library's own curve (4-point Gauss-Legendre over knot-delimited pieces of Interpolate, scans, knot/limit values), "
                 "bit comparison for antisymmetry and prefactor scaling of extrema, prefactor call histories; gcc ASan+UBSan build in parallel",
    "level_text": "For thousands of generated tables, Integrate/Local_*/Global_* were called on the real library with limit pairs of every kind and after random prefactor histories; "
                  "each result was compared with quantities computed from Interpolate alone (piecewise Gauss-Legendre integral exact for cubics, min/max over limits and interior knots, "
                  "200-point scans, dense scans of the extrapolation zones) and with prefactor x the unit-prefactor object's result. Exploration over sampled tables, limits and histories.",
    "level_note": "Trusted: monotonicity of pieces inside the table (property C01, checked by its own driver) for the 'extremum is attained at limits or knots' oracle; the tolerance "
                  "64 eps sum_j S_j(|x_l|+|x_r|+h) for Integrate (its antiderivative is evaluated in absolute coordinates); harness plumbing.",
    "assumptions": STD_ASSUME + ["Integrate tolerance carries the absolute-coordinate term eps*S*(|x_l|+|x_r|) per piece, inherent to the antiderivative form d*x used by the library",
                                 "prefactors are kept within 1e-32..1e32 and never 0"],
}
PROP["level_text"] += ' Integrate is also judged in long double with prefactors as large (small) as the table allows; regular grids with local refinement are part of the tables.'
PROP["assumptions"] = PROP.get("assumptions", []) + ["extreme prefactors are chosen such that prefactor x max|f| x max(|x|, width) is representable: Integrate forms prefactor x f x x before taking the difference of its two stem-function values"]
