"""C17 configuration for bin/check."""
from propdefs.common import STD_ASSUME

PROP = {
    "driver": "c17_special",
    "shards": {"quick": 8, "thorough": 16},
    "rule": "a case is non-trivial when the argument lies within 1e-3 of a branch switch (|x| = 0.2 for Dawson, |p| -> 1 for Inv_Erf, a power of ten for Round, a zero argument for the "
            "comparison helpers) or, for the harmonics, m != 0; distinct = hash of the arguments. Dawson/Erfi: |x| <= 30 incl. both sides of |x| = 0.2 and the grid points of the sampling sum; "
            "Inv_Erf: p up to +-(1-1e-12); Round: x over 600 decades, d = 1..7, neighbours of powers of ten, exact half-way decimals, integers, d-digit decimals +- tiny; "
            "Sign/StepFunction/Relative_Difference/Floats_Equal on zeros, signed zeros, denormals, nearly equal pairs; all (l,m) with l <= 12 crossed with poles, equator, axes, near-pole and random directions",
    "floors": {"quick": {"cases": 620000, "distinct_nontrivial": 120000,
                         "clauses": {"dawson-accurate-to-2e-7-absolutely": 20000, "erfi-accurate-to-1e-6-relatively": 15000, "inv-erf-within-1e-4-of-erfinv": 18000,
                                     "round-within-half-a-unit-of-the-dth-digit": 100000, "round-is-odd": 100000, "floats-equal-symmetric": 35000,
                                     "vector-harmonic-Psi-is-tangential": 6000, "vector-harmonic-Psi-is-r-times-gradient-of-Ylm": 5000,
                                     "vector-harmonic-Y-is-radial-unit-vector-times-Ylm": 6000, "component-index-out-of-range-terminates-with-diagnostic": 16}},
               "thorough": {"cases": 20000000, "distinct_nontrivial": 100000,
                            "clauses": {"dawson-accurate-to-2e-7-absolutely": 2000000, "vector-harmonic-Psi-is-r-times-gradient-of-Ylm": 50000}}},
    "exhaustive": {"quick": ["all (l,m) with l <= 12 (169 pairs), each on >= 40 directions"], "thorough": ["all (l,m) with l <= 12 (169 pairs), each on >= 400 directions"]},
    "technique": "runtime monitoring: reference-value oracles (driver's own long double quadrature for Dawson, Boost erf_inv / spherical_harmonic in long double), definition and symmetry "
                 "checkers with bit comparison, exact decimal arithmetic for Round, ladder-operator gradient for the vector harmonics (self-checked against a finite difference), isolated child for rejects; ASan+UBSan build",
    "level_text": "Hundreds of thousands (thorough: tens of millions) of calls of the scalar helpers and special functions were judged against independent long double references and their "
                  "defining symmetries (oddness bit for bit, Floats_Equal reflexive and symmetric, Round within half a unit of the d-th digit and idempotent/monotone to 4 ulp); for every "
                  "(l,m) with l <= 12 and 40 (thorough 400) directions incl. the poles the vector harmonic Y was compared with r_hat Y_lm, Psi was checked to be tangential and equal to "
                  "theta_hat dY/dtheta + phi_hat (i m/sin theta) Y with the derivative from the ladder operators applied to Boost's Y in long double. Exploration over sampled arguments; (l,m) exhaustive.",
    "level_note": "Trusted: the driver's quadrature and Boost.Math in long double as references; exact idempotence/monotonicity of Round is unattainable with binary powers of ten and is judged to 4 ulp (DESIGN 5.4).",
    "assumptions": STD_ASSUME + ["Erfi is judged for |x| <= 26.6 (beyond, exp(x^2) overflows although the true value is still finite up to |x| ~ 26.7) and must be +-inf where the true value overflows",
                                 "the gradient clause for Psi is judged where sin(theta) > 1e-6; at the poles only tangentiality and conjugation symmetry are judged"],
}
PROP["level_text"] += ' Psi exactly at the poles must continue the field next to them; a result held by reference must not change when another harmonic is evaluated.'
