"""C13 configuration for bin/check."""
from propdefs.common import STD_ASSUME

PROP = {
    "driver": "c13_methods",
    "shards": {"quick": 8, "thorough": 16},
    "shard_timeout": {"quick": 1500, "thorough": 6 * 3600},
    "rule": "a case is non-trivial when at least one axis has reversed limits or the integrand changes sign on the interval (counted from the zeros of the cosine factor); spherical and "
            "rejected requests are all non-trivial; distinct = hash of (method, parameter, limits, integrand parameters). 1D: six method names x three closed-form families "
            "(e^{-kx}cos(wx+phi) up to two periods, Lorentzian, Gaussian) x both orientations x method_parameter 0 / explicit, plus the estimator-regular families through the "
            "'Adaptive-Simpson' dispatcher; nested: separable integrands with three different factors on three disjoint limit pairs ([0,3], [10,13], [20,23] in random axis order), "
            "every orientation, six methods in 2D and the four spectrally convergent ones in 3D; spherical overload on random (r, cos theta, phi) sub-ranges and the full shell with a "
            "direction-dependent integrand; unknown method names in isolated children; the recorded witnesses of finding D16",
    "floors": {"quick": {"cases": 16000, "distinct_nontrivial": 11000, "ticks": {"Simpson.panel": 100000},
                         "clauses": {"Gauss-Legendre-within-1e-9": 1000, "Gauss-Kronrod-within-1e-9": 1000, "Tanh-Sinh-within-1e-9": 1000, "Gauss-Legendre_2-within-1e-9": 1000,
                                     "Adaptive-Simpson-within-1e-9-on-estimator-regular-integrands": 2500, "Trapezoidal-within-1e-6-where-the-a-priori-bound-applies": 500,
                                     "integrate-2d-equals-product-of-1d-integrals": 200, "integrate-3d-equals-product-of-1d-integrals": 200,
                                     "each-argument-receives-the-variable-of-its-own-limits": 400, "spherical-overload-value": 200,
                                     "reversing-limits-negates": 3000, "unknown-method-name-terminates-with-diagnostic": 30}},
               "thorough": {"cases": 900000, "distinct_nontrivial": 400000, "ticks": {"Simpson.panel": 10000000},
                            "clauses": {"Gauss-Legendre-within-1e-9": 100000, "integrate-3d-equals-product-of-1d-integrals": 20000, "spherical-overload-value": 20000}}},
    "technique": "runtime monitoring: closed-form long double references with the error measured relative to the integral of |f|, integrand wrappers recording every argument "
                 "(per-axis range monitors; norm / polar cosine / azimuth monitors for the spherical overload), bit comparison for limit reversal, isolated child for unknown names; ASan+UBSan build in parallel",
    "level_text": "Every method name was run on thousands of closed-form integrands in both orientations; nested 2D/3D integrals of separable integrands were compared with the product of "
                  "the 1D closed forms while wrappers recorded that argument i only ever received values inside limit pair i; the spherical overload was run on random angular sub-ranges with a "
                  "direction-dependent integrand whose closed form exposes a swapped or misused angle, and every vector handed to the integrand was checked for norm, polar cosine and azimuth "
                  "inside the requested ranges. Stated accuracies 1e-9 / 1e-6 are enforced as written except where recorded finding D16 applies (see assumptions). Exploration over sampled integrands.",
    "level_note": "Trusted: the closed forms and the integral of |f| in harness/integ_common.hpp. 'Adaptive-Simpson' is held to 1e-9 on the estimator-regular families (where the algorithm's own bound "
                  "applies) and 'Trapezoidal' to 1e-6 where the a-priori bound after Boost's 12 refinements applies; elsewhere a gross-error bound of 1e-5 is enforced and misses inside "
                  "(stated accuracy, 1e-5] are matched against known finding D16 (recorded witnesses are re-executed on every run).",
    "assumptions": STD_ASSUME + ["errors are relative to the integral of |f| over the interval, the only scale on which a quadrature tolerance is meaningful for a cancelling integral",
                                 "explicit method_parameter values are >= the library defaults (Gauss-Kronrod depth 5..15, Gauss-Legendre_2 points 30..100; 24..40 when nested)",
                                 "3D nesting is exercised with Gauss-Legendre, Gauss-Kronrod, Tanh-Sinh and Gauss-Legendre_2 (Adaptive-Simpson/Trapezoidal nested three deep cost 1e8-1e10 evaluations per call)"],
}
PROP["level_text"] += ' Limits one to four ulps apart; azimuth ranges anywhere in [-6, 14] with an integrand that sees the sign of y; explicit Gauss-Legendre_2 orders up to 700.'
