"""C02 configuration for bin/check."""
from propdefs.common import STD_ASSUME

PROP = {
    "driver": "c02_findroot",
    "shards": {"quick": 8, "thorough": 16},
    "rule": "random (function family, bracket, accuracy, order of ends) triples from 11 continuous families (power laws on brackets spanning up to 12 decades, "
            "atan, erf(x)-p with p->+-(1-1e-12), (x-r)^3/(x-r)^5, exponentials, near-step tanh, CDFs, non-monotone with one and with three roots, linear, "
            "|x-r|^q with inflection), accuracies from 1e-14*|root| to the bracket width; plus zero-at-end brackets and rejected brackets (isolated child). "
            "Non-trivial = the call evaluated the function >= 7 times (>= 3 Ridder iterations); distinct = hash of bracket, accuracy and family parameters",
    "floors": {"quick": {"cases": 600000, "distinct_nontrivial": 570000, "ticks": {"Find_Root.iteration": 300000}},
               "thorough": {"cases": 15000000, "distinct_nontrivial": 400000, "ticks": {"Find_Root.iteration": 30000000}}},
    "technique": "runtime monitoring: call-trace wrapper around the user function + sign-change-window oracle on the returned point; isolated child for rejected brackets; ASan/UBSan build",
    "level_text": "Hundreds of thousands (thorough: tens of millions) of Find_Root calls on the real library with every abscissa at which the user function is called "
                  "recorded; each returned point is judged by an oracle that needs no knowledge of the algorithm (inside the bracket, all evaluations inside the bracket, "
                  "sign change or zero within the requested accuracy, zero ends returned bit-identically, linear functions to rounding, bad brackets terminate with a diagnostic). "
                  "Exploration over sampled functions/brackets: 'all continuous functions' is sampled, not exhausted.",
    "level_note": "Trusted: the driver's function families are continuous with a sign change on the bracket (checked at the ends); libm for the oracle's own evaluations.",
    "assumptions": STD_ASSUME + ["functions are deterministic and continuous on the bracket; accuracy >= 1e-14*|root| (>= 45 ulp of the root)",
                                 "the accuracy is within 2^90 of the bracket width: Ridder's method at least halves the bracket per iteration and the library stops after 100 iterations (with a warning); on a saturating function it does little better than halving, so atan(x-3) on [-1e308,1e308] to 1e-3 is beyond what the routine can do and outside this check"],
}
PROP["level_text"] += ' Accuracies reach the bracket width itself; brackets and features at the 1e285 scale; end values of either zero sign.'
