"""C20 configuration for bin/check (file round trips + unit constants in four build configurations)."""
import os
import subprocess
import sys
from concurrent.futures import ThreadPoolExecutor

from propdefs.common import STD_ASSUME

HERE = os.path.dirname(os.path.dirname(os.path.abspath(__file__)))
sys.path.insert(0, HERE)
import buildlib  # noqa: E402

CONFIGS = ["cfg-gxx-O0", "cfg-gxx-O2", "cfg-clangxx-O0", "cfg-clangxx-O2"]
EPS = 2.220446049250313e-16

# derived constant = defining product of other constants of the same table (evaluated in Python doubles)
IDENT = [
    ("Joule", lambda u: u["kg"] * u["meter"] * u["meter"] / u["sec"] / u["sec"]),
    ("erg", lambda u: u["gram"] * u["cm"] * u["cm"] / u["sec"] / u["sec"]),
    ("cal", lambda u: 4.184 * u["Joule"]),
    ("Newton", lambda u: u["kg"] * u["meter"] / u["sec"] / u["sec"]),
    ("dyne", lambda u: u["gram"] * u["cm"] / u["sec"] / u["sec"]),
    ("Watt", lambda u: u["Joule"] / u["sec"]),
    ("Pa", lambda u: u["Newton"] / u["meter"] / u["meter"]),
    ("hPa", lambda u: 1e2 * u["Pa"]), ("kPa", lambda u: 1e3 * u["Pa"]), ("bar", lambda u: 1e5 * u["Pa"]),
    ("barye", lambda u: u["dyne"] / u["cm"] / u["cm"]),
    ("Joule", lambda u: u["Volt"] * u["Coulomb"]),
    ("Ohm", lambda u: u["Volt"] / u["Ampere"]), ("Siemens", lambda u: 1.0 / u["Ohm"]),
    ("Ampere", lambda u: u["Coulomb"] / u["sec"]), ("Farad", lambda u: u["Coulomb"] / u["Volt"]),
    ("Tesla", lambda u: u["Newton"] * u["sec"] / (u["Coulomb"] * u["meter"])),
    ("Gauss", lambda u: 1e-4 * u["Tesla"]), ("Weber", lambda u: u["Tesla"] * u["meter"] * u["meter"]),
    ("Hz", lambda u: 1.0 / u["sec"]),
    ("ms", lambda u: 1e-3 * u["sec"]), ("ns", lambda u: 1e-9 * u["sec"]), ("minute", lambda u: 60 * u["sec"]), ("hr", lambda u: 3600 * u["sec"]),
    ("day", lambda u: 86400 * u["sec"]), ("week", lambda u: 7 * u["day"]), ("year", lambda u: 365.25 * u["day"]),
    ("kg", lambda u: 1e3 * u["gram"]), ("tonne", lambda u: 1e6 * u["gram"]),
    ("mm", lambda u: 0.1 * u["cm"]), ("meter", lambda u: 100 * u["cm"]), ("km", lambda u: 1e5 * u["cm"]), ("fm", lambda u: 1e-15 * u["meter"]),
    ("inch", lambda u: 2.54 * u["cm"]), ("foot", lambda u: 12 * u["inch"]), ("yard", lambda u: 3 * u["foot"]), ("mile", lambda u: 1609.344 * u["meter"]),
    ("Angstrom", lambda u: 1e-10 * u["meter"]), ("sec", lambda u: 299792458.0 * u["meter"]),
    ("eV", lambda u: 1e-9 * u["GeV"]), ("keV", lambda u: 1e-6 * u["GeV"]), ("MeV", lambda u: 1e-3 * u["GeV"]), ("TeV", lambda u: 1e3 * u["GeV"]),
    ("barn", lambda u: 1e-24 * u["cm"] * u["cm"]), ("hectare", lambda u: 1e4 * u["meter"] * u["meter"]),
    ("kpc", lambda u: 1e3 * u["pc"]), ("Mpc", lambda u: 1e6 * u["pc"]), ("arcmin", lambda u: u["deg"] / 60), ("arcsec", lambda u: u["deg"] / 3600),
    ("mPlanck_reduced", lambda u: u["mPlanck"] / (8.0 * 3.141592653589793) ** 0.5), ("G_Newton", lambda u: 1.0 / u["mPlanck"] / u["mPlanck"]),
    ("Higgs_VeV", lambda u: (2 ** 0.5 * u["G_Fermi"]) ** -0.5),
]


def _table(flavour):
    exe = buildlib.ensure_driver(flavour, "c20_units_table")
    r = subprocess.run([exe], capture_output=True, text=True, timeout=120)
    if r.returncode != 0:
        raise RuntimeError("%s exited %d" % (exe, r.returncode))
    t = {}
    for line in r.stdout.splitlines():
        k, v = line.split()
        t[k] = float.fromhex(v) if v not in ("nan", "-nan", "inf", "-inf") else float(v.replace("-nan", "nan"))
    return t


def pre(tier, seed):
    """Builds the unit table in the four configurations and returns harness-style records (clauses, violations, a sample)."""
    recs = []
    try:
        with ThreadPoolExecutor(max_workers=4) as ex:
            tables = dict(zip(CONFIGS, ex.map(_table, CONFIGS)))
    except Exception as e:  # build or run failure: a harness failure, not a verdict
        return [{"t": "fatal", "reason": "configuration build failed: %s" % e}]
    clauses = {}

    def cl(name):
        return clauses.setdefault(name, {"t": "clause", "id": name, "n": 0, "nontrivial": 0, "outside": 0, "max_ratio": 0.0, "argmax": ""})

    def viol(key, clause, params, obs):
        recs.append({"t": "viol", "key": key, "clause": clause, "gen": "unit_table_configurations", "index": 0, "seed": seed, "tier": tier,
                     "flavour": "cfg", "params": params, "observation": obs})

    import math
    for cfg, t in tables.items():
        for name, v in t.items():
            c = cl("cfg-unit-constant-finite-and-non-zero")
            c["n"] += 1
            c["nontrivial"] += 1
            if not (math.isfinite(v) and v != 0.0):
                c["max_ratio"] = "inf"
                viol("cfg-unit-constant-not-finite:%s" % name, c["id"], {"configuration": cfg, "constant": name}, {"value": repr(v)})
        for name, fn in IDENT:
            c = cl("cfg-derived-unit-equals-its-defining-product")
            c["n"] += 1
            c["nontrivial"] += 1
            try:
                want = fn(t)
                ratio = abs(t[name] - want) / abs(want) / (8 * EPS)
            except Exception:
                ratio = float("inf")
            if not ratio <= 1.0:
                viol("cfg-derived-unit-mismatch:%s" % name, c["id"], {"configuration": cfg, "constant": name}, {"value": t[name].hex(), "defining_product": repr(want)})
            if isinstance(c["max_ratio"], float) and ratio > c["max_ratio"]:
                c["max_ratio"], c["argmax"] = ratio, "%s:%s" % (cfg, name)
    ref = tables[CONFIGS[0]]
    for cfg in CONFIGS[1:]:
        for name, v in tables[cfg].items():
            c = cl("cfg-unit-tables-agree-across-compilers-and-optimisation-levels")
            c["n"] += 1
            c["nontrivial"] += 1
            a = ref[name]
            ratio = (abs(v - a) / abs(a) / (4 * EPS)) if (a != 0 and math.isfinite(a) and math.isfinite(v)) else (0.0 if v == a else float("inf"))
            if not ratio <= 1.0:
                viol("cfg-unit-table-differs:%s" % name, c["id"], {"configuration": cfg, "reference_configuration": CONFIGS[0], "constant": name}, {"value": repr(v), "reference": repr(a)})
            if isinstance(c["max_ratio"], float) and ratio > c["max_ratio"]:
                c["max_ratio"], c["argmax"] = ratio, "%s:%s" % (cfg, name)
    for c in clauses.values():
        if not isinstance(c["max_ratio"], str) and c["max_ratio"] == float("inf"):
            c["max_ratio"] = "inf"
        recs.append(c)
    recs.append({"t": "sample", "gen": "unit_table_configurations", "index": 0,
                 "params": {"configurations": CONFIGS, "constants_per_table": len(ref)},
                 "observed": {k: {cfg: tables[cfg][k].hex() for cfg in CONFIGS} for k in ("Joule", "erg", "Volt", "Ohm")}})
    return recs


PROP = {
    "driver": "c20_io_units",
    "pre": pre,
    "shards": {"quick": 8, "thorough": 16},
    "rule": "a file case is non-trivial when the table has >= 2 columns, a header and per-column units (lists: header and a unit); every In_Units case, every function export and every "
            "(build configuration, constant) pair is non-trivial; distinct = hash of shape, header lines and first/last entries. Tables 1..200 x 1..12, values 0, integers, fractions, "
            "1.00000x and 9.999995 patterns and magnitudes over 580 decades of either sign, per-column unit factors 1e-30..1e30 or none, 0..3 header lines containing numeric tokens; "
            "Export_List/Export_Table/Export_Function (both overloads) read back by Import_List/Import_Table; six In_Units overloads with and without rounding; the unit table built by "
            "g++ -O0, g++ -O2, clang++ -O0, clang++ -O2",
    "floors": {"quick": {"cases": 45000, "distinct_nontrivial": 35000,
                         "clauses": {"table-values-read-back-to-six-digits": 3500, "list-values-read-back-to-six-digits": 1100, "function-values-read-back-to-six-digits": 550,
                                     "in-units-undoes-multiplication-by-the-unit": 3800, "derived-unit-equals-its-defining-product": 40,
                                     "cfg-unit-constant-finite-and-non-zero": 450, "cfg-derived-unit-equals-its-defining-product": 200,
                                     "cfg-unit-tables-agree-across-compilers-and-optimisation-levels": 340}},
               "thorough": {"cases": 900000, "distinct_nontrivial": 400000,
                            "clauses": {"table-values-read-back-to-six-digits": 350000, "cfg-unit-tables-agree-across-compilers-and-optimisation-levels": 340}}},
    "technique": "runtime monitoring: files written by the library are read back by the library and compared value by value by the driver (round-trip oracle, 6 significant digits); "
                 "In_Units overloads against the definition; the unit-constant table of four separately compiled configurations (g++/clang++ x O0/O2, hooks off) compared offline with each other "
                 "and with the defining products; ASan+UBSan build for the file code",
    "level_text": "Thousands (thorough: ~1e6) of generated tables, lists and tabulated functions were exported and re-imported with the same unit factors and header counts: same shape, every "
                  "value within 5.1e-6 relative, zero to zero; all six In_Units overloads undo the multiplication within 2 eps and round like Round; every derived unit constant equals its "
                  "defining product within 8 eps in the running build, and the table of 114 constants printed by a program linked against the library built by g++ -O0, g++ -O2, clang++ -O0 "
                  "and clang++ -O2 is finite, non-zero, satisfies the same identities in each build and agrees across the four builds within 4 eps.",
    "level_note": "Trusted: the four compiler invocations in bin/buildlib.py stand for 'whichever compiler and optimisation level built the library'; values are chosen so that value/unit is a normal double; "
                  "files live in a private mkdtemp directory and are unlinked case by case.",
    "assumptions": STD_ASSUME + ["the configuration builds use hooks off (plain library) with g++ 12 and clang++ 14 at -O0 and -O2", "value/unit and value are normal finite doubles (|.| in 1e-300..1e300) or exactly 0"],
}
PROP["level_text"] += ' A third of the exports go onto a file that already exists; unit factors include exactly 1, -1, 2, 0.5 and 10; In_Units with rounding must return a number with the requested digits within half a unit of the last digit of the quotient.'
PROP["level_text"] += " Entries include exact powers of two at the limits of the integer types; errno is left at ERANGE/EDOM before imports; table files are fitted to power-of-two block sizes (and one byte off); the rounding oracle is independent of the library's Round."
