"""C16 configuration for bin/check."""
from propdefs.common import STD_ASSUME

PROP = {
    "driver": "c16_rotations",
    "shards": {"quick": 8, "thorough": 16},
    "rule": "a case is non-trivial when the axis is not a coordinate axis, or lies within 1e-2 of +-z (tilts 1e-13..1e-2 are generated on purpose); distinct = hash of (angles, axis). "
            "Angles in [-4pi,4pi] incl. 0, multiples of pi/2 and tiny angles; axes: Gaussian directions, the six coordinate directions, directions tilted by 1e-13..1e-11, 1e-9..1e-6 and "
            "1e-5..1e-2 from +z and -z, directions with a zero component, lengths 1e-6..1e6; r in 1e-6..1e6, theta in [0,pi] incl. the poles and 1e-9 from them, phi in [0,2pi)",
    "floors": {"quick": {"cases": 900000, "distinct_nontrivial": 690000,
                         "clauses": {"rotation-transpose-is-inverse": 100000, "perpendicular-vectors-turn-by-alpha-right-handed": 250000, "rotations-about-one-axis-compose-by-adding-angles": 100000,
                                     "spherical-polar-angle-to-axis-is-theta": 100000, "azimuth-advances-right-handed-by-dphi": 30000, "spherical-norm-is-r": 100000,
                                     "plain-spherical-coordinates-closed-form": 15000, "2d-rotation-is-cos-sin-matrix": 15000, "angle-between-vectors": 15000}},
               "thorough": {"cases": 28000000, "distinct_nontrivial": 400000,
                            "clauses": {"rotation-transpose-is-inverse": 10000000, "spherical-polar-angle-to-axis-is-theta": 10000000}}},
    "technique": "runtime monitoring: geometric-identity oracles evaluated in long double on every returned matrix / vector (orthogonality, determinant, fixed axis, signed turning angle, "
                 "composition, norm, polar angle, right-handed azimuth increment in a frame built by the driver); ASan+UBSan build in parallel",
    "level_text": "Hundreds of thousands (thorough: tens of millions) of rotation matrices and spherical-coordinate vectors were produced by the real library for angles in [-4pi,4pi] and axes of "
                  "every kind and length, and judged by identities that involve no reference implementation: R R^T = I and det R = 1 within 64 eps, R n = n, vectors perpendicular to the axis "
                  "turn by alpha (signed, right-handed) within 1e-13, R(a)R(b) = R(a+b), |v| = r within 8 eps, polar angle to the axis = theta within 1e-7, azimuth advances by exactly the "
                  "increment of phi in a right-handed frame, no NaN for axes parallel / antiparallel / nearly so; the axis-free overload and the 2D matrix bit for bit. Exploration over sampled inputs.",
    "level_note": "Trusted: long double evaluation of the identities; the 1e-7 polar-angle tolerance reflects the library snapping axes within 1.5e-8 of +z onto z (documented in DESIGN.md).",
    "assumptions": STD_ASSUME + ["axes are non-zero; the azimuth clause is judged where sin(theta) > 1e-3"],
}
PROP["level_text"] += ' The axis-free overload and the 2D matrix are compared with their closed forms within 4-8 eps (not bit for bit), and call histories in which the same angles and bit-identical axes recur across 2D, 3D and spherical calls are judged against a long double Rodrigues reference.'
PROP["level_text"] += ' Axes live in Vector objects that are changed in place (+=, -=, []) between calls; axis lengths next to 1, transverse components down to subnormal numbers, radii from 1e-300 to 1e300.'
