"""C01 configuration for bin/check."""
from propdefs.common import STD_ASSUME

PROP = {
    "driver": "c01_interp",
    "shards": {"quick": 8, "thorough": 16},
    "rule": "a table is non-trivial when its spacing is non-uniform and the long double Steffen reference model reports the slope limiter active at "
            ">= 1 interior knot (measured per table); exact line/parabola tables: non-uniform integer gaps; 2D grids: at least one non-uniform axis. "
            "distinct = hash of the stored abscissae and ordinates. Generators: tables with N=3..300, 6 spacing styles (uniform, geometric, ratios up to 1e9, "
            "alternating tiny/huge, clustered) x 12 ordinate styles (1e-20..1e20 mixed sign, plateaus, spike, monotone, rounded line/parabola, sine, constant, "
            "staircase), optional x_dim/f_dim, both constructors; queries at every knot, both nextafter neighbours, interior points incl. 1e-9 from the ends, "
            "the 1% extrapolation zone at both ends; exactly representable lines and parabolas; rectangular grids 3..14 per axis and exact bilinear functions",
    "floors": {"quick": {"cases": 30000, "distinct_nontrivial": 25000, "ticks": {"Locate.bisection": 100000},
                         "clauses": {"knot-value-reproduced": 20000, "value-vs-steffen-reference": 100000, "no-overshoot-between-knots": 100000,
                                     "monotone-between-knots": 100000, "slope-continuous-across-knot": 10000, "straight-line-reproduced": 5000,
                                     "parabola-reproduced-where-limiter-inactive": 3000, "derivative-1-is-derivative-of-returned-curve": 5000,
                                     "2d-node-value-reproduced": 20000, "2d-within-cell-corner-values": 50000, "2d-continuous-across-cell-edge": 20000,
                                     "2d-bilinear-function-reproduced": 50000}},
               "thorough": {"cases": 500000, "distinct_nontrivial": 200000, "ticks": {"Locate.bisection": 10000000},
                            "clauses": {"knot-value-reproduced": 2000000, "value-vs-steffen-reference": 10000000, "straight-line-reproduced": 500000,
                                        "parabola-reproduced-where-limiter-inactive": 300000, "2d-bilinear-function-reproduced": 5000000}}},
    "technique": "runtime monitoring: value oracles at the API boundary (knot reproduction, cell/segment bounds, monotonicity, continuity), long double Steffen(1990) and "
                 "bilinear reference models run side by side with every query, cubic fit through returned values for derivative consistency; gcc ASan+UBSan build in parallel",
    "level_text": "Thousands (thorough: hundreds of thousands) of generated tables and grids were interpolated by the real library and every returned value / derivative was "
                  "judged online: knots reproduced, values inside the two neighbouring ordinates, monotone on sorted query pairs of a segment, C0/C1 across knots, "
                  "Derivative(x,k) equal to the derivative of the cubic fitted through values of Interpolate, agreement with a long double implementation of Steffen's "
                  "formulas (conditional form) and of the bilinear form, exact lines/parabolas/bilinear functions reproduced to rounding. Exploration: sampled tables and queries.",
    "level_note": "Trusted: the reference model in harness/interp_common.hpp (written from Steffen 1990, eqs. 11, 24-26), tolerance scales (64 eps x max ordinate of the segment; "
                  "512 eps S/h^k for derivatives; conditioning constants of the 4-point fit), harness plumbing.",
    "assumptions": STD_ASSUME + ["tolerances are K*eps*S with S the largest ordinate magnitude of the segment(s) touching the query (both neighbours at a knot)",
                                 "neighbouring abscissae differ by at least 64 ulp; ordinates within 1e-22..1e22"],
}
