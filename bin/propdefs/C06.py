"""C06 configuration for bin/check."""
from propdefs.common import STD_ASSUME

PROP = {
    "driver": "c06_gamma",
    "flavours": [("rel", 1.0), ("asan", 0.1)],
    "shards": {"quick": 8, "thorough": 16},
    "rule": "a case is non-trivial when the point lies within 1 of a branch switch-over (x = a+1, a = 100, n = 170) or the continued-fraction / quadrature branch ran (tick counters "
            "GammaQcf.term, GammaQint read before/after the call); distinct = hash of the arguments. GammaLn/Gamma on x in (0, 171] and beyond (overflow to inf), recurrence pairs; "
            "Factorial for all n <= 170 in ascending, descending and random permutations with repeats, each order in a fresh child process (the memo table is a process global), 171 "
            "must exit; Binomial_Coefficient for all 0 <= k <= n <= 400 row by row in varying call order; P, Q on a grid plus random (x,a) with a in (0,1e4], x in [0, a+40 sqrt(a)+40], "
            "dense at x = a+1 +- {1e-3,1e-9} and a = 100 +- 1e-6; inverses for p in (1e-12, 1-1e-12)",
    "floors": {"quick": {"cases": 250000, "distinct_nontrivial": 100000,
                         "ticks": {"GammaPser.term": 1000000, "GammaQcf.term": 1000000, "GammaQint": 100000, "Inv_GammaP.halley": 30000},
                         "clauses": {"gammaln-vs-lgammal": 35000, "gamma-recurrence": 20000, "factorial-recurrence-to-4-ulp": 4000, "factorial-above-170-exits": 24,
                                     "binomial-vs-pascal-triangle": 80000, "binomial-pascal-rule": 80000, "pq-range-0-1": 300000, "pq-sum-to-one": 150000,
                                     "p-accuracy-1e-12-a<=100": 90000, "p-accuracy-1e-3-a>100": 60000, "pq-monotone-in-x": 150000, "upper-plus-lower-equals-gamma": 100000,
                                     "inv-gammap-residual-1e-7-a<=100": 12000, "inv-gammap-residual-1e-3-a>100": 6000, "inv-gammaq-residual-1e-7-a<=100": 5000}},
               "thorough": {"cases": 7000000, "distinct_nontrivial": 3000000,
                            "ticks": {"GammaPser.term": 100000000, "GammaQcf.term": 100000000, "GammaQint": 10000000},
                            "clauses": {"p-accuracy-1e-12-a<=100": 2500000, "p-accuracy-1e-3-a>100": 2000000, "inv-gammap-residual-1e-7-a<=100": 300000}}},
    "exhaustive": {"quick": ["Factorial: every n <= 170 in each generated call order", "Binomial_Coefficient: all 0 <= k <= n <= 400"],
                   "thorough": ["Factorial: every n <= 170 in each generated call order", "Binomial_Coefficient: all 0 <= k <= n <= 400"]},
    "technique": "runtime monitoring: reference-value oracles (lgammal/tgammal, Boost.Math gamma_p / gamma_q / gamma_p_inv in long double, exact long double Pascal triangle), identity and "
                 "recurrence checkers, memo-table call orders in fresh child processes, tick counters proving that series, continued-fraction and quadrature branches all ran; ASan+UBSan build in parallel",
    "level_text": "GammaLn, Gamma, Factorial, Binomial_Coefficient, GammaP/Q, the incomplete gamma functions and Inv_GammaP/Q of the real library were evaluated on hundreds of thousands "
                  "(thorough: millions) of arguments incl. both sides of every branch switch-over and compared with independent long double references: GammaLn within 64 eps max(1,|lnG|), "
                  "Gamma and its recurrence within 64 eps (1+|lnG|) relative, Factorial bit-exact recurrence in every call order (171 exits), Binomial against an exact Pascal triangle, "
                  "P and Q in [0,1], summing to one, monotone in x and within 1e-12 (a <= 100) / 1e-3 (a > 100) of the reference, Upper + Lower = Gamma, and the inverses judged with the "
                  "reference P so that an error in P cannot hide an equal error in its inverse. Exploration over sampled (x,a); Factorial and Binomial exhaustive.",
    "level_note": "Trusted: Boost.Math and libm long double functions as references; 'a few ulp' is read on the scale of the logarithm that the Lanczos series computes (eps (1+|lnG|) for Gamma, "
                  "the sum of the three |lnG| for Binomial with n > 170); inverse requests whose exact solution is below 1e-290 are counted as unrepresentable.",
    "assumptions": STD_ASSUME + ["Inv_GammaP/Q requests whose exact answer is smaller than 1e-290 (tiny a, small p) are outside: no double solves them",
                                 "tolerances 1e-12 / 1e-3 / 1e-7 are the numbers stated by the property"],
}
PROP["level_text"] += ' Binomial coefficients are also asked for in fresh processes whose factorial memo is still short (32 eps for n <= 170); arguments exactly at the ends of the a > 100 quadrature window and subnormal x are part of the grid.'
PROP["level_text"] += " P and Q are also evaluated in fresh child processes whose first incomplete-gamma call sits at an end of the a > 100 quadrature window, at x = 0, or at an ordinary argument."
