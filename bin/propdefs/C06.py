"""C06 configuration for bin/check."""
from propdefs.common import STD_ASSUME

PROP = {
    "driver": "c06_gamma",
    "flavours": [("rel", 1.0), ("asan", 0.1)],
    "shards": {"quick": 8, "thorough": 16},
    "rule": "placeholder",
    "floors": {"quick": {"cases": 1000, "distinct_nontrivial": 100}, "thorough": {"cases": 1000, "distinct_nontrivial": 100}},
    "technique": "runtime monitoring",
    "level_text": "placeholder",
    "level_note": "placeholder",
    "assumptions": STD_ASSUME,
}
