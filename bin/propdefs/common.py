STD_ASSUME = [
    "the library observed is /repo's working tree compiled by bin/buildlib.py with -DLIBPHYSICA_VERIF (hooks on), g++ 12, -O2 (rel) and -O1 + ASan/UBSan (asan)",
    "verdicts are functions of (working tree, VERIF_SEED, tier); only inputs the generators produced were observed",
]
