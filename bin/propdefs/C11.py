"""C11 configuration for bin/check."""
from propdefs.common import STD_ASSUME

PROP = {
    "driver": "c11_minimisers",
    # in-regime premature stops carry the signature of finding D15; measured rate on the pinned tree ~1e-5 (3 in 16 seeds x 16500 cases; expected 0.25 per quick run, P(more than 5) = 3e-7)
    # far cosh starts that end on Brent's iteration cap carry the signature of finding D37; measured: 0-2 per quick run of 16500 far-start cases (20 seeds), 0 in 413000 at the thorough tier; seeded change C11-r6m3 produces 380 per quick run
    "rate_limits": {"nd-in-regime-premature-stop(rate-limited)": {"abs": 5, "frac": 1e-4},
                    "1d-far-cosh-start-iteration-cap(rate-limited)": {"abs": 12, "frac": 1e-3}},
    "shards": {"quick": 8, "thorough": 16},
    "rule": "1D: 8 objective families (quadratic, quartic-flat, cosh, Morse well, multimodal parabola+oscillation, plateau with dip, |t|^p, even multimodal with exactly tied starts) x starts up to 20 length scales (cosh: 709) "
            "off-centre x steps 1e-3..1e3 of either sign x tol 1e-12..1e-3; ND (n=1..6): random SPD quadratics (condition <= 1e4, random rotation, f0 = 0 or not) and "
            "multimodal variants, all three minimize overloads, deltas 1e-3..1e3 of either sign, ftol 1e-12..1e-3; convergence judged where the initial simplex edge is >= 1/3 of "
            "the distance to the minimiser; the small-simplex regime is explored against the recorded finding. Non-trivial = >= 10 iterations (tick hook) and, for n >= 2... "
            "at least one expansion, one contraction and one shrink were observed (tick sites); distinct = hash of start, deltas/limits and tolerance",
    "floors": {"quick": {"cases": 310000, "distinct_nontrivial": 200000, "ticks": {"Brent.iteration": 500000, "NelderMead.iteration": 500000, "NelderMead.shrink": 100}},
               "thorough": {"cases": 10000000, "distinct_nontrivial": 300000, "ticks": {"Brent.iteration": 50000000, "NelderMead.iteration": 50000000}}},
    "technique": "runtime monitoring: objective-evaluation wrapper, descent and state-consistency assertions on the returned object, closed-form minimisers as reference, "
                 "tick-hook step budgets (bounded progress) and branch counters; worker death = violation; ASan/UBSan build",
    "level_text": "Over 1e5 (thorough 1e7) minimiser calls on the real library: every call must return (a std::exit or a step-budget overrun is a violation), end no worse than its "
                  "best starting point, report a state (fmin, y, current_simplex) that is bit-for-bit the objective at the returned vertices, and land within the tolerance-implied "
                  "distance of the known minimiser on unimodal 1D families and on strictly convex quadratics. Exploration of sampled objectives and starts.",
    "level_note": "Trusted: closed-form minimisers of the driver's objective families; deterministic objectives. The Nelder-Mead convergence clause is enforced where the textbook method is "
                  "reliable (initial edge >= distance/3); outside it the recorded known finding applies and only observations matching its full signature are suppressed.",
    "assumptions": STD_ASSUME + ["objectives are deterministic, never NaN, and finite at one or both starting abscissae; +inf from overflowing exp/cosh is a legitimate value elsewhere "
                                 "(cosh bowls are started up to 709 widths from the minimum with steps up to 1e3 widths; the Morse well, flat to rounding beyond 37 widths, keeps steps <= 20 widths)"],
}
PROP["level_text"] += ' The arguments handed over by reference (start, steps, start simplex) must come back unchanged; cosh bowls start up to 709 widths away with steps up to 1e3 widths (function values +inf); exactly tied starting values on even multimodal objectives; starts that are already within 1e-6 of the step from the minimiser.'
