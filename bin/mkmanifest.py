#!/usr/bin/env python3
"""Regenerates MANIFEST.json from bin/props.py (development helper, not a registered command)."""
import json
import os
import subprocess
import sys

HERE = os.path.dirname(os.path.abspath(__file__))
VERIF = os.path.dirname(HERE)
sys.path.insert(0, HERE)
import props  # noqa: E402

ids = [json.loads(l)["id"] for l in open(os.path.join(VERIF, "properties.jsonl"))]
hook_commits = subprocess.run("git -C /repo log --format=%H --grep='^verif hooks'", shell=True, capture_output=True, text=True).stdout.split()
m = {
    "version": 1,
    "setup_cmd": "python3 bin/setup.py",
    "hooks": {
        "guard": "LIBPHYSICA_VERIF",
        "enable": "bin/buildlib.py compiles /repo/src/*.cpp with -DLIBPHYSICA_VERIF (tick hook + Monte Carlo seed override from include/libphysica/Verif_Hooks.hpp) into build/<flavour>/libphysica.a",
        "baseline_off_cmd": "cmake --build /repo/_build && ctest --test-dir /repo/_build -j8 --timeout 900",
        "source_commits": hook_commits,
        "add_only": True,
    },
    "engines": [{"name": "verif-harness", "path": "harness/common/verif.hpp",
                 "serves_properties": sorted(props.PROPS.keys()),
                 "kind_free_text": "runtime monitors: forked-worker case runner with shared-memory progress word, isolated-request children, "
                                   "tick-hook counters and step budgets, value/reference-model/identity oracles; g++ ASan+UBSan build and -O2 build of the working tree"}],
    "checks": [],
    "not_applicable": [],
    "notes": "All checks: python3 bin/check <ID> --tier quick|thorough; exit 0 held / 1 VIOLATION lines / 2 harness failure or inconclusive. "
             "VERIF_SEED selects the PRNG stream. known_findings.json lists recorded findings and fixed defects.",
}
for i in ids:
    if i in props.PROPS:
        P = props.PROPS[i]
        m["checks"].append({
            "property_id": i,
            "quick_cmd": "python3 bin/check %s --tier quick" % i,
            "thorough_cmd": "python3 bin/check %s --tier thorough" % i,
            "evidence_file": "evidence/%s.json" % i,
            "replay_cmd_template": "python3 bin/check %s --replay {path}" % i,
            "engine": "verif-harness",
            "level_claimed": {"category": "exploration", "text": P["level_text"], "design_ref": "DESIGN.md section 4, " + i},
            "level_note": P["level_note"],
            "technique": P["technique"],
        })
    else:
        m["not_applicable"].append({"property_id": i, "reason": "check under construction (designed in DESIGN.md section 4); not claimed yet"})
json.dump(m, open(os.path.join(VERIF, "MANIFEST.json"), "w"), indent=1)
print("checks:", [c["property_id"] for c in m["checks"]])
