#!/usr/bin/env python3
"""Content-hash incremental builds of /repo/src into /verif/build/<flavour>/.

Every build is made from /repo's *current working tree*.  Staleness is decided by a SHA-256 over
the source file, every header under /repo/include and the flag string - never by mtime - so an
edited source is always rebuilt and an unedited one never is.  A lock file serialises concurrent
checks.  Nothing is fetched; only g++/clang++/ar and the installed Boost + libconfig++ are used.
"""
import fcntl
import hashlib
import os
import re
import subprocess
import sys
from concurrent.futures import ThreadPoolExecutor

VERIF = os.path.dirname(os.path.dirname(os.path.abspath(__file__)))
REPO = os.environ.get("VERIF_REPO", "/repo")
BUILD = os.environ.get("VERIF_BUILD", os.path.join(VERIF, "build"))
GUARD = "LIBPHYSICA_VERIF"

FLAVOURS = {
    # name: (compiler, lib std, flags, hooks on)
    "asan": ("g++", "-std=c++14",
             "-O1 -g -fno-omit-frame-pointer -fsanitize=address,undefined,float-cast-overflow -fno-sanitize-recover=all "
             "-D_GLIBCXX_SANITIZE_VECTOR" + (" " + os.environ["VERIF_ASAN_EXTRA"] if os.environ.get("VERIF_ASAN_EXTRA") else ""), True),
    "rel": ("g++", "-std=c++14", "-O2 -g", True),
    "memcheck": ("g++", "-std=c++14", "-O0 -g", True),   # for valgrind runs of the drivers (development: selftest/memcheck_all.sh); locals live in memory at -O0
    "cfg-gxx-O0": ("g++", "-std=c++14", "-O0", False),
    "cfg-gxx-O2": ("g++", "-std=c++14", "-O2", False),
    "cfg-clangxx-O0": ("clang++", "-std=c++14", "-O0", False),
    "cfg-clangxx-O2": ("clang++", "-std=c++14", "-O2", False),
}


def sha(*parts):
    h = hashlib.sha256()
    for p in parts:
        if isinstance(p, str):
            p = p.encode()
        h.update(p)
        h.update(b"\0")
    return h.hexdigest()


def read(path):
    with open(path, "rb") as f:
        return f.read()


def headers_digest(dirs):
    h = hashlib.sha256()
    for d in dirs:
        for root, _, files in sorted(os.walk(d)):
            for fn in sorted(files):
                p = os.path.join(root, fn)
                h.update(p.encode())
                h.update(read(p))
    return h.hexdigest()


class Lock:
    def __init__(self, name):
        self.name = name

    def __enter__(self):
        os.makedirs(BUILD, exist_ok=True)
        self.f = open(os.path.join(BUILD, ".lock-" + self.name), "w")
        fcntl.flock(self.f, fcntl.LOCK_EX)
        return self

    def __exit__(self, *a):
        fcntl.flock(self.f, fcntl.LOCK_UN)
        self.f.close()


def gen_version_header():
    """A stand-in for the CMake-generated version.hpp (only Utilities.cpp includes it)."""
    gen = os.path.join(BUILD, "gen")
    os.makedirs(gen, exist_ok=True)
    src = read(os.path.join(REPO, "include", "version.hpp.in")).decode()
    subst = {"PROJECT_NAME": "libphysica", "CMAKE_PROJECT_NAME": "libphysica", "PROJECT_SOURCE_DIR": REPO,
             "CMAKE_SOURCE_DIR": REPO}
    out = re.sub(r"@([A-Z_]+)@", lambda m: subst.get(m.group(1), "0"), src)
    p = os.path.join(gen, "version.hpp")
    if not os.path.exists(p) or read(p).decode() != out:
        with open(p, "w") as f:
            f.write(out)
    return gen


def run(cmd, what):
    r = subprocess.run(cmd, shell=True, stdout=subprocess.PIPE, stderr=subprocess.STDOUT, text=True)
    if r.returncode != 0:
        sys.stderr.write("BUILD FAILURE (%s)\n$ %s\n%s\n" % (what, cmd, r.stdout[-6000:]))
        raise SystemExit(2)
    return r.stdout


def compile_if_stale(cmd_prefix, src, obj, digest):
    stamp = obj + ".sha"
    if os.path.exists(obj) and os.path.exists(stamp) and read(stamp).decode() == digest:
        return False
    run("%s -c %s -o %s" % (cmd_prefix, src, obj), src)
    with open(stamp, "w") as f:
        f.write(digest)
    return True


def ensure_lib(flavour, only=None):
    """Build /repo/src/*.cpp for the flavour; returns (path to libphysica.a, digest of the library inputs)."""
    cxx, std, flags, hooks = FLAVOURS[flavour]
    with Lock(flavour):
        gen = gen_version_header()
        out = os.path.join(BUILD, flavour)
        os.makedirs(os.path.join(out, "obj"), exist_ok=True)
        hd = headers_digest([os.path.join(REPO, "include"), gen])
        defs = ("-D%s" % GUARD) if hooks else ""
        prefix = "%s %s %s %s -I%s/include -I%s" % (cxx, std, flags, defs, REPO, gen)
        srcs = sorted(f for f in os.listdir(os.path.join(REPO, "src")) if f.endswith(".cpp") and f != "main.cpp")
        if only:
            srcs = [s for s in srcs if s in only]
        jobs = []
        digests = []
        for s in srcs:
            sp = os.path.join(REPO, "src", s)
            dg = sha(read(sp), hd, prefix)
            digests.append(dg)
            jobs.append((prefix, sp, os.path.join(out, "obj", s[:-4] + ".o"), dg))
        with ThreadPoolExecutor(max_workers=16) as ex:
            rebuilt = list(ex.map(lambda j: compile_if_stale(*j), jobs))
        lib = os.path.join(out, "libphysica.a")
        libdigest = sha(*digests)
        stamp = lib + ".sha"
        if any(rebuilt) or not os.path.exists(lib) or not os.path.exists(stamp) or read(stamp).decode() != libdigest:
            if os.path.exists(lib):
                os.remove(lib)
            run("ar rcs %s %s" % (lib, " ".join(j[2] for j in jobs)), "ar")
            with open(stamp, "w") as f:
                f.write(libdigest)
        return lib, libdigest


def ensure_driver(flavour, name, extra_flags=""):
    """Build harness/<name>.cpp against the flavour's library; returns the binary path."""
    cxx, _, flags, hooks = FLAVOURS[flavour]
    lib, libdigest = ensure_lib(flavour)
    with Lock(flavour + "-" + name):
        gen = os.path.join(BUILD, "gen")
        out = os.path.join(BUILD, flavour)
        src = os.path.join(VERIF, "harness", name + ".cpp")
        hd = headers_digest([os.path.join(VERIF, "harness", "common"), os.path.join(REPO, "include")])
        defs = ("-D%s" % GUARD) if hooks else ""
        cmd = "%s -std=gnu++17 %s %s %s -DVERIF_FLAVOUR='\"%s\"' -I%s/include -I%s -I%s/harness/common -I%s/harness" % (
            cxx, flags, defs, extra_flags, flavour, REPO, gen, VERIF, VERIF)
        exe = os.path.join(out, name)
        local = b""
        for inc in re.findall(r'#include "([^"]+)"', read(src).decode("utf-8", "replace")):
            ip = os.path.join(VERIF, "harness", inc)
            if os.path.exists(ip):
                local += read(ip)   # driver-group headers next to the driver
        dg = sha(read(src), local, hd, cmd, libdigest)
        stamp = exe + ".sha"
        if not (os.path.exists(exe) and os.path.exists(stamp) and read(stamp).decode() == dg):
            run("%s %s %s -lconfig++ -o %s" % (cmd, src, lib, exe), name)
            with open(stamp, "w") as f:
                f.write(dg)
        return exe


if __name__ == "__main__":
    if len(sys.argv) >= 3 and sys.argv[1] == "lib":
        print(ensure_lib(sys.argv[2])[0])
    elif len(sys.argv) >= 4 and sys.argv[1] == "driver":
        print(ensure_driver(sys.argv[2], sys.argv[3]))
    else:
        print("usage: buildlib.py lib <flavour> | driver <flavour> <name>")
        sys.exit(2)
