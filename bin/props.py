"""Per-property configuration of bin/check: one module per property in bin/propdefs/ (driver, flavours, shards, floors, evidence texts)."""
import importlib
import os

PROPS = {}
_d = os.path.join(os.path.dirname(os.path.abspath(__file__)), "propdefs")
for _f in sorted(os.listdir(_d)):
    if _f.startswith("C") and _f.endswith(".py"):
        PROPS[_f[:-3]] = importlib.import_module("propdefs." + _f[:-3]).PROP
