// C09 - interpolation results do not depend on the history of earlier calls (DESIGN.md section 4, C09).
// History + executable model: the model of every answer is "what a freshly constructed object answers to this single question".
// A pool of *used* objects (the original, copies and assignment targets taken at random points) receives long operation sequences -
// short correlated steps in both directions (hunt), far jumps (bisection), repeats, knots, nextafter neighbours, domain ends,
// the extrapolation zone - and after every operation a fresh object is asked the same question.
//   off knots:  bit-identical;   at knots: within 64 eps x ordinate scale of both neighbouring segments;
//   prefactor history on the used object: exactly P x the unit-prefactor answer (Integrate: within its rounding tolerance).
#include "interp_common.hpp"
#include <memory>

#include "libphysica/Numerics.hpp"

using namespace libphysica;
using namespace vf;
using namespace ic;

static const double K_VAL = 64, K_DER = 512;

static Interpolation construct(const Table& T)
{
	if(T.table_ctor)
	{
		std::vector<std::vector<double>> rows(T.x.size());
		for(size_t i = 0; i < T.x.size(); i++)
			rows[i] = {T.x[i], T.y[i]};
		return Interpolation(rows, T.x_dim, T.f_dim);
	}
	return Interpolation(T.x, T.y, T.x_dim, T.f_dim);
}

struct Walker	// produces correlated / uncorrelated query points
{
	const Table& T;
	Rng& rng;
	int pos;
	double last;
	Walker(const Table& t, Rng& r)
	: T(t), rng(r), pos(r.irange(0, t.N() - 2)), last(t.X[0]) {}
	bool is_knot = false;
	double next_query()
	{
		int N	 = T.N();
		double u = rng.u01();
		is_knot	 = false;
		double q;
		if(u < 0.55)
		{	// short correlated step, either direction (engages the hunt)
			int step = rng.irange(-3, 3);
			if(rng.coin(0.2))
				step = rng.irange(-12, 12);
			pos = std::min(std::max(pos + step, 0), N - 2);
			q	= T.X[pos] + rng.u01() * T.h(pos);
		}
		else if(u < 0.70)
		{	// far jump (falls back to bisection)
			pos = rng.irange(0, N - 2);
			q	= T.X[pos] + rng.u01() * T.h(pos);
		}
		else if(u < 0.75)
			q = last;	// repeat
		else if(u < 0.85)
		{	// a knot near the current position, or anywhere
			int k = rng.coin() ? std::min(std::max(pos + rng.irange(-2, 3), 0), N - 1) : rng.irange(0, N - 1);
			q	  = T.X[k];
			pos	  = std::min(k, N - 2);
		}
		else if(u < 0.90)
		{	// nextafter neighbour of a knot
			int k = std::min(std::max(pos + rng.irange(-1, 2), 0), N - 1);
			q	  = rng.coin() ? (k > 0 ? prev(T.X[k]) : next(T.X[k])) : (k < N - 1 ? next(T.X[k]) : prev(T.X[k]));
			pos	  = std::min(k, N - 2);
		}
		else if(u < 0.94)
			q = rng.coin() ? T.X[0] : T.X[N - 1], pos = (q == T.X[0]) ? 0 : N - 2;
		else
		{	// extrapolation zone
			double f = rng.uni(0.01, 0.99);
			if(rng.coin())
				q = T.X[0] - f * 1e-2 * T.h(0), pos = 0;
			else
				q = T.X[N - 1] + f * 1e-2 * T.h(N - 2), pos = N - 2;
			if(!(std::fabs(q - T.X[0]) < 1e-2 * T.h(0) || std::fabs(q - T.X[N - 1]) < 1e-2 * T.h(N - 2)))
				q = T.X[pos];
		}
		if(q < T.X[0] && !(std::fabs(q - T.X[0]) < 1e-2 * T.h(0)))
			q = T.X[0];
		if(q > T.X[N - 1] && !(std::fabs(q - T.X[N - 1]) < 1e-2 * T.h(N - 2)))
			q = T.X[N - 1];
		last	= q;
		is_knot = T.knot_index(q) >= 0;
		return q;
	}
};

static bool eqbits(double a, double b) { return same_bits(a, b) || (a == 0 && b == 0); }	// P * 0.0 may carry the sign of P
static double knot_scale(const Table& T, double q)
{
	int k = T.knot_index(q);
	if(k < 0)
		return T.S(T.seg(q));
	return std::max(k > 0 ? T.S(k - 1) : 0.0, k < T.N() - 1 ? T.S(k) : 0.0);
}
static double knot_hmin(const Table& T, double q)
{
	int k = T.knot_index(q);
	if(k < 0)
		return T.h(T.seg(q));
	return std::min(k > 0 ? T.h(k - 1) : INFINITY, k < T.N() - 1 ? T.h(k) : INFINITY);
}
// rounding scale of Integrate(x1,x2) (see the C08 driver): sum over pieces of S_j (|x_l|+|x_r|+4|t_l|+4|t_r|), plus both neighbours of knot limits
static double integrate_scale(const Table& T, double x1, double x2)
{
	double lo = std::min(x1, x2), hi = std::max(x1, x2);
	int j1 = T.seg(lo), j2 = T.seg(hi);
	if(T.knot_index(lo) >= 0 && j1 > 0)
		j1--;
	if(T.knot_index(hi) >= 0 && j2 < T.N() - 2)
		j2++;
	double s = 0;
	for(int j = j1; j <= j2; j++)
	{
		double xl = std::max(lo, T.X[j]), xr = std::min(hi, T.X[j + 1]);
		if(j == j1)
			xl = std::min(lo, T.X[j]);
		if(j == j2)
			xr = std::max(hi, T.X[j + 1]);
		s += T.S(j) * (std::fabs(xl) + std::fabs(xr) + 4 * (std::fabs(xl - T.X[j]) + std::fabs(xr - T.X[j])));
	}
	return s;
}

static void case_history(Rng& rng, uint64_t index)
{
	int nmax = (index % 10 == 0) ? 2000 : (index % 3 == 0 ? 300 : 40);
	Table T	 = gen_table(rng, index, nmax);
	const int N = T.N();
	Steffen M(T.X, T.Y);
	set_params(table_json(T));
	hash_table(T);
	uint64_t hunts0 = ticks("Locate.hunt");

	Interpolation pristine = construct(T);	 // never queried; fresh objects for large tables are copies of it (every 8th is constructed)
	auto fresh = [&](uint64_t opno) -> Interpolation {
		if(N <= 200 || opno % 8 == 0)
			return construct(T);
		return Interpolation(pristine);
	};
	struct Used
	{
		Interpolation obj;
		double P;
		// the range of the last extremum query on this object (asked again later: seeded change C09-r6m2 kept both extrema of the last range and
		// did not exchange them when Multiply() was called with a negative factor)
		bool have_last = false;
		double last_x1 = 0, last_x2 = 0;
		bool last_k1 = false, last_k2 = false;
	};
	std::vector<Used> pool;
	pool.push_back({construct(T), 1.0});
	Walker W(T, rng);
	uint64_t nops = ctx().thorough ? 6000 : 3000;
	if(N > 300)
		nops = 1500;
	if(ctx().is_asan())
		nops /= 3;
	uint64_t knot_q = 0, offknot_q = 0;
	for(uint64_t op = 0; op < nops; op++)
	{
		Used& U	 = pool[rng.below(pool.size())];
		double u = rng.u01();
		double P = U.P;
		if(u < 0.40)
		{
			double q = W.next_query();
			bool kn	 = W.is_knot;
			double got = (op & 1) ? U.obj(q) : U.obj.Interpolate(q);
			Interpolation F = fresh(op);
			double ref = P * F.Interpolate(q);
			(kn ? knot_q : offknot_q)++;
			if(!kn)
				require("interpolate-bit-identical-to-fresh-object-off-knots", eqbits(got, ref), [&] { return J().d("x", q).d("used", got).d("prefactor_times_fresh", ref).d("prefactor", P).i("op", (long long) op); });
			else
				judge("interpolate-within-rounding-of-fresh-object-at-knots", std::fabs(got - ref), K_VAL * EPS * std::fabs(P) * knot_scale(T, q), [&] { return J().d("x", q).d("used", got).d("prefactor_times_fresh", ref).d("prefactor", P).i("op", (long long) op); });
		}
		else if(u < 0.55)
		{
			double q   = W.next_query();
			bool kn	   = W.is_knot;
			unsigned k = (unsigned) rng.irange(0, 4);
			double got = U.obj.Derivative(q, k);
			Interpolation F = fresh(op);
			double ref = P * F.Derivative(q, k);
			if(!kn)
				require("derivative-bit-identical-to-fresh-object-off-knots", eqbits(got, ref), [&] { return J().d("x", q).i("order", k).d("used", got).d("prefactor_times_fresh", ref).d("prefactor", P).i("op", (long long) op); });
			else if(k <= 1)
				judge("derivative-within-rounding-of-fresh-object-at-knots", std::fabs(got - ref), (k == 0 ? K_VAL : K_DER / knot_hmin(T, q)) * EPS * std::fabs(P) * knot_scale(T, q), [&] { return J().d("x", q).i("order", k).d("used", got).d("prefactor_times_fresh", ref).d("prefactor", P); });
		}
		else if(u < 0.65)
		{
			double x1 = W.next_query();
			bool k1	  = W.is_knot;
			double x2 = W.next_query();
			bool k2	  = W.is_knot;
			double got = U.obj.Integrate(x1, x2);
			Interpolation F = fresh(op);
			double unit = F.Integrate(x1, x2);
			// rounding scale of the integral plus that of the two numbers compared (this clause is about the history, not about how accurate the integral
			// is - that is C08's business: a used object and a fresh one must agree, whatever they both return)
			double tol	= K_VAL * EPS * std::fabs(P) * integrate_scale(T, x1, x2) + 4 * EPS * std::max(std::fabs(got), std::fabs(P * unit));
			if(!k1 && !k2 && P == 1.0)
				require("integrate-bit-identical-to-fresh-object-off-knots", same_bits(got, unit), [&] { return J().d("x1", x1).d("x2", x2).d("used", got).d("fresh", unit).i("op", (long long) op); });
			else
				judge("integrate-within-rounding-of-prefactor-times-fresh-object", std::fabs(got - P * unit), tol, [&] { return J().d("x1", x1).d("x2", x2).d("used", got).d("fresh_unit", unit).d("prefactor", P); });
		}
		else if(u < 0.75)
		{
			double x1 = W.next_query();
			bool k1	  = W.is_knot;
			double x2 = W.next_query();
			bool k2	  = W.is_knot;
			if(x1 > x2)
				std::swap(x1, x2), std::swap(k1, k2);
			if(U.have_last && rng.coin(0.4))
				x1 = U.last_x1, x2 = U.last_x2, k1 = U.last_k1, k2 = U.last_k2;
			U.have_last = true, U.last_x1 = x1, U.last_x2 = x2, U.last_k1 = k1, U.last_k2 = k2;
			bool want_min = rng.coin();
			double got	  = want_min ? U.obj.Local_Minimum(x1, x2) : U.obj.Local_Maximum(x1, x2);
			Interpolation F = fresh(op);
			bool fresh_min = (P < 0) ? !want_min : want_min;
			double ref	   = P * (fresh_min ? F.Local_Minimum(x1, x2) : F.Local_Maximum(x1, x2));
			if(!k1 && !k2)
				require("local-extremum-bit-identical-to-fresh-object-off-knots", eqbits(got, ref), [&] { return J().d("x1", x1).d("x2", x2).i("minimum", want_min).d("used", got).d("prefactor_times_fresh", ref).d("prefactor", P).i("op", (long long) op); });
			else
			{
				double S = std::max(knot_scale(T, x1), knot_scale(T, x2));
				judge("local-extremum-within-rounding-of-fresh-object-at-knots", std::fabs(got - ref), K_VAL * EPS * std::fabs(P) * S, [&] { return J().d("x1", x1).d("x2", x2).i("minimum", want_min).d("used", got).d("prefactor_times_fresh", ref).d("prefactor", P); });
			}
		}
		else if(u < 0.83)
		{
			double q	 = W.next_query();
			bool kn		 = W.is_knot;
			unsigned got = U.obj.Locate(q);
			Interpolation F = fresh(op);
			unsigned ref = F.Locate(q);
			if(!kn)
				require("locate-identical-to-fresh-object-off-knots", got == ref, [&] { return J().d("x", q).i("used", got).i("fresh", ref).i("op", (long long) op); });
			else
			{
				bool ok = got <= (unsigned) (N - 2) && T.X[got] <= q && q <= T.X[got + 1] && (got == ref || got + 1 == ref || got == ref + 1);
				require("locate-at-knot-returns-an-adjacent-segment", ok, [&] { return J().d("x", q).i("used", got).i("fresh", ref); });
			}
		}
		else if(u < 0.88)
		{
			double gmin = U.obj.Global_Minimum(), gmax = U.obj.Global_Maximum();
			Interpolation F = fresh(op);
			double fmin = F.Global_Minimum(), fmax = F.Global_Maximum();
			double emin = P < 0 ? P * fmax : P * fmin, emax = P < 0 ? P * fmin : P * fmax;
			require("global-extrema-equal-prefactor-times-fresh-object", eqbits(gmin, emin) && eqbits(gmax, emax), [&] { return J().d("used_min", gmin).d("used_max", gmax).d("fresh_min", fmin).d("fresh_max", fmax).d("prefactor", P); });
		}
		else if(u < 0.93)
		{
			double f = gen_prefactor(rng);
			double np = U.P * f;
			if(rng.coin() && std::fabs(np) > 1e-32 && std::fabs(np) < 1e32)
				U.obj.Multiply(f), U.P = np;
			else
				U.obj.Set_Prefactor(f), U.P = f;
			if(rng.coin(0.3))
				U.obj.Set_Prefactor(1.0), U.P = 1.0;
		}
		else if(u < 0.97)
		{	// copy-construct a used object at this point of its history; the copy joins the pool
			Used c {Interpolation(U.obj), U.P};
			c.have_last = U.have_last, c.last_x1 = U.last_x1, c.last_x2 = U.last_x2, c.last_k1 = U.last_k1, c.last_k2 = U.last_k2;
			if(pool.size() < 5)
				pool.push_back(c);
			else
				pool[1 + rng.below(pool.size() - 1)] = c;
		}
		else if(u < 0.985)
		{	// a copy must not depend on its source staying alive: copy (construct or assign) from a heap object, destroy the source, let the allocator hand its
			// blocks out again with other contents, then the copy joins the pool (seeded change C09-r3m1 kept a raw pointer into the source's table)
			auto src = std::unique_ptr<Interpolation>(new Interpolation(construct(T)));
			src->Set_Prefactor(U.P);
			Used c {rng.coin() ? Interpolation(*src) : construct(T), U.P};
			c.obj = *src;
			src.reset();
			std::vector<std::vector<double>> junk(6, std::vector<double>((size_t) N, -1.0e300));
			double q	= W.next_query();
			double got	= c.obj.Interpolate(q);
			Interpolation F = fresh(op);
			double ref	= U.P * F.Interpolate(q);
			if(!W.is_knot)
				require("interpolate-bit-identical-to-fresh-object-off-knots", eqbits(got, ref), [&] { return J().d("x", q).d("copy_of_destroyed_source", got).d("prefactor_times_fresh", ref).d("prefactor", U.P).i("op", (long long) op); });
			if(pool.size() < 5)
				pool.push_back(c);
			else
				pool[1 + rng.below(pool.size() - 1)] = c;
			(void) junk;
		}
		else
		{	// assignment between used objects
			size_t a = rng.below(pool.size()), b = rng.below(pool.size());
			// a == b: assignment of an object to itself (through a reference, as it happens with pool[i] = pool[j]) must leave it as it is
			const Interpolation& src = pool[b].obj;
			pool[a].obj				 = src;
			pool[a].P				 = pool[b].P;
			pool[a].have_last = pool[b].have_last, pool[a].last_x1 = pool[b].last_x1, pool[a].last_x2 = pool[b].last_x2, pool[a].last_k1 = pool[b].last_k1, pool[a].last_k2 = pool[b].last_k2;
		}
	}
	uint64_t hunts = ticks("Locate.hunt") - hunts0;
	if(table_nontrivial(T, M) && hunts >= 1)
		mark_nontrivial();
	if(index % 97 == 0)
		sample(J().i("operations", (long long) nops).i("hunt_lookups_in_this_history", (long long) hunts).i("queries_at_knots", (long long) knot_q).i("queries_off_knots", (long long) offknot_q).i("objects_in_pool", (long long) pool.size()));
}

// ------------------------------------------------------------------------------------------------------------------
static void case_history_2d(Rng& rng, uint64_t index)
{
	int Nx = rng.irange(3, (index % 5 == 0) ? 200 : 24), Ny = rng.irange(3, (index % 7 == 0) ? 120 : 24);
	std::vector<double> x = gen_x(rng, Nx, (int) (index % N_XSTYLES)), y = gen_x(rng, Ny, (int) ((index / 6) % N_XSTYLES));
	std::vector<std::vector<double>> f(Nx, std::vector<double>(Ny));
	double mag = rng.loguni(1e-20, 1e20);
	for(auto& r : f)
		for(auto& v : r)
			v = mag * (rng.coin(0.1) ? rng.mag(1e-9, 1e3) : rng.uni(-1, 1));
	set_params(J().i("Nx", Nx).i("Ny", Ny).vec("x", x).vec("y", y).d("f00", f[0][0]));
	for(auto& r : f)
		for(double v : r)
			hash_param(v);
	hash_param(x[1]), hash_param(y[1]);
	mark_nontrivial();
	struct Used
	{
		Interpolation_2D obj;
		double P;
	};
	std::vector<Used> pool;
	pool.push_back({Interpolation_2D(x, y, f), 1.0});
	Interpolation_2D pristine(x, y, f);
	auto axis_query = [&](const std::vector<double>& X, int& pos, bool& on_line) {
		int n	 = (int) X.size();
		double u = rng.u01(), q;
		on_line	 = false;
		if(u < 0.6)
		{
			pos = std::min(std::max(pos + rng.irange(-3, 3), 0), n - 2);
			q	= X[pos] + rng.u01() * (X[pos + 1] - X[pos]);
		}
		else if(u < 0.8)
		{
			pos = rng.irange(0, n - 2);
			q	= X[pos] + rng.u01() * (X[pos + 1] - X[pos]);
		}
		else if(u < 0.92)
		{
			int k = rng.irange(0, n - 1);
			q	  = X[k];
			pos	  = std::min(k, n - 2);
		}
		else
		{
			double fz = rng.uni(0.01, 0.99);
			if(rng.coin())
				q = X[0] - fz * 1e-2 * (X[1] - X[0]), pos = 0;
			else
				q = X[n - 1] + fz * 1e-2 * (X[n - 1] - X[n - 2]), pos = n - 2;
			if(!(std::fabs(q - X[0]) < 1e-2 * (X[1] - X[0]) || std::fabs(q - X[n - 1]) < 1e-2 * (X[n - 1] - X[n - 2])))
				q = X[pos];
		}
		for(double k : X)
			if(k == q)
				on_line = true;
		return q;
	};
	int px = 0, py = 0;
	uint64_t nops = ctx().is_asan() ? 500 : 1500;
	for(uint64_t op = 0; op < nops; op++)
	{
		Used& U	 = pool[rng.below(pool.size())];
		double u = rng.u01();
		if(u < 0.75)
		{
			bool lx, ly;
			double qx = axis_query(x, px, lx), qy = axis_query(y, py, ly);
			double got = (op & 1) ? U.obj(qx, qy) : U.obj.Interpolate(qx, qy);
			Interpolation_2D F = (op % 8 == 0 || Nx * Ny < 400) ? Interpolation_2D(x, y, f) : Interpolation_2D(pristine);
			double ref = U.P * F.Interpolate(qx, qy);
			if(!lx && !ly)
				require("2d-interpolate-bit-identical-to-fresh-object-off-grid-lines", eqbits(got, ref), [&] { return J().d("x", qx).d("y", qy).d("used", got).d("prefactor_times_fresh", ref).d("prefactor", U.P).i("op", (long long) op); });
			else
			{
				// scale: the cells adjacent to the query
				int i = (int) (std::upper_bound(x.begin(), x.end(), qx) - x.begin()) - 1, j = (int) (std::upper_bound(y.begin(), y.end(), qy) - y.begin()) - 1;
				double S = 0;
				for(int a = std::max(i - 1, 0); a <= std::min(i + 1, Nx - 1); a++)
					for(int b = std::max(j - 1, 0); b <= std::min(j + 1, Ny - 1); b++)
						S = std::max(S, std::fabs(f[a][b]));
				judge("2d-interpolate-within-rounding-of-fresh-object-on-grid-lines", std::fabs(got - ref), K_VAL * EPS * std::fabs(U.P) * S, [&] { return J().d("x", qx).d("y", qy).d("used", got).d("prefactor_times_fresh", ref).d("prefactor", U.P); });
			}
		}
		else if(u < 0.82)
		{
			double gmin = U.obj.Global_Minimum(), gmax = U.obj.Global_Maximum();
			double fmin = pristine.Global_Minimum(), fmax = pristine.Global_Maximum();
			double P	= U.P;
			double emin = P < 0 ? P * fmax : P * fmin, emax = P < 0 ? P * fmin : P * fmax;
			require("2d-global-extrema-equal-prefactor-times-fresh-object", eqbits(gmin, emin) && eqbits(gmax, emax), [&] { return J().d("used_min", gmin).d("used_max", gmax).d("fresh_min", fmin).d("fresh_max", fmax).d("prefactor", P); });
		}
		else if(u < 0.90)
		{
			double fct = gen_prefactor(rng);
			double np  = U.P * fct;
			if(rng.coin() && std::fabs(np) > 1e-32 && std::fabs(np) < 1e32)
				U.obj.Multiply(fct), U.P = np;
			else
				U.obj.Set_Prefactor(fct), U.P = fct;
		}
		else if(u < 0.95)
		{
			Used c {Interpolation_2D(U.obj), U.P};
			if(pool.size() < 4)
				pool.push_back(c);
			else
				pool[1 + rng.below(pool.size() - 1)] = c;
		}
		else if(u < 0.965)
		{	// copy of a heap object whose source is destroyed and whose memory is handed out again (see the 1D case)
			auto src = std::unique_ptr<Interpolation_2D>(new Interpolation_2D(x, y, f));
			src->Set_Prefactor(U.P);
			Used c {rng.coin() ? Interpolation_2D(*src) : Interpolation_2D(x, y, f), U.P};
			c.obj = *src;
			src.reset();
			std::vector<std::vector<double>> junk(8, std::vector<double>((size_t) std::max(Nx, Ny), -1.0e300));
			bool lx, ly;
			double qx = axis_query(x, px, lx), qy = axis_query(y, py, ly);
			double got = c.obj.Interpolate(qx, qy);
			double ref = U.P * Interpolation_2D(x, y, f).Interpolate(qx, qy);
			if(!lx && !ly)
				require("2d-interpolate-bit-identical-to-fresh-object-off-grid-lines", eqbits(got, ref), [&] { return J().d("x", qx).d("y", qy).d("copy_of_destroyed_source", got).d("prefactor_times_fresh", ref).d("prefactor", U.P).i("op", (long long) op); });
			if(pool.size() < 4)
				pool.push_back(c);
			else
				pool[1 + rng.below(pool.size() - 1)] = c;
			(void) junk;
		}
		else
		{
			size_t a = rng.below(pool.size()), b = rng.below(pool.size());
			const Interpolation_2D& src = pool[b].obj;	 // a == b: self-assignment through a reference
			pool[a].obj					= src;
			pool[a].P					= pool[b].P;
		}
	}
	if(index % 97 == 0)
		sample(J().i("operations", (long long) nops));
}

static void setup()
{
	add_generator("histories_1d", ctx().count(2240, 120000), case_history);
	add_generator("histories_2d", ctx().count(1120, 40000), case_history_2d);
}
VERIF_MAIN("C09", setup)
