// C03 - adaptive Simpson meets its error request and is exact on quintics.
// Events observed: return value of Integrate(f,a,b,epsilon,depth), every abscissa at which the integrand is evaluated
// (wrapper), the text written to std::cout (non-convergence warning), the tick site Simpson.panel.
#include "integ_common.hpp"

#include "libphysica/Integration.hpp"

using namespace libphysica;
using namespace vf;
using namespace ig;

struct Run
{
	double value = 0;
	Trace tr;
	bool warned = false, any_output = false;
	uint64_t panels = 0;
};
// The sanitizer build observes memory and undefined behaviour, not volume: a request that exhausts depth 25 costs 2^27 evaluations (minutes under
// ASan, seconds otherwise), so that flavour caps the recursion depth of the generated requests at 15.
static int flavour_depth(int depth) { return ctx().is_asan() ? std::min(depth, 15) : depth; }
static Run run(const std::function<double(double)>& f, double a, double b, double eps, int depth)
{
	Run r;
	StreamCapture cap;
	// call history across two public functions: now and then Find_Epsilon is asked about ANOTHER integrand on the very same limits right before the call
	// under observation (what it learnt there must not leak into this integration)
	static uint64_t history_counter = 0;
	if(++history_counter % 7 == 0)
		(void) Find_Epsilon([](double x) { return 3.0 + std::cos(x); }, std::min(a, b), std::max(a, b), 1e-6);
	uint64_t t0 = ticks("Simpson.panel");
	r.value		= Integrate(traced(f, &r.tr), a, b, eps, depth);
	r.panels	= ticks("Simpson.panel") - t0;
	r.warned	= cap.out.str().find("did not converge") != std::string::npos;
	return r;
}

// clauses that hold for every integrand: swap, epsilon sign, equal limits, locations, count
static void universal_clauses(const std::function<double(double)>& f, double a, double b, double eps, int depth, const Run& r1)
{
	double maxcount = std::ldexp(1.0, depth + 2) + 1;
	require("evaluations-inside-closed-interval", r1.tr.inside(a, b), [&] { return J().d("a", a).d("b", b).d("xmin", r1.tr.xmin).d("xmax", r1.tr.xmax); });
	judge("evaluation-count-at-most-2^(depth+2)+1", (double) r1.tr.n, maxcount, [&] { return J().i("evaluations", (long long) r1.tr.n).i("depth", depth); });
	{
		// informational (the property states the bound, not the bookkeeping): three evaluations for the first panel and two more for every panel visited
		ClauseStat& cs = clause("evaluation-count-is-3-plus-2-per-panel(informational)");
		cs.n++;
		if(r1.tr.n == 3 + 2 * r1.panels)
			cs.nontrivial++;
	}
	Run r2 = run(f, b, a, eps, depth);
	require("swap-negates-bit-for-bit", same_bits(r2.value, -r1.value), [&] { return J().d("forward", r1.value).d("backward", r2.value); });
	require("evaluations-inside-closed-interval", r2.tr.inside(a, b), [&] { return J().d("a", b).d("b", a).d("xmin", r2.tr.xmin).d("xmax", r2.tr.xmax); });
	judge("evaluation-count-at-most-2^(depth+2)+1", (double) r2.tr.n, maxcount, [&] { return J().i("evaluations", (long long) r2.tr.n).i("depth", depth).str("orientation", "swapped"); });
	Run r3 = run(f, a, b, -eps, depth);
	require("epsilon-sign-irrelevant", same_bits(r3.value, r1.value) && r3.tr.n == r1.tr.n, [&] { return J().d("plus", r1.value).d("minus", r3.value).i("evals_plus", (long long) r1.tr.n).i("evals_minus", (long long) r3.tr.n); });
	double x0 = (cur().index & 1) ? a : b;
	Run r4	  = run(f, x0, x0, eps, depth);
	require("equal-limits-give-zero", r4.value == 0.0 && r4.tr.inside(x0, x0) && (double) r4.tr.n <= maxcount, [&] { return J().d("x", x0).d("value", r4.value).i("evaluations", (long long) r4.tr.n); });
	if(r1.tr.n >= 9 || depth == 0)
		mark_nontrivial();
}

// --- (1) polynomials of degree <= 5 ---------------------------------------------------------------
static void poly_case(Rng& rng, uint64_t)
{
	int deg = rng.irange(0, 5);
	if(rng.coin(0.5))
		deg = rng.irange(4, 5);
	std::vector<double> c(deg + 1);
	for(int k = 0; k <= deg; k++)
		c[k] = rng.coin(0.15) ? 0.0 : rng.mag(1e-3, 1e3);
	if(c[deg] == 0)
		c[deg] = rng.mag(1e-3, 1e3);
	double W  = rng.loguni(1e-6, 1e3);
	double lo = rng.uni(-1e3, 1e3 - W);
	if(rng.coin(0.3))
		lo = rng.uni(-1, 1) * W;   // around the origin
	lo		  = std::max(-1e3, std::min(lo, 1e3 - W));
	if(rng.coin(0.04))
	{
		// an interval that is narrow compared with its distance from the origin (width / |a| down to 1e-12): still thousands of doubles wide
		W  = rng.loguni(1e-6, 1e-4);
		lo = rng.sign() * rng.loguni(1e4, 1e6);
	}
	double hi = lo + W;
	double a = lo, b = hi;
	if(rng.coin())
		std::swap(a, b);
	double scale = poly_scale(c, a, b);
	int depth	 = rng.irange(0, 25);
	if(rng.coin(0.15))
		depth = 0;
	// Requests whose acceptance test is dominated by rounding noise recurse to the full depth: keep those shallow
	// (2^(depth+2) evaluations), anything else may use the whole range of the property.
	double eps_lo = 1e-18, eps_hi = 1e2;
	if(depth > 12)
	{
		eps_lo = std::max(1e-18, 1e-11 * scale);
		if(eps_lo > eps_hi)
		{
			depth  = rng.irange(0, 12);
			eps_lo = 1e-18;
		}
	}
	double eps = rng.loguni(eps_lo, eps_hi) * rng.sign();
	if(rng.coin(0.1))
		eps = rng.sign() * 1e2;	  // first acceptance test
	depth = flavour_depth(depth);
	set_params(J().vec("coefficients", c).d("a", a).d("b", b).d("epsilon", eps).i("depth", depth));
	for(double v : c)
		hash_param(v);
	hash_param(a), hash_param(b), hash_param(eps), hash_param_u(depth);
	auto f = [&c](double x) { return horner(c, x); };
	Run r  = run(f, a, b, eps, depth);
	ld ref = poly_integral_midpoint(c, a, b);
	double err = (double) fabsl((ld) r.value - ref);
	judge("polynomial-degree<=5-exact", err, 64 * EPS * scale, [&] { return J().d("got", r.value).d("ref", (double) ref).i("evaluations", (long long) r.tr.n).i("degree", deg); });
	universal_clauses(f, a, b, eps, depth, r);
	if((cur().index % 997) == 0 || ctx().only_index >= 0)
		sample(J().d("got", r.value).d("ref", (double) ref).i("evaluations", (long long) r.tr.n).i("warned", r.warned));
}

// --- (2) estimator-regular families ---------------------------------------------------------------
static void regular_case(Rng& rng, uint64_t)
{
	Regular R = make_regular(rng);
	double I  = (double) R.exact;
	int depth;
	double eps;
	if(rng.coin(0.8))
	{
		eps	  = rng.loguni(1e-14, 1e-1) * I;
		depth = rng.coin(0.5) ? 20 : rng.irange(6, 25);
	}
	else
	{
		eps	  = rng.loguni(1e-18, 1e2);
		depth = rng.irange(0, 11);
	}
	eps = std::min(1e2, std::max(1e-18, eps)) * rng.sign();
	double a = R.a, b = R.b;
	bool swapped = rng.coin(0.3);
	if(swapped)
		std::swap(a, b);
	depth = flavour_depth(depth);
	set_params(J().str("family", R.name()).d("a", a).d("b", b).d("p1", R.p1).d("p2", R.p2).d("ratio_f4", R.ratio).d("epsilon", eps).i("depth", depth));
	hash_param_u(R.family), hash_param(a), hash_param(b), hash_param(R.p1), hash_param(R.p2), hash_param(eps), hash_param_u(depth);
	if(!(R.ratio <= 4.0) || !std::isfinite(I) || !(I > 0))
	{
		count_outside("error-at-most-4eps-on-regular-integrands");
		return;
	}
	Run r = run(R.f, a, b, eps, depth);
	ld ref = swapped ? -R.exact : R.exact;
	if(depth < simpson_depth_needed(R.b - R.a, R.f4max, eps))
		count_outside("error-at-most-4eps-on-regular-integrands");
	else
	{
		double err = (double) fabsl((ld) r.value - ref);
		judge("error-at-most-4eps-on-regular-integrands", err, 4 * std::fabs(eps) + 64 * EPS * I, [&] { return J().d("got", r.value).d("ref", (double) ref).i("evaluations", (long long) r.tr.n); });
	}
	universal_clauses(R.f, a, b, eps, depth, r);
	if((cur().index % 499) == 0 || ctx().only_index >= 0)
		sample(J().d("got", r.value).d("ref", (double) ref).i("evaluations", (long long) r.tr.n).i("warned", r.warned));
}

// --- (2b) quartic splines: f'''' piecewise constant with values in [m,4m] (the statement's class, not smooth) ------
// f(x) = sum_j dv_j (x-t_j)_+^4/24 with v_0=dv_0 and v_j = v_{j-1}+dv_j in [m,4m]; exact integral sum_j dv_j (b-t_j)_+^5/120.
static void spline_case(Rng& rng, uint64_t)
{
	int nb	 = rng.irange(2, 60);
	double W = rng.loguni(1e-2, 1e1), a = rng.uni(-3, 3), b = a + W;
	double m = rng.loguni(1e-2, 1e2);
	std::vector<double> t(nb), dv(nb);
	t[0] = a - rng.uni(0.0, 0.5) * W;
	for(int j = 1; j < nb; j++)
		t[j] = rng.uni(a, b);
	std::sort(t.begin() + 1, t.end());
	double v = 0;
	for(int j = 0; j < nb; j++)
	{
		double nv = m * rng.uni(1.0, 4.0);
		if(rng.coin(0.5))
			nv = m * (rng.coin() ? 1.0 : 4.0);	 // extreme values
		dv[j] = nv - v;
		v	  = v + dv[j];
	}
	// additional cubic so that f is not tiny at the left end (does not change f'''')
	double c0 = rng.uni(0.0, 1.0) * m * std::pow(W, 4) / 24, c1 = rng.uni(-1, 1) * m * std::pow(W, 3) / 6;
	auto f = [=](double x) {
		ld s = c0 + (ld) c1 * ((ld) x - a);
		for(int j = 0; j < nb; j++)
		{
			ld u = (ld) x - t[j];
			if(u > 0)
				s += (ld) dv[j] * u * u * u * u / 24;
		}
		return (double) s;
	};
	// running values of f'''' must stay inside [m,4m] (rounding of the partial sums included)
	double vmin = INFINITY, vmax = 0, run_v = 0;
	for(int j = 0; j < nb; j++)
	{
		run_v += dv[j];
		vmin = std::min(vmin, run_v), vmax = std::max(vmax, run_v);
	}
	ld exact = (ld) c0 * W + (ld) c1 * W * W / 2, L1 = 0;
	for(int j = 0; j < nb; j++)
	{
		ld u = (ld) b - t[j], u0 = std::max((ld) 0, (ld) a - t[j]);
		exact += (ld) dv[j] * (u * u * u * u * u - u0 * u0 * u0 * u0 * u0) / 120;
	}
	// integral of |f|: f may change sign because of the cubic part; bound it by sampling |f| (composite trapezoid, only a scale)
	{
		int n = 400;
		for(int i = 0; i <= n; i++)
			L1 += ((i == 0 || i == n) ? 0.5L : 1.0L) * fabsl((ld) f(a + W * i / n));
		L1 *= (ld) W / n;
	}
	double eps = rng.loguni(1e-9, 1e-1) * (double) L1;
	eps		   = std::min(1e2, std::max(1e-18, eps)) * rng.sign();
	int depth  = rng.coin(0.5) ? 20 : rng.irange(8, 25);
	depth = flavour_depth(depth);
	set_params(J().str("family", "quartic spline, f'''' piecewise constant").d("a", a).d("b", b).vec("breakpoints", t).vec("jumps_of_f4", dv).d("c0", c0).d("c1", c1).d("epsilon", eps).i("depth", depth));
	hash_param(a), hash_param(b), hash_param(eps), hash_param_u(depth), hash_param(t[nb - 1]), hash_param(dv[nb - 1]);
	if(!(vmax <= 4 * vmin) || !(vmin > 0))
	{
		count_outside("error-at-most-4eps-on-regular-integrands");
		return;
	}
	Run r = run(f, a, b, eps, depth);
	if(depth < simpson_depth_needed(b - a, vmax, eps))
		count_outside("error-at-most-4eps-on-regular-integrands");
	else
	{
		double err = (double) fabsl((ld) r.value - exact);
		judge("error-at-most-4eps-on-regular-integrands", err, 4 * std::fabs(eps) + 64 * EPS * (double) L1, [&] { return J().d("got", r.value).d("ref", (double) exact).i("evaluations", (long long) r.tr.n).i("pieces", nb); }, "error-at-most-4eps-on-quartic-splines");
	}
	universal_clauses(f, a, b, eps, depth, r);
}

// --- (3)/(4) arbitrary, also rough, integrands: only the universal clauses ---------------------------
static void rough_case(Rng& rng, uint64_t)
{
	int kind = rng.irange(0, 7);
	double W = rng.loguni(1e-6, 1e3);
	double lo = rng.coin(0.5) ? rng.uni(-1, 1) * W : rng.uni(-1e3, 1e3 - W);
	lo		  = std::max(-1e3, std::min(lo, 1e3 - W));
	double hi = lo + W, c = rng.uni(lo, hi), s = rng.loguni(1e-3, 1.0) * W;
	uint64_t salt = rng.next();
	std::function<double(double)> f;
	const char* name;
	switch(kind)
	{
		case 0: name = "|x-c|", f = [=](double x) { return std::fabs(x - c); }; break;
		case 1: name = "step at c", f = [=](double x) { return x < c ? -1.0 : 2.0; }; break;
		case 2: name = "sqrt|x-c|", f = [=](double x) { return std::sqrt(std::fabs(x - c)); }; break;
		case 3: name = "sin(s/(|x-c|+s/50))", f = [=](double x) { return std::sin(s / (std::fabs(x - c) + s / 50)); }; break;
		case 4: name = "hash noise in [-1,1]", f = [=](double x) { return (double) (int64_t) mix(bits(x), salt) / 9.3e18; }; break;
		case 5: name = "narrow spike", f = [=](double x) { double u = (x - c) / (1e-3 * s); return 1.0 / (1.0 + u * u); }; break;
		case 6: name = "exp(-x^2/s^2)*x + sin(3x/s)", f = [=](double x) { return std::exp(-x * x / (s * s)) * x + std::sin(3 * x / s); }; break;
		default: name = "sawtooth", f = [=](double x) { return std::fmod(std::fabs(x - c), s / 7) - s / 14; }; break;
	}
	// integrands that are infinite or NaN exactly at a sample point of the first levels (an end point, the midpoint, a quarter point): the location and
	// count bounds hold for arbitrary integrands, also for these
	if(rng.coin(0.08))
	{
		double pts[5] = {lo, hi, 0.5 * (lo + hi), lo + 0.25 * (hi - lo), lo + 0.75 * (hi - lo)};
		double cs	  = pts[rng.below(5)];
		if(rng.coin())
			name = "1/sqrt|x-c|, c a dyadic sample point", f = [=](double x) { return 1.0 / std::sqrt(std::fabs(x - cs)); };
		else
			name = "NaN at a dyadic sample point", f = [=](double x) { return x == cs ? std::nan("") : std::cos(x); };
	}
	int depth  = rng.irange(0, 12);
	double eps = rng.loguni(1e-18, 1e2) * rng.sign();
	if(rng.coin(0.2))
	{
		// deep recursion only with a request that rough integrands can meet within a bounded number of panels
		depth = rng.irange(13, 25);
		eps	  = rng.loguni(1e-6, 1e2) * W * rng.sign();
		eps	  = rng.sign() * std::min(1e2, std::max(1e-18, std::fabs(eps)));
		if(kind == 4 || kind == 1 || kind == 3 || kind == 7)
			depth = rng.irange(0, 14);
	}
	double a = lo, b = hi;
	if(rng.coin())
		std::swap(a, b);
	depth = flavour_depth(depth);
	set_params(J().str("integrand", name).d("a", a).d("b", b).d("c", c).d("s", s).d("epsilon", eps).i("depth", depth));
	hash_param_u(kind), hash_param(a), hash_param(b), hash_param(c), hash_param(s), hash_param(eps), hash_param_u(depth);
	Run r = run(f, a, b, eps, depth);
	universal_clauses(f, a, b, eps, depth, r);
	if((cur().index % 499) == 0 || ctx().only_index >= 0)
		sample(J().d("got", r.value).i("evaluations", (long long) r.tr.n).i("warned", r.warned));
}

// --- (4) re-entrancy: the integrand of one Integrate call itself calls Integrate with another depth (nested integrals are the library's own idiom,
// see Integrate_2D).  The evaluation-count bound and the location clause must hold for the outer and for every inner call.
static void nested_case(Rng& rng, uint64_t)
{
	bool outer_shallow = rng.coin();
	int d_out = outer_shallow ? rng.irange(0, 5) : rng.irange(9, 12), d_in = outer_shallow ? rng.irange(8, 14) : rng.irange(0, 3);
	double a = rng.uni(-2, 0), b = a + rng.uni(0.5, 3), c = rng.uni(-1, 1), d = c + rng.uni(0.5, 2);
	double kx = rng.uni(a, b), ky = rng.uni(c, d);	 // kinks: neither level converges early
	double eps_out = rng.loguni(1e-16, 1e-12), eps_in = rng.loguni(1e-16, 1e-12);
	set_params(J().d("a", a).d("b", b).d("c", c).d("d", d).i("outer_depth", d_out).i("inner_depth", d_in).d("outer_epsilon", eps_out).d("inner_epsilon", eps_in).d("kink_x", kx).d("kink_y", ky));
	hash_param(a), hash_param(b), hash_param(c), hash_param(d), hash_param_u(d_out * 100 + d_in), hash_param(kx), hash_param(ky);
	mark_nontrivial();
	uint64_t outer_evals = 0, inner_calls = 0, worst_inner = 0;
	bool inner_inside = true, outer_inside = true;
	std::function<double(double)> outer = [&](double x) {
		outer_evals++;
		if(!(x >= a && x <= b))
			outer_inside = false;
		uint64_t n = 0;
		std::function<double(double)> inner = [&](double y) {
			n++;
			if(!(y >= c && y <= d))
				inner_inside = false;
			return (1 + std::fabs(y - ky)) * (1 + 0.1 * x);
		};
		StreamCapture cap2;
		double v = Integrate(inner, c, d, eps_in, d_in);
		inner_calls++;
		worst_inner = std::max(worst_inner, n);
		return v * (1 + std::fabs(x - kx));
	};
	StreamCapture cap;
	double got = Integrate(outer, a, b, eps_out, d_out);
	// exact value: int (1+|y-ky|) dy * int (1+0.1x)(1+|x-kx|) dx
	auto Iabs = [](ld lo, ld hi, ld k) { return (hi - lo) + ((k - lo) * (k - lo) + (hi - k) * (hi - k)) / 2; };
	ld Iy = Iabs(c, d, ky);
	auto P = [&](ld x, ld sgn) {   // antiderivative of (1+0.1x)(1+sgn(x-kx))
		ld A = 1 - sgn * kx;
		return A * x + (0.1L * A + sgn) * x * x / 2 + 0.1L * sgn * x * x * x / 3;
	};
	ld Ix = (P(kx, -1) - P(a, -1)) + (P(b, 1) - P(kx, 1));
	ld exact = Iy * Ix;
	auto det = [&] { return J().d("got", got).d("exact", (double) exact).i("outer_evaluations", (long long) outer_evals).i("inner_calls", (long long) inner_calls).i("largest_inner_evaluation_count", (long long) worst_inner); };
	judge("nested-outer-evaluation-count-at-most-2^(depth+2)+1", (double) outer_evals, std::ldexp(1.0, d_out + 2) + 1, det);
	judge("nested-inner-evaluation-count-at-most-2^(depth+2)+1", (double) worst_inner, std::ldexp(1.0, d_in + 2) + 1, det);
	require("evaluations-inside-closed-interval", outer_inside && inner_inside, det);
	// accuracy: the kinks limit what a shallow level can reach; a deep level resolves its kink to 2^-depth of the interval (error ~ h^2 * jump in slope)
	double h_out = (b - a) * std::ldexp(1.0, -d_out), h_in = (d - c) * std::ldexp(1.0, -d_in);
	double tol = (double) fabsl(exact) * (4 * (h_out * h_out + h_in * h_in) + 1e-9);
	judge("nested-integral-value", (double) fabsl((ld) got - exact), tol, det);
}

// --- (4b) the inner integral runs over [c, u(x)] with u(a) = c: at the outer end point the inner call has equal limits and returns through its shortcut
// while the outer integration is still running (seeded change C03-r7m1 kept the recursion depth in a file-static and left the inner one installed there)
static void nested_triangle_case(Rng& rng, uint64_t)
{
	bool outer_shallow = rng.coin();
	int d_out = outer_shallow ? rng.irange(0, 5) : rng.irange(9, 12), d_in = outer_shallow ? rng.irange(8, 14) : rng.irange(0, 3);
	double a = rng.uni(-2, 0), b = a + rng.uni(0.5, 3), c = rng.uni(-1, 1), d = c + rng.uni(0.5, 2);
	double ky = rng.uni(c, d);
	bool at_b = rng.coin(0.3);	 // the empty inner range at the upper instead of the lower outer limit
	double eps_out = rng.loguni(1e-16, 1e-12), eps_in = rng.loguni(1e-16, 1e-12);
	set_params(J().d("a", a).d("b", b).d("c", c).d("d", d).i("outer_depth", d_out).i("inner_depth", d_in).d("outer_epsilon", eps_out).d("inner_epsilon", eps_in).d("kink_y", ky).i("empty_inner_range_at_b", at_b));
	hash_param(a), hash_param(b), hash_param(c), hash_param(d), hash_param_u(d_out * 100 + d_in), hash_param(ky);
	mark_nontrivial();
	uint64_t outer_evals = 0, worst_inner = 0, empty_inner = 0;
	double s = (d - c) / (b - a);
	std::function<double(double)> outer = [&](double x) {
		outer_evals++;
		uint64_t n = 0;
		std::function<double(double)> inner = [&](double y) {
			n++;
			return 1 + std::fabs(y - ky);
		};
		double u = at_b ? c + s * (b - x) : c + s * (x - a);
		if(u == c)
			empty_inner++;
		StreamCapture cap2;
		double v = Integrate(inner, c, u, eps_in, d_in);
		worst_inner = std::max(worst_inner, n);
		return v;
	};
	StreamCapture cap;
	double got = Integrate(outer, a, b, eps_out, d_out);
	ld C = c, D = d, K = ky;
	ld exact = ((D - C) * (D - C) / 2 + (K - C) * (K - C) * (D - C) / 2 - (K - C) * (K - C) * (K - C) / 6 + (D - K) * (D - K) * (D - K) / 6) / (ld) s;
	auto det = [&] { return J().d("got", got).d("exact", (double) exact).i("outer_evaluations", (long long) outer_evals).i("largest_inner_evaluation_count", (long long) worst_inner).i("inner_calls_with_equal_limits", (long long) empty_inner); };
	require("nested-inner-call-with-equal-limits-was-made", empty_inner >= 1, det);
	judge("nested-outer-evaluation-count-at-most-2^(depth+2)+1", (double) outer_evals, std::ldexp(1.0, d_out + 2) + 1, det);
	judge("nested-inner-evaluation-count-at-most-2^(depth+2)+1", (double) worst_inner, std::ldexp(1.0, d_in + 2) + 1, det);
	double h_out = (b - a) * std::ldexp(1.0, -d_out), h_in = (d - c) * std::ldexp(1.0, -d_in);
	double tol = (double) fabsl(exact) * (4 * (h_out * h_out + h_in * h_in) + 1e-9);
	judge("nested-integral-value", (double) fabsl((ld) got - exact), tol, det);
}

// --- (1b) quartics and quintics that take the same value at both limits and at the midpoint, k + (x-a)(x-m)(x-b)(alpha x + beta) in product form, so that
// the three values are equal bit for bit (seeded change C03-r7m2 took that for a constant integrand and returned h f(m))
static void level_poly_case(Rng& rng, uint64_t)
{
	double W = rng.loguni(1e-3, 1e2), lo = rng.coin(0.4) ? -0.5 * W : rng.uni(-3, 2) * W, hi = lo + W;
	double m = 0.5 * (lo + hi);
	double k = rng.coin(0.3) ? 0.0 : rng.mag(1e-3, 1e3), al = rng.coin(0.2) ? 0.0 : rng.mag(1e-3, 1e3), be = rng.mag(1e-3, 1e3);
	if(al == 0 && rng.coin())
		al = 1.0;
	double a = lo, b = hi;
	if(rng.coin())
		std::swap(a, b);
	int depth  = flavour_depth(rng.irange(0, 12));
	double eps = rng.loguni(1e-16, 1e2) * rng.sign();
	set_params(J().d("a", a).d("b", b).d("level", k).d("alpha", al).d("beta", be).d("epsilon", eps).i("depth", depth));
	hash_param(a), hash_param(b), hash_param(k), hash_param(al), hash_param(be), hash_param_u(depth);
	mark_nontrivial();
	auto f = [=](double x) { return k + (x - lo) * (x - m) * (x - hi) * (al * x + be); };
	Run r  = run(f, a, b, eps, depth);
	// exact integral of the polynomial actually evaluated (the double m may differ from the true midpoint by half an ulp): 5-point Gauss-Legendre in long double
	static const ld GX[3] = {0.0L, 0.538469310105683091036314420700208805L, 0.906179845938663992797626878299392965L}, GW[3] = {0.568888888888888888888888888888888889L, 0.478628670499366468041291514835638193L, 0.236926885056189087514264040719917363L};
	ld mid = ((ld) lo + (ld) hi) / 2, hw = ((ld) hi - (ld) lo) / 2, sum = 0, mag = 0;
	auto fl = [&](ld x) { return (x - (ld) lo) * (x - (ld) m) * (x - (ld) hi) * ((ld) al * x + (ld) be); };
	for(int i = 0; i < 3; i++)
		for(int sg = (i == 0 ? 1 : -1); sg <= 1; sg += 2)
		{
			ld v = fl(mid + sg * hw * GX[i]);
			sum += GW[i] * v, mag += GW[i] * fabsl(v);
		}
	ld ref = ((ld) k * 2 + sum) * hw, scale = (fabsl((ld) k) * 2 + mag) * hw + fabsl((ld) lo) * 0;
	if(a > b)
		ref = -ref;
	// the product form loses relative accuracy eps |x| / |x - root| in each factor; on [lo,hi] that is covered by the magnitude of the cubic part at its extrema
	double xm = std::max(std::fabs(lo), std::fabs(hi));
	double cubic = (double) (hw * hw * hw) * (std::fabs(al) * xm + std::fabs(be)) * 2 * (double) hw;
	judge("polynomial-degree<=5-exact", (double) fabsl((ld) r.value - ref), 256 * EPS * ((double) scale + cubic * (1 + xm / (double) hw)), [&] { return J().d("got", r.value).d("ref", (double) ref).i("evaluations", (long long) r.tr.n).str("family", "level at a, midpoint and b"); });
	universal_clauses(f, a, b, eps, depth, r);
}

// --- (5) requests that exhaust a deep recursion everywhere: quartics and quintics with epsilon = 1e-18, which rounding noise in |S2 - S| never meets, so
// every panel is bisected down to the depth limit (2^(depth+2)+1 evaluations - the count bound is attained) and the result must still be exact.  The other
// generators keep such requests shallow for cost; this one runs a few of them at depth 16-18 (thorough: up to 21), in the sanitizer flavour at 16-17,
// because bookkeeping of pending panels (an explicit stack, a buffer sized for "typical" depths) only shows at these depths (seeded change C03-r3m1).
static void deep_case(Rng& rng, uint64_t index)
{
	int deg = 4 + (int) (index & 1);
	std::vector<double> c(deg + 1);
	for(auto& v : c)
		v = rng.mag(1e-2, 1e2);
	double W = rng.loguni(1e-2, 1e2), lo = rng.uni(-1, 1) * W, a = lo, b = lo + W;
	if(rng.coin())
		std::swap(a, b);
	int depth = ctx().is_asan() ? rng.irange(16, 17) : (ctx().thorough ? rng.irange(16, 21) : rng.irange(16, 18));
	double eps = 1e-18 * rng.sign();
	set_params(J().vec("coefficients", c).d("a", a).d("b", b).d("epsilon", eps).i("depth", depth));
	for(double v : c)
		hash_param(v);
	hash_param(a), hash_param(b), hash_param_u(depth);
	mark_nontrivial();
	auto f = [&c](double x) { return horner(c, x); };
	Run r  = run(f, a, b, eps, depth);
	ld ref = poly_integral_midpoint(c, a, b);
	double scale = poly_scale(c, a, b);
	judge("deep-recursion-polynomial-exact", (double) fabsl((ld) r.value - ref), 64 * EPS * scale, [&] { return J().d("got", r.value).d("ref", (double) ref).i("evaluations", (long long) r.tr.n).i("degree", deg); });
	universal_clauses(f, a, b, eps, depth, r);
	// informational: how close the run came to the count bound
	ClauseStat& cs = clause("deep-recursion-reached-the-depth-limit(informational)");
	cs.n++;
	if((double) r.tr.n >= std::ldexp(1.0, depth + 1))
		cs.nontrivial++;
}

static void setup()
{
	add_generator("deep_full_recursion", ctx().count(24, 240), deep_case, 900.0);
	add_generator("nested_reentrant", ctx().count(4500, 60000), nested_case);
	add_generator("nested_with_an_empty_inner_range", ctx().count(1500, 20000), nested_triangle_case);
	add_generator("polynomials_level_at_the_three_first_nodes", ctx().count(20000, 300000), level_poly_case);
	add_generator("polynomials", ctx().count(180000, 3000000), poly_case);
	add_generator("regular_families", ctx().count(48000, 800000), regular_case);
	add_generator("quartic_splines", ctx().count(9000, 150000), spline_case);
	add_generator("rough_integrands", ctx().count(24000, 400000), rough_case);
}
VERIF_MAIN("C03", setup)
