// C10, thorough tier - coverage-guided API-sequence fuzzing under AddressSanitizer + UndefinedBehaviorSanitizer (clang, libFuzzer).
//
// One fuzz input is one process life: a byte string is decoded into a sequence of calls on a small pool of Vector, Matrix, Interpolation and
// Interpolation_2D objects and on the guarded free functions, with sizes, indices and scalars taken from small tables that sit on both sides of every
// guard (index size-1 / size / size+1 / UINT_MAX, shapes equal / off by one, scalars 0, +-1, tiny, huge, NaN, inf).  The library ends a meaningless request
// with std::exit(EXIT_FAILURE); here `exit` is interposed and jumps back to the harness, which ends the input (a real process would be gone).  The oracle of this part of
// C10 is the memory clause and the outcome clause that need no knowledge of which requests are meaningful:
//   * no sanitizer report, no signal, no C++ exception, on any sequence (libFuzzer turns these into a crash artifact);
//   * an exit taken by the library carries a failure status (never 0).
// Which requests must return and which must exit is decided by the catalogue of harness/c10_guards.cpp, not here.
// Functions whose running time is not bounded by the size parameters of this decoder (root finding, minimisation, Monte Carlo) are left out.
#include <cmath>
#include <cstddef>
#include <cstdint>
#include <cstdio>
#include <cstdlib>
#include <csetjmp>
#include <dlfcn.h>
#include <functional>
#include <iostream>
#include <limits>
#include <sstream>
#include <string>
#include <vector>

#include "libphysica/Integration.hpp"
#include "libphysica/Linear_Algebra.hpp"
#include "libphysica/List_Manipulations.hpp"
#include "libphysica/Numerics.hpp"
#include "libphysica/Special_Functions.hpp"
#include "libphysica/Statistics.hpp"
#include "libphysica/Utilities.hpp"

using namespace libphysica;

namespace
{
jmp_buf exit_jump;	  // exit() is declared noexcept: it cannot throw, so the interposed exit leaves by longjmp (destructors of the abandoned frames do not run:
					  // the input is over, the leak is irrelevant and leak detection is off)
volatile int exit_code = 0;
bool in_target = false;
uint64_t n_inputs = 0, n_exits = 0, n_calls = 0, n_bad_status = 0;

struct Bytes
{
	const uint8_t* p;
	size_t n, i = 0;
	bool done() const { return i >= n; }
	unsigned u8() { return i < n ? p[i++] : 0; }
	unsigned below(unsigned k) { return k ? u8() % k : 0; }
};
const double SCALARS[] = {0.0, 1.0, -1.0, 0.5, 2.0, -3.25, 1e-300, 1e300, -1e-12, 7.0, 100.5, 0.01, std::numeric_limits<double>::quiet_NaN(), std::numeric_limits<double>::infinity(), -0.0, 170.0};
double scalar(Bytes& b) { return SCALARS[b.below(16)]; }
double nice(Bytes& b) { return SCALARS[b.below(12)]; }	 // finite, no NaN/inf
unsigned size_of(Bytes& b) { return b.below(7); }		 // 0..6
unsigned index_for(Bytes& b, unsigned size)
{
	switch(b.below(6))
	{
		case 0: return size ? size - 1 : 0;
		case 1: return size;
		case 2: return size + 1;
		case 3: return 0xFFFFFFFFu;
		case 4: return 0;
		default: return size ? b.below(size) : 0;
	}
}
volatile double sink = 0;
void use(double v) { sink = sink + (std::isfinite(v) ? v : 1.0); }
void use(const Vector& v)
{
	for(unsigned i = 0; i < v.Size(); i++)
		use(v[i]);
}
void use(const Matrix& M)
{
	for(unsigned i = 0; i < M.Rows(); i++)
		for(unsigned j = 0; j < M.Columns(); j++)
			use(M[i][j]);
}
void use(const std::vector<double>& v)
{
	for(double x : v)
		use(x);
}

void run(Bytes& b)
{
	std::vector<Vector> V;
	std::vector<Matrix> M;
	std::vector<Interpolation> I;
	std::vector<Interpolation_2D> I2;
	auto pickV = [&]() -> Vector& {
		if(V.empty())
			V.push_back(Vector(3, 1.0));
		return V[b.below((unsigned) V.size())];
	};
	auto pickM = [&]() -> Matrix& {
		if(M.empty())
			M.push_back(Identity_Matrix(2));
		return M[b.below((unsigned) M.size())];
	};
	auto keepV = [&](const Vector& v) {
		if(V.size() < 4)
			V.push_back(v);
		else
			V[b.below(4)] = v;
	};
	auto keepM = [&](const Matrix& m) {
		if(M.size() < 4)
			M.push_back(m);
		else
			M[b.below(4)] = m;
	};
	for(int step = 0; step < 48 && !b.done(); step++)
	{
		n_calls++;
		switch(b.below(64))
		{
			// ---------------- Vector
			case 0: keepV(Vector(size_of(b))); break;
			case 1: keepV(Vector(size_of(b), scalar(b))); break;
			case 2: {
				std::vector<double> e(size_of(b));
				for(auto& x : e)
					x = scalar(b);
				keepV(Vector(e));
				break;
			}
			case 3: {
				Vector& v = pickV();
				use(v[index_for(b, v.Size())]);
				break;
			}
			case 4: {
				Vector& v			= pickV();
				v[index_for(b, v.Size())] = scalar(b);
				break;
			}
			case 5: keepV(pickV() + pickV()); break;
			case 6: keepV(pickV() - pickV()); break;
			case 7: pickV() += pickV(); break;
			case 8: pickV() -= pickV(); break;
			case 9: use(pickV().Dot(pickV())); break;
			case 10: keepV(pickV().Cross(pickV())); break;
			case 11: use(pickV().Norm()); break;
			case 12: pickV().Normalize(); break;
			case 13: keepV(pickV().Normalized()); break;
			case 14: pickV().Resize(size_of(b)); break;
			case 15: pickV().Assign(size_of(b), scalar(b)); break;
			case 16: keepV(scalar(b) * pickV()); break;
			case 17: keepV(pickV() / scalar(b)); break;
			case 18: use(pickV() == pickV() ? 1.0 : 0.0); break;
			case 19: use(Angle(pickV(), pickV())); break;
			// ---------------- Matrix
			case 20: keepM(Matrix(size_of(b), size_of(b))); break;
			case 21: keepM(Matrix(size_of(b), size_of(b), scalar(b))); break;
			case 22: {
				unsigned r = size_of(b), c = size_of(b);
				std::vector<std::vector<double>> e(r, std::vector<double>(c));
				if(r > 1 && b.below(8) == 0)
					e[r - 1].resize(c + 1);	  // ragged
				for(auto& row : e)
					for(auto& x : row)
						x = scalar(b);
				keepM(Matrix(e));
				break;
			}
			case 23: {
				Matrix& A = pickM();
				unsigned i = index_for(b, A.Rows());
				const Matrix& C = A;
				if(b.below(2))
					use(C[i].size() ? C[i][0] : 0.0);
				else if(A.Columns() > 0)
					A[i][b.below(A.Columns())] = scalar(b);
				break;
			}
			case 24: keepM(pickM() + pickM()); break;
			case 25: keepM(pickM() - pickM()); break;
			case 26: pickM() += pickM(); break;
			case 27: pickM() -= pickM(); break;
			case 28: keepM(pickM() * pickM()); break;
			case 29: keepV(pickM() * pickV()); break;
			case 30: keepV(pickV() * pickM()); break;
			case 31: keepM(pickM().Transpose()); break;
			case 32: use(pickM().Trace()); break;
			case 33: use(pickM().Determinant()); break;
			case 34: keepM(pickM().Inverse()); break;
			case 35: {
				Matrix& A = pickM();
				keepM(A.Sub_Matrix((int) index_for(b, A.Rows()), (int) index_for(b, A.Columns())));
				break;
			}
			case 36: {
				Matrix& A = pickM();
				A.Delete_Row(index_for(b, A.Rows()));
				break;
			}
			case 37: {
				Matrix& A = pickM();
				A.Delete_Column(index_for(b, A.Columns()));
				break;
			}
			case 38: {
				Matrix& A = pickM();
				keepV(A.Return_Row(index_for(b, A.Rows())));
				break;
			}
			case 39: {
				Matrix& A = pickM();
				keepV(A.Return_Column(index_for(b, A.Columns())));
				break;
			}
			case 40: pickM().Resize((int) size_of(b), (int) size_of(b)); break;
			case 41: pickM().Assign((int) size_of(b), (int) size_of(b), scalar(b)); break;
			case 42: {
				Matrix& A = pickM();
				use((A.Symmetric() ? 1.0 : 0.0) + (A.Antisymmetric() ? 2.0 : 0.0) + (A.Diagonal() ? 4.0 : 0.0) + (A.Square() ? 8.0 : 0.0) + (A.Invertible() ? 16.0 : 0.0));
				break;
			}
			case 43: keepM(Outer_Vector_Product(pickV(), pickV())); break;
			case 44: keepM(Rotation_Matrix(nice(b), (int) b.below(5), pickV())); break;
			case 45: keepV(Spherical_Coordinates(nice(b), nice(b), nice(b), pickV())); break;
			case 46: keepM(Identity_Matrix(size_of(b))); break;
			// ---------------- Interpolation
			case 47: {
				unsigned n = size_of(b);
				std::vector<double> x(n), y(n);
				double x0 = nice(b), h = 0.5;
				for(unsigned k = 0; k < n; k++)
				{
					x[k] = x0 + h * k;
					y[k] = nice(b);
				}
				if(n > 1 && b.below(6) == 0)
					x[n - 1] = x[0];   // not strictly increasing
				if(b.below(8) == 0 && n > 0)
					y.pop_back();	// ragged
				Interpolation J(x, y);
				if(I.size() < 3)
					I.push_back(J);
				else
					I[b.below(3)] = J;
				break;
			}
			case 48:
				if(!I.empty())
				{
					Interpolation& J = I[b.below((unsigned) I.size())];
					std::vector<double> d = J.domain;
					double w = d[1] - d[0];
					static const double F[] = {0.0, 1.0, 0.5, -0.001, 1.001, -0.009, 1.009, -0.011, 1.011, -3.0, 7.0, 0.25};
					double q = d[0] + w * F[b.below(12)];
					switch(b.below(6))
					{
						case 0: use(J(q)); break;
						case 1: use(J.Derivative(q, b.below(5))); break;
						case 2: use(J.Integrate(q, d[0] + w * F[b.below(12)])); break;
						case 3: use(J.Local_Minimum(q, d[0] + w * F[b.below(12)])); break;
						case 4: use(J.Local_Maximum(q, d[0] + w * F[b.below(12)])); break;
						default: use((double) J.Locate(q)); break;
					}
				}
				break;
			case 49:
				if(!I.empty())
				{
					Interpolation& J = I[b.below((unsigned) I.size())];
					if(b.below(2))
						J.Set_Prefactor(nice(b));
					else
						J.Multiply(nice(b));
					use(J.Global_Minimum() + J.Global_Maximum());
				}
				break;
			case 50: {
				unsigned nx = size_of(b), ny = size_of(b);
				std::vector<double> x(nx), y(ny);
				for(unsigned k = 0; k < nx; k++)
					x[k] = 1.0 + k;
				for(unsigned k = 0; k < ny; k++)
					y[k] = -2.0 + 0.25 * k;
				std::vector<std::vector<double>> f(nx, std::vector<double>(ny, 1.0));
				if(nx > 0 && b.below(8) == 0)
					f[0].resize(ny + 1);
				for(auto& row : f)
					for(auto& v : row)
						v = nice(b);
				Interpolation_2D J(x, y, f);
				if(I2.size() < 2)
					I2.push_back(J);
				else
					I2[b.below(2)] = J;
				break;
			}
			case 51:
				if(!I2.empty())
				{
					Interpolation_2D& J = I2[b.below((unsigned) I2.size())];
					static const double F[] = {0.0, 1.0, 0.5, -0.005, 1.005, -0.02, 1.02, 9.0};
					double qx = J.domain[0][0] + (J.domain[0][1] - J.domain[0][0]) * F[b.below(8)], qy = J.domain[1][0] + (J.domain[1][1] - J.domain[1][0]) * F[b.below(8)];
					use(J(qx, qy));
				}
				break;
			// ---------------- guarded free functions
			case 52: use(Factorial(b.below(4) == 0 ? 165 + b.below(10) : b.below(30))); break;
			case 53: use(Binomial_Coefficient((int) b.below(40) - 3, (int) b.below(40) - 3)); break;
			case 54: use(GammaP(scalar(b), scalar(b)) + GammaQ(nice(b), nice(b))); break;
			case 55: use(Inv_GammaP(nice(b), nice(b))); break;
			case 56: use(Inv_Erf(nice(b))); break;
			case 57: {
				double x = nice(b), p = nice(b);
				switch(b.below(8))
				{
					case 0: use(PDF_Uniform(x, p, nice(b)) + CDF_Uniform(x, p, nice(b))); break;
					case 1: use(PDF_Gauss(x, p, nice(b)) + CDF_Gauss(x, p, nice(b))); break;
					case 2: use(PMF_Binomial(b.below(12), p, b.below(14)) + CDF_Binomial(b.below(12), p, b.below(14))); break;
					case 3: use(PMF_Poisson(p, b.below(30)) + CDF_Poisson(p, b.below(30))); break;
					case 4: use(PDF_Chi_Square(x, p) + CDF_Chi_Square(x, p)); break;
					case 5: use(PDF_Exponential(x, p) + CDF_Exponential(x, p)); break;
					case 6: use(PDF_Maxwell_Boltzmann(x, p) + CDF_Maxwell_Boltzmann(x, p)); break;
					default: use(Quantile_Gauss(x, p, nice(b)) + Inv_CDF_Poisson(b.below(20), x)); break;
				}
				break;
			}
			case 58: use(Linear_Space(nice(b), nice(b), b.below(12))); break;
			case 59: use(Log_Space(std::fabs(nice(b)) + 1e-3, std::fabs(nice(b)) + 1e-3, b.below(12))); break;
			case 60: {
				std::vector<double> l(size_of(b), 1.5);
				use(Sub_List(l, b.below(9), b.below(9) == 8 ? 0xFFFFFFFFu : b.below(9)));
				break;
			}
			case 61: {
				static const char* names[] = {"Gauss-Legendre", "Gauss-Kronrod", "Trapezoidal", "Tanh-Sinh", "Gauss-Legendre_2", "Adaptive-Simpson", "Gauss", "", "Vegas"};
				use(Integrate([](double x) { return x * x + 1.0; }, nice(b) < 1e10 ? -1.0 : 0.0, 1.0 + b.below(3), std::string(names[b.below(9)]), 0));
				break;
			}
			case 62: {
				std::vector<double> sorted(size_of(b));
				for(unsigned k = 0; k < sorted.size(); k++)
					sorted[k] = 0.5 * k;
				if(sorted.size() > 1 && b.below(6) == 0)
					std::swap(sorted[0], sorted[1]);
				use((double) Locate_Closest_Location(sorted, nice(b)));
				break;
			}
			default: {
				std::vector<double> fv(size_of(b), 1.0);
				std::vector<std::vector<double>> rule = Compute_Gauss_Legendre_Roots_and_Weights(1 + b.below(6), -1.0, 2.0);
				use(Integrate_Gauss_Legendre(fv, rule));
				break;
			}
		}
	}
}
}	// namespace

// The library leaves through std::exit; inside a fuzz input that ends the input instead of the process.
extern "C" void exit(int status)
{
	if(in_target)
	{
		exit_code = status;
		longjmp(exit_jump, 1);
	}
	using exit_fn = void (*)(int);
	static exit_fn real = (exit_fn) dlsym(RTLD_NEXT, "exit");
	real(status);
	abort();
}

extern "C" int LLVMFuzzerTestOneInput(const uint8_t* data, size_t size)
{
	Bytes b {data, size};
	std::ostringstream out, err;
	std::streambuf *o = std::cout.rdbuf(out.rdbuf()), *e = std::cerr.rdbuf(err.rdbuf());
	n_inputs++;
	in_target = true;
	volatile int bad = 0;
	if(setjmp(exit_jump) == 0)
		run(b);
	else
	{
		n_exits++;
		if(exit_code == 0)
			bad = 1;
	}
	in_target = false;
	std::cout.rdbuf(o);
	std::cerr.rdbuf(e);
	if(bad)
	{
		n_bad_status++;
		fprintf(stderr, "VERIF-FUZZ: the library called exit(0) on a request it refused\n");
		abort();
	}
	return 0;
}

// statistics for the evidence file (printed when the process ends normally after -runs=N)
namespace
{
struct Report
{
	~Report() { fprintf(stderr, "VERIF-FUZZ-STATS inputs=%llu calls=%llu exits=%llu\n", (unsigned long long) n_inputs, (unsigned long long) n_calls, (unsigned long long) n_exits); }
} report;
}	// namespace
