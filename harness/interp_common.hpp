// Shared by the interpolation drivers c01_interp.cpp, c08_interp_calculus.cpp, c09_interp_history.cpp:
// table generators (DESIGN.md section 4, C01 "Generators"), Steffen (1990) reference model in long double,
// small helpers.  Nothing in here calls libphysica.
#ifndef INTERP_COMMON_HPP
#define INTERP_COMMON_HPP

#include "verif.hpp"

#include <algorithm>
#include <cmath>
#include <vector>

namespace ic
{
using namespace vf;
typedef long double ld;

// ---------------------------------------------------------------------------------------------
// Tables
struct Table
{
	std::vector<double> x, y;	// as handed to the constructor
	std::vector<double> X, Y;	// as stored by the library (x*x_dim, y*f_dim, both products in double)
	double x_dim = -1.0, f_dim = -1.0;
	int xstyle = 0, ystyle = 0;
	bool uniform	= false;
	bool table_ctor = false;
	int N() const { return (int) X.size(); }
	double h(int j) const { return X[j + 1] - X[j]; }
	double S(int j) const { return std::max(std::fabs(Y[j]), std::fabs(Y[j + 1])); }	// ordinate scale of segment j
	// ordinate scale for a query handled by segment j; at a knot both neighbouring segments count
	double S_at(int j, double q) const
	{
		double s = S(j);
		if(q == X[j] && j > 0)
			s = std::max(s, S(j - 1));
		if(q == X[j + 1] && j + 2 < N())
			s = std::max(s, S(j + 1));
		return s;
	}
	int seg(double q) const	  // segment whose cubic a history-free look-up uses: largest j with X[j] <= q, clamped
	{
		int n = N();
		if(q <= X[0])
			return 0;
		if(q >= X[n - 1])
			return n - 2;
		int j = (int) (std::upper_bound(X.begin(), X.end(), q) - X.begin()) - 1;
		return std::min(std::max(j, 0), n - 2);
	}
	int knot_index(double q) const	 // index k with X[k]==q, or -1
	{
		auto it = std::lower_bound(X.begin(), X.end(), q);
		if(it != X.end() && *it == q)
			return (int) (it - X.begin());
		return -1;
	}
	double max_ratio() const
	{
		double r = 1;
		for(int j = 0; j + 2 < N(); j++)
		{
			double a = h(j), b = h(j + 1);
			r = std::max(r, std::max(a / b, b / a));
		}
		return r;
	}
};

static const int N_XSTYLES = 6, N_YSTYLES = 12;
inline const char* xstyle_name(int s)
{
	static const char* n[] = {"uniform", "geometric", "wild(1e-4.5..1e4.5)", "mild", "alternating-tiny-huge", "clustered"};
	return n[s % N_XSTYLES];
}
inline const char* ystyle_name(int s)
{
	static const char* n[] = {"magnitudes-1e-20..1e20", "uniform(-1,1)", "plateau", "spike", "small-mixed-sign", "strictly-monotone", "line(rounded)", "parabola(rounded)", "sine", "constant", "staircase", "monotone-then-noise"};
	return n[s % N_YSTYLES];
}

inline std::vector<double> gen_x(Rng& rng, int N, int style)
{
	std::vector<double> x(N);
	double x0 = rng.coin(0.25) ? 0.0 : rng.mag(1e-2, 1e6);
	if(rng.coin(0.25))
		x0 = -rng.loguni(1e-2, 1e2);   // domain straddling the origin is likely
	x[0]		 = x0;
	double h0	 = rng.loguni(1e-3, 1e3);
	double r	 = std::exp(rng.uni(-1, 1) * std::min(std::log(3.0), std::log(1e10) / N));
	double ratio = rng.loguni(1e3, 2.4e8);
	double hg	 = h0;
	for(int i = 1; i < N; i++)
	{
		double h;
		switch(style % N_XSTYLES)
		{
			case 0: h = h0; break;
			case 1:
				h = hg;
				hg *= r;
				break;
			case 2: h = rng.loguni(3.2e-5, 3.1e4); break;
			case 3: h = rng.loguni(0.1, 10); break;
			case 4: h = h0 * 1e-3 * ((i & 1) ? ratio : 1.0) * rng.uni(0.75, 1.5); break;
			default: h = rng.coin(0.2) ? rng.loguni(1e-6, 1e-4) : rng.uni(0.5, 2.0); break;
		}
		double xn = x[i - 1] + h;
		while(!(xn - x[i - 1] >= 64 * ulp(std::max(std::fabs(xn), std::fabs(x[i - 1])))))
		{
			h *= 2;
			xn = x[i - 1] + h;
		}
		x[i] = xn;
	}
	// a regular grid with local refinement: m consecutive knots moved into the interval before them, so that the first and the last interval (and the mean
	// spacing) are still those of the regular grid (seeded change C01-r7m2 took such tables for equidistant and computed the interval index directly)
	if(style % N_XSTYLES == 0 && N >= 7 && rng.coin(0.3))
	{
		int m = rng.irange(2, std::min(20, N - 4)), j = rng.irange(1, N - 3 - m);
		std::vector<double> frac(m);
		for(auto& f : frac)
			f = rng.uni(0.05, 0.95);
		std::sort(frac.begin(), frac.end());
		bool ok = true;
		std::vector<double> moved = x;
		for(int k = 0; k < m; k++)
			moved[j + 1 + k] = x[j] + frac[k] * (x[j + 1] - x[j]);
		for(int i = 1; i < N; i++)
			ok = ok && (moved[i] - moved[i - 1] >= 64 * ulp(std::max(std::fabs(moved[i]), std::fabs(moved[i - 1]))));
		if(ok)
			x = moved;
	}
	return x;
}

inline std::vector<double> gen_y(Rng& rng, const std::vector<double>& x, int style)
{
	int N = (int) x.size();
	std::vector<double> y(N);
	double mag = rng.loguni(1e-20, 1e20);
	double A = rng.normal(), B = rng.normal(), C = rng.normal();
	double w = rng.uni(0.2, 2.5), ph = rng.uni(0, 6.28);
	int spike = rng.irange(0, N - 1);
	double acc = 0, dir = rng.sign();
	double L = x[N - 1] - x[0];
	for(int i = 0; i < N; i++)
	{
		double t = (x[i] - x[0]) / L;	// 0..1
		double v;
		switch(style % N_YSTYLES)
		{
			case 0: v = rng.mag(1e-20, 1e20) / mag; break;
			case 1: v = rng.uni(-1, 1); break;
			case 2: v = (i > N / 3 && i <= 2 * N / 3 + 1) ? 0.5 : rng.uni(-1, 1); break;
			case 3: v = (i == spike) ? 1e6 * dir : rng.uni(-1, 1); break;
			case 4: v = rng.uni(-1, 1) * std::pow(10.0, rng.uni(-6, 0)); break;
			case 5:
				acc += dir * rng.loguni(1e-6, 1.0);
				v = acc;
				break;
			case 6: v = A + B * (2 * t - 1); break;
			case 7: v = A + B * (2 * t - 1) + C * (2 * t - 1) * (2 * t - 1); break;
			case 8: v = std::sin(w * i + ph) + 0.01 * rng.uni(-1, 1); break;
			case 9: v = A; break;
			case 10:
				if(rng.coin(0.4))
					acc += dir * rng.loguni(1e-3, 1.0);
				v = acc;
				break;
			default:
				if(i < N / 2)
				{
					acc += dir * rng.loguni(1e-3, 1.0);
					v = acc;
				}
				else
					v = acc * rng.uni(-1, 1);
				break;
		}
		y[i] = v * mag;
		if(std::fabs(y[i]) > 1e22)
			y[i] = std::copysign(1e22, y[i]);
		if(y[i] != 0 && std::fabs(y[i]) < 1e-22)
			y[i] = std::copysign(1e-22, y[i]);
	}
	if(style % N_YSTYLES == 9 && rng.coin(0.3))
		std::fill(y.begin(), y.end(), 0.0);
	return y;
}

// N from 3 to nmax with emphasis on short tables; index-driven so that N=3,4,5 and every style pair occur early
inline int gen_N(Rng& rng, uint64_t index, int nmax)
{
	if(index % 16 == 0)
		return 3 + (int) ((index / 16) % 3);
	if(rng.coin(0.1))
		return rng.irange(std::min(60, nmax), nmax);
	if(rng.coin(0.3))
		return rng.irange(3, std::min(8, nmax));
	return rng.irange(3, std::min(40, nmax));
}

inline Table gen_table(Rng& rng, uint64_t index, int nmax = 300, bool allow_dims = true)
{
	Table T;
	int N	 = gen_N(rng, index, nmax);
	T.xstyle = (int) (index % N_XSTYLES);
	T.ystyle = (int) ((index / N_XSTYLES) % N_YSTYLES);
	if(rng.coin(0.3))
	{
		T.xstyle = rng.irange(0, N_XSTYLES - 1);
		T.ystyle = rng.irange(0, N_YSTYLES - 1);
	}
	T.x = gen_x(rng, N, T.xstyle);
	T.y = gen_y(rng, T.x, T.ystyle);
	if(allow_dims && rng.coin(0.2))
		T.x_dim = rng.loguni(1e-6, 1e6);
	if(allow_dims && rng.coin(0.2))
		T.f_dim = rng.loguni(1e-6, 1e6);
	T.table_ctor = rng.coin(0.3);
	T.X			 = T.x;
	T.Y			 = T.y;
	if(T.x_dim > 0)
		for(auto& v : T.X)
			v *= T.x_dim;
	if(T.f_dim > 0)
		for(auto& v : T.Y)
			v *= T.f_dim;
	T.uniform = (T.xstyle % N_XSTYLES == 0);
	return T;
}

inline J table_json(const Table& T)
{
	J j;
	j.i("N", T.N()).str("x_style", xstyle_name(T.xstyle)).str("y_style", ystyle_name(T.ystyle)).d("x_dim", T.x_dim).d("f_dim", T.f_dim).i("table_ctor", T.table_ctor);
	j.vec("x", T.x).vec("y", T.y);
	return j;
}
inline void hash_table(const Table& T)
{
	hash_param_u((uint64_t) T.N());
	for(int i = 0; i < T.N(); i++)
	{
		hash_param(T.X[i]);
		hash_param(T.Y[i]);
	}
}

// ---------------------------------------------------------------------------------------------
// Reference model: M. Steffen, Astron. Astrophys. 239, 443 (1990), evaluated in long double.
// Written in the conditional form of the paper (eqs. 11, 24-26), not in the sign-sum form of the library.
struct Steffen
{
	int N;
	std::vector<ld> x, y, h, s, p, dy, a, b;
	std::vector<char> active;	// limiter changed the parabolic slope at this knot
	int n_active_interior = 0;
	Steffen(const std::vector<double>& X, const std::vector<double>& Y)
	: N((int) X.size()), x(X.begin(), X.end()), y(Y.begin(), Y.end())
	{
		h.resize(N - 1);
		s.resize(N - 1);
		p.resize(N);
		dy.resize(N);
		active.assign(N, 0);
		for(int i = 0; i < N - 1; i++)
		{
			h[i] = x[i + 1] - x[i];
			s[i] = (y[i + 1] - y[i]) / h[i];
		}
		for(int i = 1; i < N - 1; i++)
		{
			p[i] = (s[i - 1] * h[i] + s[i] * h[i - 1]) / (h[i - 1] + h[i]);
			if(s[i - 1] * s[i] <= 0)
				dy[i] = 0;
			else
			{
				ld m  = std::min(fabsl(s[i - 1]), fabsl(s[i]));
				dy[i] = (fabsl(p[i]) > 2 * m) ? (s[i] > 0 ? 2 * m : -2 * m) : p[i];
			}
			active[i] = (dy[i] != p[i]);
			n_active_interior += active[i];
		}
		auto edge = [](ld pe, ld se) -> ld {
			if(pe * se <= 0)
				return 0;
			if(fabsl(pe) > 2 * fabsl(se))
				return 2 * se;
			return pe;
		};
		p[0]		  = s[0] * (1 + h[0] / (h[0] + h[1])) - s[1] * h[0] / (h[0] + h[1]);
		dy[0]		  = edge(p[0], s[0]);
		active[0]	  = (dy[0] != p[0]);
		int n		  = N - 1;
		p[n]		  = s[n - 1] * (1 + h[n - 1] / (h[n - 1] + h[n - 2])) - s[n - 2] * h[n - 1] / (h[n - 1] + h[n - 2]);
		dy[n]		  = edge(p[n], s[n - 1]);
		active[n]	  = (dy[n] != p[n]);
		a.resize(N - 1);
		b.resize(N - 1);
		for(int i = 0; i < N - 1; i++)
		{
			a[i] = (dy[i] + dy[i + 1] - 2 * s[i]) / (h[i] * h[i]);
			b[i] = (3 * s[i] - 2 * dy[i] - dy[i + 1]) / h[i];
		}
	}
	ld val(double q, int j) const
	{
		ld t = (ld) q - x[j];
		return ((a[j] * t + b[j]) * t + dy[j]) * t + y[j];
	}
	ld der(double q, int j, int k) const
	{
		ld t = (ld) q - x[j];
		if(k == 1)
			return (3 * a[j] * t + 2 * b[j]) * t + dy[j];
		if(k == 2)
			return 6 * a[j] * t + 2 * b[j];
		if(k == 3)
			return 6 * a[j];
		return 0;
	}
	// limiter inactive (slope == parabolic slope, with a safety margin) at both ends of segment j
	bool parabolic_segment(int j) const
	{
		auto inactive = [&](int i) {
			if(i == 0)
				return p[0] * s[0] > 0 && fabsl(p[0]) <= 2 * fabsl(s[0]) * (1 - 1e-9L);
			if(i == N - 1)
				return p[i] * s[i - 1] > 0 && fabsl(p[i]) <= 2 * fabsl(s[i - 1]) * (1 - 1e-9L);
			return s[i - 1] * s[i] > 0 && fabsl(p[i]) <= 2 * std::min(fabsl(s[i - 1]), fabsl(s[i])) * (1 - 1e-9L);
		};
		return inactive(j) && inactive(j + 1);
	}
};

// DESIGN 4.22: non-trivial = non-uniform spacing and limiter active at >= 1 interior knot (measured on the reference model)
inline bool table_nontrivial(const Table& T, const Steffen& R)
{
	bool nonuniform = false;
	for(int j = 0; j + 2 < T.N() && !nonuniform; j++)
		nonuniform = std::fabs(T.h(j) - T.h(j + 1)) > 1e-6 * std::max(T.h(j), T.h(j + 1));
	return nonuniform && R.n_active_interior >= 1;
}

inline double prev(double v) { return std::nextafter(v, -INFINITY); }
inline double next(double v) { return std::nextafter(v, INFINITY); }

// a random prefactor: positive, negative, tiny, huge (never 0)
inline double gen_prefactor(Rng& rng)
{
	switch(rng.irange(0, 7))
	{
		case 0: return 1e-30 * rng.uni(0.5, 2) * rng.sign();
		case 1: return 1e30 * rng.uni(0.5, 2) * rng.sign();
		case 2: return -1.0;
		case 3: return rng.mag(1e-3, 1e3);
		case 4: return -rng.loguni(1e-12, 1e12);
		case 5: return rng.loguni(1e-12, 1e12);
		case 6:
		{
			double v = rng.uni(-2, 2);
			return v == 0 ? 1.0 : v;
		}
		default: return rng.mag(1e-30, 1e30);
	}
}
// apply a random Set_Prefactor/Multiply step to obj, tracking the expected prefactor in P (kept within 1e-32..1e32)
template <class Obj>
inline void prefactor_step(Rng& rng, Obj& obj, double& P)
{
	double f = gen_prefactor(rng);
	if(f == 0)
		f = 1.0;
	double np = P * f;
	if(rng.coin(0.5) && std::fabs(np) > 1e-32 && std::fabs(np) < 1e32)
	{
		obj.Multiply(f);
		P = np;
	}
	else
	{
		obj.Set_Prefactor(f);
		P = f;
	}
}

}	// namespace ic
#endif
