// C13 - named 1D methods and nested multi-dimensional integrals agree with analysis (DESIGN.md section 4, C13).
// Events: return values of Integrate(f,a,b,method,param), Integrate_2D, Integrate_3D (both overloads); every argument handed to the integrand.
// Oracles: closed-form integrals (long double), error measured relative to the integral of |f|; argument i only ever receives values inside limit
// pair i; spherical overload: norm, polar cosine and azimuth of every vector inside the requested ranges and the closed-form value of a
// direction-dependent integrand (so that a swapped or misused angle changes the value at O(1)).
#include "integ_common.hpp"
#include "special_common.hpp"

#include "libphysica/Integration.hpp"

using namespace libphysica;
using namespace vf;
using namespace ig;

static const char* METHODS[6] = {"Gauss-Legendre", "Gauss-Kronrod", "Tanh-Sinh", "Gauss-Legendre_2", "Adaptive-Simpson", "Trapezoidal"};
static const char* KEY_AS	= "C13-adaptive-simpson-misses-1e-9";
static const char* KEY_TR	= "C13-trapezoidal-misses-1e-6";
static const char* KEY_GL	= "C13-fixed-order-gauss-legendre-misses-1e-9-near-poles";

static int pick_param(Rng& rng, int method, bool explicit_param)
{
	if(!explicit_param)
		return 0;
	switch(method)
	{
		case 1: return rng.irange(5, 15);	   // Gauss-Kronrod max depth (default 5)
		case 3: return rng.coin(0.1) ? rng.irange(500, 700) : rng.irange(30, 100);	   // number of Gauss-Legendre points (default 30); now and then a large order (seeded change C13-r7m3: factors that underflow from n ~ 520)
		default: return rng.irange(1, 50);	   // ignored by the other methods
	}
}

// one 1D call, both orientations, judged against exact / L1
static void judge_1d(Rng& rng, const std::function<double(double)>& f, double a, double b, ld exact, ld L1, int method, int param, bool regular_family, double max_f2, const std::function<J()>& pj, double rho = 0.0)
{
	Trace tr;
	StreamCapture cap;
	double got = Integrate(traced(f, &tr), a, b, std::string(METHODS[method]), param);
	double err = (double) (fabsl((ld) got - exact) / L1);
	char cl[96];
	auto det = [&] { return pj().str("method", METHODS[method]).i("method_parameter", param).d("got", got).d("exact", (double) exact).d("integral_of_abs", (double) L1).i("evaluations", (long long) tr.n); };
	require("integrand-evaluated-inside-limits", tr.inside(a, b), [&] { return det().d("xmin", tr.xmin).d("xmax", tr.xmax); });
	// The two fixed-order rules (30 points by default) converge like rho^(-2n) for an integrand that is analytic inside the Bernstein ellipse of
	// parameter rho; for the Lorentzian rho follows from its poles c +- i s.  Where rho^(-2n) > 1e-11 no n-point rule can promise 1e-9:
	// those requests are matched against recorded finding D27 (band (1e-9, 1e-6]), everything else is held to 1e-9.
	int n_fixed = (method == 0) ? 30 : (method == 3 ? (param == 0 ? 30 : param) : 0);
	bool fixed_rule_cannot = n_fixed > 0 && rho > 1.0 && std::pow(rho, -2.0 * n_fixed) > 1e-11;
	if(method <= 3 && fixed_rule_cannot)
	{
		ClauseStat& cs = clause("fixed-order-rule-beyond-its-convergence-radius(informational)");
		cs.n++;
		if(err > 1e-9 && err <= 1e-6)
			known_hit(KEY_GL, "fixed-order Gauss-Legendre rule: error between 1e-9 and 1e-6 for a Lorentzian whose poles are close to the interval", det().num("relative_error", err).num("rho", rho));
		snprintf(cl, sizeof cl, "%s-no-gross-error-near-poles", METHODS[method]);
		judge(cl, err, 1e-6, det, "C13-fixed-order-rule-gross-error");
	}
	else if(method <= 3)
	{
		snprintf(cl, sizeof cl, "%s-within-1e-9", METHODS[method]);
		judge(cl, err, 1e-9, det);
	}
	else if(method == 4)
	{
		if(regular_family)
			judge("Adaptive-Simpson-within-1e-9-on-estimator-regular-integrands", err, 1e-9, det);
		else
		{
			ClauseStat& cs = clause("Adaptive-Simpson-within-1e-9(informational)");
			cs.n++;
			// The finding: |S2 - S| is not a bound.  Its worst form is a coincidence S2 = S at the coarsest level (the whole interval, or its halves,
			// accepted after 5-16 evaluations): the result then carries the error of that coarse Simpson estimate, which for these families reaches 1e-3.
			// Beyond 1e-5 only such coarse-level acceptances are matched; an error above 1e-5 after more refinement, or above 1e-3 at all, is a violation.
			bool coarse_coincidence = err > 1e-5 && err <= 1e-3 && tr.n <= 16;
			if(err > 1e-9 && err <= 1e-5)
				known_hit(KEY_AS, "error between 1e-9 and 1e-5 of the integral of |f|", det().num("relative_error", err));
			else if(coarse_coincidence)
				known_hit(KEY_AS, "error between 1e-5 and 1e-3 of the integral of |f|, accepted at the coarsest level (at most 16 evaluations)", det().num("relative_error", err));
			judge("Adaptive-Simpson-no-gross-error", coarse_coincidence ? 0.0 : err, 1e-5, det, "C13-adaptive-simpson-gross-error");
		}
	}
	else
	{
		// a-priori bound of the composite trapezoidal rule after Boost's 12 refinements
		double w	 = std::fabs(b - a);
		bool apriori = (w / 4096) * (w / 4096) * w * max_f2 / 12 <= 1e-7 * (double) L1;
		if(apriori && max_f2 > 0)
			judge("Trapezoidal-within-1e-6-where-the-a-priori-bound-applies", err, 1e-6, det);
		else
		{
			ClauseStat& cs = clause("Trapezoidal-within-1e-6(informational)");
			cs.n++;
			if(err > 1e-6 && err <= 1e-5)
				known_hit(KEY_TR, "error between 1e-6 and 1e-5 of the integral of |f|", det().num("relative_error", err));
			judge("Trapezoidal-no-gross-error", err, 1e-5, det, "C13-trapezoidal-gross-error");
		}
	}
	// reversal = exact negation; equal limits = 0 without evaluation
	if(rng.coin(0.5))
	{
		Trace tr2;
		double rev = Integrate(traced(f, &tr2), b, a, std::string(METHODS[method]), param);
		judge("reversing-limits-negates", std::fabs(rev + got), 1e-12 * (double) L1 + 1e-300, [&] { return det().d("reversed", rev); });
	}
	if(rng.coin(0.2))
	{
		Trace tr3;
		double x  = rng.coin() ? a : rng.uni(a, b);
		double z  = Integrate(traced(f, &tr3), x, x, std::string(METHODS[method]), param);
		require("equal-limits-give-zero", z == 0.0, [&] { return det().d("x", x).d("value", z).i("evaluations_for_equal_limits", (long long) tr3.n); });
	}
}

// Bernstein-ellipse parameter of the Lorentzian 1/(1+((x-c)/s)^2) on [a,b]: poles at t0 = ((c-mid) +- i s)/hw in the mapped variable
static double lorentz_rho(const Closed& C)
{
	if(C.family != 1)
		return 0.0;
	double mid = 0.5 * (C.a + C.b), hw = 0.5 * (C.b - C.a);
	std::complex<double> t0((C.c - mid) / hw, C.s / hw);
	std::complex<double> r = t0 + std::sqrt(t0 * t0 - 1.0);
	double m = std::abs(r);
	return m >= 1 ? m : 1 / m;
}
static void case_closed_1d(Rng& rng, uint64_t index)
{
	int method = (int) (index % 6);
	int family = (int) ((index / 6) % 3);
	bool expl  = (index / 18) % 2;
	Closed C   = make_closed(rng, family);
	int param  = pick_param(rng, method, expl);
	bool rev   = rng.coin();
	double a = rev ? C.b : C.a, b = rev ? C.a : C.b;
	ld exact = rev ? -C.exact : C.exact;
	auto pj = [&] { return J().str("integrand", C.name()).d("a", a).d("b", b).d("k", C.k).d("omega", C.om).d("phase", C.ph).d("c", C.c).d("s", C.s); };
	set_params(pj().str("method", METHODS[method]).i("method_parameter", param));
	hash_param(a), hash_param(b), hash_param(C.k), hash_param(C.om), hash_param(C.ph), hash_param(C.c), hash_param(C.s), hash_param_u(method * 1000 + param);
	if(rev || C.sign_change)
		mark_nontrivial();
	judge_1d(rng, C.f, a, b, exact, C.L1, method, param, false, C.max_f2, pj, lorentz_rho(C));
	if(index % 1999 == 0)
		sample();
}
// estimator-regular families (C03) through the dispatcher: the algorithm's own error bound applies to "Adaptive-Simpson"
static void case_regular_1d(Rng& rng, uint64_t index)
{
	Regular R = make_regular(rng);
	bool rev  = rng.coin();
	double a = rev ? R.b : R.a, b = rev ? R.a : R.b;
	ld exact = rev ? -R.exact : R.exact;
	auto pj	 = [&] { return J().str("integrand", R.name()).d("a", a).d("b", b).d("p1", R.p1).d("p2", R.p2).d("f4_ratio", R.ratio); };
	set_params(pj().str("method", "Adaptive-Simpson"));
	hash_param(a), hash_param(b), hash_param(R.p1), hash_param(R.p2);
	if(rev)
		mark_nontrivial();
	judge_1d(rng, R.f, a, b, exact, R.exact, 4, 0, true, 0.0, pj);
	if(index % 1999 == 0)
		sample();
}
// narrow intervals far from the origin (relative width down to 1e-13): the reference is the driver's own long double Gauss-Legendre rule
static void case_narrow_1d(Rng& rng, uint64_t index)
{
	int method = (int) (index % 6);
	double a   = (index % 12 == 0) ? 1.0 : rng.sign() * rng.loguni(1e-2, 1e3);
	double rel = (index % 12 == 0) ? 1e-11 : rng.loguni(1e-13, 1e-3);
	double b   = a + std::fabs(a) * rel;
	// limits one to four representable numbers apart (seeded change C13-r6m3 returned 0 when no double lies strictly between the limits):
	// the integral is f(a)(b-a) to rounding and every method has to deliver it
	if(index % 12 == 1 || index % 12 == 7)
	{
		b = a;
		for(int u = 0, n = 1 + (int) ((index / 12) % 4); u < n; u++)
			b = std::nextafter(b, INFINITY);
		rel = (b - a) / std::fabs(a);
	}
	if(!(b > a))
		return;
	double k = rng.uni(-0.5, 0.5), om = rng.uni(0.1, 2), ph = rng.uni(0, 6);
	if(index % 12 == 0)
		k = -0.3, om = 0.7, ph = 0.0;
	std::function<double(double)> f = [=](double x) { return std::exp(k * x) * (2 + std::cos(om * x + ph)); };
	auto fl = [=](ld x) { return expl((ld) k * x) * (2 + cosl((ld) om * x + (ld) ph)); };
	ld exact = sp::gl_panel(fl, (ld) a, (ld) b, 16);
	bool rev = rng.coin(0.3);
	double a1 = rev ? b : a, b1 = rev ? a : b;
	auto pj = [&] { return J().str("integrand", "exp(k x)(2+cos(om x+ph))").d("a", a1).d("b", b1).d("k", k).d("omega", om).d("phase", ph).d("relative_width", rel); };
	set_params(pj().str("method", METHODS[method]));
	hash_param(a), hash_param(b), hash_param(k), hash_param(om), hash_param_u(method);
	mark_nontrivial();
	Trace tr;
	StreamCapture cap;
	double got = Integrate(traced(f, &tr), a1, b1, std::string(METHODS[method]), 0);
	ld want	   = rev ? -exact : exact;
	double err = (double) (fabsl((ld) got - want) / fabsl(exact));
	char cl[96];
	snprintf(cl, sizeof cl, "%s-within-%s-on-narrow-intervals", METHODS[method], method == 5 ? "1e-6" : "1e-9");
	// the integrand is positive and varies by < 1e-3 over the interval: every method must reach its accuracy; the abscissae are rounded to
	// doubles, which moves each by up to eps|a|, i.e. changes f by |f'/f| eps |a| <= 3 eps |a| relatively
	judge(cl, err, (method == 5 ? 1e-6 : 1e-9) + 8 * EPS * (1 + std::fabs(a)), [&] { return pj().str("method", METHODS[method]).d("got", got).d("reference", (double) want).i("evaluations", (long long) tr.n); });
	require("integrand-evaluated-inside-limits", tr.inside(a, b), [&] { return pj().d("xmin", tr.xmin).d("xmax", tr.xmax); });
}
// recorded witnesses of finding D16: fixed inputs re-executed on every run
struct Wit
{
	int method;
	int family;
	double a, b, k, om, ph, c, s;
};
static const Wit WITS[] = {
#include "c13_witnesses.inc"
};
static void case_witness(Rng& rng, uint64_t index)
{
	const Wit& w = WITS[index % (sizeof WITS / sizeof WITS[0])];
	Closed C;
	C.family = w.family, C.a = w.a, C.b = w.b, C.k = w.k, C.om = w.om, C.ph = w.ph, C.c = w.c, C.s = w.s;
	finish_closed(C);
	auto pj = [&] { return J().str("integrand", C.name()).d("a", C.a).d("b", C.b).d("k", C.k).d("omega", C.om).d("phase", C.ph).d("c", C.c).d("s", C.s).i("recorded_witness", (long long) index); };
	set_params(pj().str("method", METHODS[w.method]));
	hash_param_u(index);
	mark_nontrivial();
	judge_1d(rng, C.f, C.a, C.b, C.exact, C.L1, w.method, 0, false, C.max_f2, pj, lorentz_rho(C));
}

// ------------------------------------------------------------------------------------------------------------------
// nested 2D / 3D: three different factors on three different, non-overlapping limit pairs
static Closed axis_factor(Rng& rng, int family, double offset)
{
	Closed C;
	C.family = family;
	double w = rng.uni(0.3, 2.0);
	C.a		 = offset + rng.uni(0, 1);
	C.b		 = C.a + w;
	if(family == 0)
	{
		C.k	 = rng.uni(0.05, 0.3);
		C.om = rng.uni(0, 2 * M_PI / w);
		C.ph = rng.uni(0, 6);
	}
	else if(family == 1)
	{
		C.c = C.a + rng.uni(-1, 2);
		C.s = rng.uni(0.8, 3);
	}
	else
	{
		C.c = rng.uni(C.a, C.b);
		C.s = rng.uni(0.5, 2);
	}
	finish_closed(C);
	return C;
}
struct ArgRange
{
	double lo = INFINITY, hi = -INFINITY;
	uint64_t n = 0;
	void see(double v)
	{
		n++;
		lo = std::min(lo, v), hi = std::max(hi, v);
	}
	bool inside(double a, double b) const { return n == 0 || (lo >= std::min(a, b) && hi <= std::max(a, b)); }
};

static void case_nested(Rng& rng, uint64_t index)
{
	bool three = index % 2;
	// methods: all six in 2D; the four spectrally convergent ones in 3D (Adaptive-Simpson and Trapezoidal cost 1e8..1e10 evaluations when nested three deep)
	int method = three ? (int) ((index / 2) % 4) : (int) ((index / 2) % 6);
	int param  = (index / 12) % 2 ? pick_param(rng, method, true) : 0;
	if(method == 3 && param > 0)
		param = rng.irange(24, 40);
	// the three factor families in a random assignment to the axes, on the disjoint ranges [0,3], [10,13], [20,23] (in random axis order)
	int perm[3] = {0, 1, 2};
	for(int i = 2; i > 0; i--)
		std::swap(perm[i], perm[rng.below(i + 1)]);
	double offs[3] = {0.0, 10.0, 20.0};
	for(int i = 2; i > 0; i--)
		std::swap(offs[i], offs[rng.below(i + 1)]);
	Closed F[3];
	bool rev[3];
	for(int i = 0; i < 3; i++)
	{
		F[i]   = axis_factor(rng, perm[i], offs[i]);
		rev[i] = rng.coin(0.4);
	}
	if(method >= 4)
		for(int i = 0; i < 3; i++)
			if(F[i].family == 0)
			{
				F[i].om = 0;   // keep the 3-point estimate that scales the adaptive tolerance away from zero
				finish_closed(F[i]);
			}
	int dim = three ? 3 : 2;
	double lim[3][2];
	ld exact = 1, L1 = 1;
	for(int i = 0; i < dim; i++)
	{
		lim[i][0] = rev[i] ? F[i].b : F[i].a;
		lim[i][1] = rev[i] ? F[i].a : F[i].b;
		exact *= rev[i] ? -F[i].exact : F[i].exact;
		L1 *= F[i].L1;
	}
	J pj;
	pj.str("method", METHODS[method]).i("method_parameter", param).i("dimension", dim);
	for(int i = 0; i < dim; i++)
	{
		char k1[16], k2[16], k3[16];
		snprintf(k1, sizeof k1, "family_%d", i), snprintf(k2, sizeof k2, "from_%d", i), snprintf(k3, sizeof k3, "to_%d", i);
		pj.str(k1, F[i].name()).d(k2, lim[i][0]).d(k3, lim[i][1]);
		hash_param(lim[i][0]), hash_param(lim[i][1]), hash_param(F[i].om + F[i].c + F[i].s);
	}
	hash_param_u(method * 100 + param);
	set_params(pj);
	bool anyrev = false, anysign = false;
	for(int i = 0; i < dim; i++)
		anyrev |= rev[i], anysign |= F[i].sign_change;
	if(anyrev || anysign)
		mark_nontrivial();
	ArgRange ar[3];
	double got;
	StreamCapture cap;
	if(!three)
	{
		std::function<double(double, double)> f = [&](double x, double y) {
			ar[0].see(x), ar[1].see(y);
			return F[0].f(x) * F[1].f(y);
		};
		got = Integrate_2D(f, lim[0][0], lim[0][1], lim[1][0], lim[1][1], std::string(METHODS[method]), param);
	}
	else
	{
		std::function<double(double, double, double)> f = [&](double x, double y, double z) {
			ar[0].see(x), ar[1].see(y), ar[2].see(z);
			return F[0].f(x) * F[1].f(y) * F[2].f(z);
		};
		got = Integrate_3D(f, lim[0][0], lim[0][1], lim[1][0], lim[1][1], lim[2][0], lim[2][1], std::string(METHODS[method]), param);
	}
	double err = (double) (fabsl((ld) got - exact) / L1);
	auto det   = [&] { return J().d("got", got).d("product_of_1d_integrals", (double) exact).d("product_of_abs_integrals", (double) L1).i("evaluations", (long long) ar[0].n); };
	double tol = (method == 5) ? 3e-6 : (method == 4 ? 1e-5 : 1e-9 * dim);
	judge(three ? "integrate-3d-equals-product-of-1d-integrals" : "integrate-2d-equals-product-of-1d-integrals", err, tol, det);
	bool ok = true;
	for(int i = 0; i < dim; i++)
		ok = ok && ar[i].inside(lim[i][0], lim[i][1]) && ar[i].n > 0;
	require("each-argument-receives-the-variable-of-its-own-limits", ok, [&] {
		J j = det();
		for(int i = 0; i < dim; i++)
		{
			char k1[24], k2[24];
			snprintf(k1, sizeof k1, "arg%d_min_seen", i), snprintf(k2, sizeof k2, "arg%d_max_seen", i);
			j.d(k1, ar[i].lo).d(k2, ar[i].hi);
		}
		return j;
	});
	if(index % 499 == 0)
		sample(J().d("relative_error", err).i("evaluations", (long long) ar[0].n));
}

// spherical overload
static void case_spherical(Rng& rng, uint64_t index)
{
	int method = (int) (index % 4);
	int param  = (index / 4) % 2 ? pick_param(rng, method, true) : 0;
	if(method == 3 && param > 0)
		param = rng.irange(24, 40);
	double r1 = rng.coin(0.3) ? 0.0 : rng.uni(0.1, 2), r2 = r1 + rng.uni(0.3, 3);
	bool full = (index / 8) % 3 == 0;
	double c1 = -1, c2 = 1, p1 = 0, p2 = 2 * M_PI;
	if(!full)
	{
		c1 = rng.uni(-1, 0.8), c2 = rng.uni(c1 + 0.1, 1.0);
		p1 = rng.uni(0, 5), p2 = rng.uni(p1 + 0.2, std::min(p1 + 6.0, 2 * M_PI));
		// "all angular sub-ranges": also ranges that start below 0 or end above 2 pi (seeded change C13-r7m2 took sin(phi) from cos(phi) with the sign of
		// phi > pi)
		if(rng.coin(0.4))
			p1 = rng.uni(-6.0, 8.0), p2 = p1 + rng.uni(0.2, 6.0);
		if(rng.coin(0.3))
			std::swap(c1, c2);
		if(rng.coin(0.3))
			std::swap(p1, p2);
	}
	if(rng.coin(0.2))
		std::swap(r1, r2);
	double s = rng.uni(0.5, 2), al = full && rng.coin() ? 0.0 : rng.uni(-0.9, 0.9), be = full && al == 0 ? 0.0 : rng.uni(-0.45, 0.45);
	double ga = full && al == 0 ? 0.0 : rng.uni(-0.45, 0.45);	 // the integrand sees the sign of y as well: 1 + be cos(phi) + ga sin(phi)
	bool radial_only = (al == 0 && be == 0 && ga == 0);
	set_params(J().str("method", METHODS[method]).i("method_parameter", param).d("r1", r1).d("r2", r2).d("cos1", c1).d("cos2", c2).d("phi1", p1).d("phi2", p2).d("s", s).d("alpha", al).d("beta", be).d("gamma", ga));
	hash_param(r1), hash_param(r2), hash_param(c1), hash_param(c2), hash_param(p1), hash_param(p2), hash_param(s), hash_param(al), hash_param(be), hash_param_u(method * 100 + param);
	mark_nontrivial();
	// f(v) = g(|v|) (1 + al cos(theta)) (1 + be cos(phi)),  g(r) = exp(-r/s)(1 + r^2)
	ArgRange nr, cz, az;
	bool bad_vec = false;
	double rlo = std::min(r1, r2), rhi = std::max(r1, r2), clo = std::min(c1, c2), chi = std::max(c1, c2), plo = std::min(p1, p2), phi_hi = std::max(p1, p2);
	std::function<double(Vector)> f = [&](Vector v) {
		if(v.Size() != 3)
		{
			bad_vec = true;
			return 0.0;
		}
		double r = std::sqrt(v[0] * v[0] + v[1] * v[1] + v[2] * v[2]);
		nr.see(r);
		double c = r > 0 ? v[2] / r : 0.0;
		double ph = std::atan2(v[1], v[0]);
		if(ph < 0)
			ph += 2 * M_PI;
		if(r > 0)
			cz.see(c);
		if(r > 0 && std::fabs(c) < 1 - 1e-9)
		{
			// the representative of the azimuth in [lower limit, lower limit + 2 pi)
			double shifted = ph + 2 * M_PI * std::ceil((plo - 1e-9 - ph) / (2 * M_PI));
			az.see(shifted);
		}
		return std::exp(-r / s) * (1 + r * r) * (1 + al * c) * (1 + be * std::cos(ph) + ga * std::sin(ph));
	};
	StreamCapture cap;
	double got = Integrate_3D(f, r1, r2, c1, c2, p1, p2, std::string(METHODS[method]), param);
	// closed form
	ld R = sp::gl_composite([&](ld r) { return r * r * expl(-r / (ld) s) * (1 + r * r); }, rlo, rhi, 8, 16);
	if(r1 > r2)
		R = -R;
	ld Cc = ((ld) c2 - c1) + (ld) al * ((ld) c2 * c2 - (ld) c1 * c1) / 2;
	ld Pp = ((ld) p2 - p1) + (ld) be * (sinl((ld) p2) - sinl((ld) p1)) - (ld) ga * (cosl((ld) p2) - cosl((ld) p1));
	ld exact = R * Cc * Pp;
	ld L1	 = fabsl(R) * fabsl((ld) c2 - c1) * fabsl((ld) p2 - p1) * (1 + fabsl((ld) al)) * (1 + fabsl((ld) be) + fabsl((ld) ga));
	double err = (double) (fabsl((ld) got - exact) / L1);
	auto det   = [&] { return J().d("got", got).d("exact", (double) exact).i("evaluations", (long long) nr.n); };
	judge("spherical-overload-value", err, 3e-9, det);
	if(radial_only && full)
	{
		ld four_pi = 4 * acosl(-1.0L) * R;
		judge("spherical-shell-is-4pi-times-radial-integral", (double) (fabsl((ld) got - four_pi) / fabsl(four_pi)), 3e-9, [&] { return det().d("4pi_radial", (double) four_pi); });
		// the same shell with the angular ranges (and the method) left to the default arguments of the overload: the full sphere
		double got_default = Integrate_3D(f, r1, r2);
		judge("spherical-shell-with-default-angular-range", (double) (fabsl((ld) got_default - four_pi) / fabsl(four_pi)), 3e-9, [&] { return det().d("Integrate_3D(f,r1,r2)", got_default).d("4pi_radial", (double) four_pi); });
	}
	require("spherical-integrand-receives-3-vectors", !bad_vec && nr.n > 0, det);
	bool okr = nr.lo >= rlo * (1 - 8 * EPS) - 1e-300 && nr.hi <= rhi * (1 + 8 * EPS);
	require("spherical-vector-norm-within-radial-limits", okr, [&] { return det().d("norm_min", nr.lo).d("norm_max", nr.hi); });
	bool okc = cz.n == 0 || (cz.lo >= clo - 1e-14 && cz.hi <= chi + 1e-14);
	require("spherical-polar-cosine-within-limits", okc, [&] { return det().d("cos_min", cz.lo).d("cos_max", cz.hi); });
	bool okp = az.n == 0 || (az.lo >= plo - 1e-9 && az.hi <= phi_hi + 1e-9) || (phi_hi - plo >= 2 * M_PI - 1e-9);
	require("spherical-azimuth-within-limits", okp, [&] { return det().d("phi_min", az.lo).d("phi_max", az.hi); });
	if(index % 499 == 0)
		sample(J().d("relative_error", err));
}

static void case_unknown_method(Rng& rng, uint64_t index)
{
	static const char* bad[] = {"Gauss-Legendr", "Gauss-Legendre ", "gauss-legendre", "Tanh_Sinh", "Adaptive-Simpsons", "", "Trapezoid", "Gauss-Kronrod1", "Vega", "Monte Carlo"};
	std::string m = bad[index % 10];
	int which	  = (int) ((index / 10) % 3);
	set_params(J().str("method", m).i("entry_point", which));
	hash_param_u(index);
	mark_nontrivial();
	Outcome o = run_isolated([&](const std::function<void(const std::string&)>& send) {
		double v;
		if(which == 0)
			v = Integrate([](double x) { return x; }, 0.0, 1.0, m, 0);
		else if(which == 1)
			v = Integrate_2D([](double x, double y) { return x * y; }, 0.0, 1.0, 0.0, 1.0, m, 0);
		else
			v = Integrate_3D([](double x, double y, double z) { return x * y * z; }, 0.0, 1.0, 0.0, 1.0, 0.0, 1.0, m, 0);
		send(hexf(v));
	});
	(void) rng;
	if(o.kind == WATCHDOG)
	{
		inconclusive("watchdog on a rejected request");
		return;
	}
	expect_reject("unknown-method-name-terminates-with-diagnostic", o);
}

static void setup()
{
	add_generator("recorded_witnesses", sizeof WITS / sizeof WITS[0], case_witness);
	add_generator("closed_form_1d", ctx().count(14400, 2160000), case_closed_1d);
	add_generator("narrow_intervals_1d", ctx().count(4800, 720000), case_narrow_1d);
	add_generator("estimator_regular_adaptive_simpson", ctx().count(6000, 900000), case_regular_1d);
	add_generator("nested_2d_3d", ctx().count(960, 144000), case_nested, 600.0);
	add_generator("spherical_overload", ctx().count(480, 72000), case_spherical, 600.0);
	add_generator("unknown_method_names", ctx().count(30, 360), case_unknown_method);
}
VERIF_MAIN("C13", setup)
