// Helpers shared by the integration drivers C03, C12, C13, C14 (harness/c03_simpson.cpp, c12_gausslegendre.cpp,
// c13_methods.cpp, c14_montecarlo.cpp).  Nothing here calls libphysica: these are the recording wrappers and the
// long double reference formulas the oracles use.
#ifndef INTEG_COMMON_HPP
#define INTEG_COMMON_HPP

#include "verif.hpp"

#include <complex>
#include <functional>
#include <memory>

namespace ig
{
typedef long double ld;

// ---------------------------------------------------------------------------------------------
// Records where and how often a 1D integrand is evaluated.
struct Trace
{
	uint64_t n	= 0;
	double xmin = INFINITY, xmax = -INFINITY;
	bool nan_arg = false;
	void see(double x)
	{
		n++;
		if(std::isnan(x))
			nan_arg = true;
		if(x < xmin)
			xmin = x;
		if(x > xmax)
			xmax = x;
	}
	void reset() { *this = Trace(); }
	bool inside(double a, double b) const
	{
		double lo = std::min(a, b), hi = std::max(a, b);
		return n == 0 || (!nan_arg && xmin >= lo && xmax <= hi);
	}
};
inline std::function<double(double)> traced(const std::function<double(double)>& f, Trace* t)
{
	return [f, t](double x) {
		t->see(x);
		return f(x);
	};
}

// ---------------------------------------------------------------------------------------------
// Polynomial sum c_k x^k, k<=deg: exact integral over [a,b] from the Taylor shift about the midpoint (no cancellation
// between the two antiderivative values), and the scale |b-a| * sum (k+1)|c_k| m^k used by the rounding tolerance.
inline ld poly_integral_midpoint(const std::vector<double>& c, double a, double b)
{
	int deg = (int) c.size() - 1;
	ld mid = ((ld) a + (ld) b) / 2, hw = ((ld) b - (ld) a) / 2;
	// d_j = sum_k c_k C(k,j) mid^(k-j)
	std::vector<ld> d(deg + 1, 0.0L);
	for(int k = 0; k <= deg; k++)
	{
		ld binom = 1;	// C(k,j)
		for(int j = 0; j <= k; j++)
		{
			d[j] += (ld) c[k] * binom * powl(mid, k - j);
			binom = binom * (k - j) / (j + 1);
		}
	}
	ld I = 0;
	for(int j = deg - (deg % 2); j >= 0; j -= 2)	// even powers only
		I += 2 * d[j] * powl(hw, j + 1) / (j + 1);
	return I;
}
inline double poly_scale(const std::vector<double>& c, double a, double b)
{
	double m = std::max(std::fabs(a), std::fabs(b)), s = 0;
	for(size_t k = 0; k < c.size(); k++)
		s += (k + 1) * std::fabs(c[k]) * std::pow(m, (double) k);
	return std::fabs(b - a) * s;
}
inline double horner(const std::vector<double>& c, double x)
{
	double v = 0;
	for(int k = (int) c.size() - 1; k >= 0; k--)
		v = v * x + c[k];
	return v;
}

// ---------------------------------------------------------------------------------------------
// Estimator-regular families of C03 (fourth derivative of one sign, max|f''''|/min|f''''| <= 4 on the interval).
// exact = integral from a to b (a<b), also = integral of |f| because every member is positive.
struct Regular
{
	int family = 0;	  // 0 exp(wx), 1 cosh(wx), 2 (x+s)^-k, 3 x^p
	double a = 0, b = 1, p1 = 0, p2 = 0;
	double ratio = 1;	// max|f''''|/min|f''''| on [a,b] for the doubles actually used
	double f4max = 0;	// max|f''''| on [a,b]
	ld exact	 = 0;
	std::function<double(double)> f;
	std::string name() const
	{
		static const char* n[] = {"exp(w x)", "cosh(w x)", "(x+s)^-k", "x^p"};
		return n[family & 3];
	}
};
inline Regular make_regular(vf::Rng& rng)
{
	Regular R;
	R.family = rng.irange(0, 3);
	// target ratio of the fourth derivative, reaching up to the limit 4 of the property
	double rho = rng.coin(0.3) ? rng.uni(3.0, 3.999) : std::exp(rng.uni(std::log(1.0001), std::log(3.999)));
	double W   = rng.loguni(1e-3, 1e2);
	switch(R.family)
	{
		case 0: {
			double w = rng.sign() * std::log(rho) / W;
			double a = rng.uni(-1, 1) * std::min(1e3, 6.0 / std::fabs(w));	  // keeps exp(wx) finite and the interval inside [-1e3,1e3]
			R.a = a, R.b = a + W, R.p1 = w;
			ld wl = w;
			R.ratio = (double) expl(fabsl(wl) * ((ld) R.b - (ld) R.a));
			R.exact = expl(wl * R.a) * expm1l(wl * ((ld) R.b - (ld) R.a)) / wl;
			R.f		= [w](double x) { return std::exp(w * x); };
			R.f4max = (double) (powl(wl, 4) * std::max(expl(wl * R.a), expl(wl * R.b)));
			break;
		}
		case 1: {
			// cosh(wx): ratio = max cosh / min cosh over the interval
			double w = rng.loguni(1e-2, 1e1) / W;
			double a = rng.uni(-1.5, 0.5) * W;	 // interval may contain 0
			if(rng.coin(0.3))
				a = rng.uni(-1, 1) * std::min(1e3, 6.0 / w);
			double b = a + W;
			auto ratio_of = [&](double ww) {
				ld ca = coshl((ld) ww * a), cb = coshl((ld) ww * b);
				ld mx = std::max(ca, cb), mn = (a <= 0 && b >= 0) ? 1.0L : std::min(ca, cb);
				return (double) (mx / mn);
			};
			// shrink w until the ratio is inside the family
			for(int it = 0; it < 200 && ratio_of(w) > rho; it++)
				w *= 0.8;
			R.a = a, R.b = b, R.p1 = w;
			R.ratio = ratio_of(w);
			ld wl	= w;
			R.exact = 2 * coshl(wl * ((ld) a + (ld) b) / 2) * sinhl(wl * ((ld) b - (ld) a) / 2) / wl;
			R.f		= [w](double x) { return std::cosh(w * x); };
			R.f4max = (double) (powl(wl, 4) * std::max(coshl(wl * a), coshl(wl * b)));
			break;
		}
		case 2: {
			double k  = rng.coin(0.5) ? (double) rng.irange(1, 8) : rng.uni(0.5, 8.0);
			double u0 = rng.loguni(1e-3, 1e3);						   // a+s
			double q  = std::pow(rho, 1.0 / (k + 4.0));				   // (b+s)/(a+s)
			double s  = rng.uni(-0.5, 2.0) * u0;
			double a = u0 - s, b = a + u0 * (q - 1.0);
			R.a = a, R.b = b, R.p1 = s, R.p2 = k;
			ld ua = (ld) a + (ld) s, ub = (ld) b + (ld) s;
			R.ratio = (double) powl(ub / ua, (ld) k + 4);
			ld lg	= log1pl((ub - ua) / ua);
			if(k == 1.0)
				R.exact = lg;
			else
				R.exact = powl(ua, 1 - (ld) k) * expm1l((1 - (ld) k) * lg) / (1 - (ld) k);
			R.f = [s, k](double x) { return std::pow(x + s, -k); };
			R.f4max = (double) ((ld) k * (k + 1) * (k + 2) * (k + 3) * powl(ua, -(ld) k - 4));
			break;
		}
		default: {
			double p;
			do
				p = rng.coin(0.4) ? (double) rng.irange(-6, 10) : rng.uni(-6.0, 10.0);
			while(p == 0 || p == 1 || p == 2 || p == 3 || std::fabs(p - 4) < 1e-3);
			if(rng.coin(0.15))
				p = 4;	 // f'''' constant
			double q = (p == 4) ? rng.uni(1.01, 4.0) : std::pow(rho, 1.0 / std::fabs(p - 4.0));	// b/a
			q		 = std::min(q, 1e3);
			double a = rng.loguni(1e-3, 1e2), b = a * q;
			R.a = a, R.b = b, R.p1 = p;
			R.ratio = (p == 4) ? 1.0 : (double) powl((ld) b / (ld) a, fabsl((ld) p - 4));
			ld lg	= logl((ld) b / (ld) a);
			if(p == -1)
				R.exact = lg;
			else
				R.exact = powl((ld) a, (ld) p + 1) * expm1l(((ld) p + 1) * lg) / ((ld) p + 1);
			R.f = [p](double x) { return std::pow(x, p); };
			R.f4max = (double) (fabsl((ld) p * (p - 1) * (p - 2) * (p - 3)) * std::max(powl((ld) a, (ld) p - 4), powl((ld) b, (ld) p - 4)));
			break;
		}
	}
	return R;
}

// Depth that adaptive Simpson needs on an interval of width W for an integrand with |f''''| <= M: a panel of width h has |S2 - S| <= (17/16) h^5 M / 2880
// (Simpson's error formula on the panel and on its halves), so every panel at level k meets |S2 - S| <= c eps / 2^k once 2^(4k) >= 17 W^5 M / (46080 c eps).
// With c = 10 (15 in the library; a stricter factor is a legitimate choice) and one level of margin.  A request whose depth budget is below this cannot be
// promised the 4 eps bound by any implementation; requests at or above it never run out of depth except through rounding noise in |S2 - S|, which leaves the
// result accurate to rounding.  (The monitor used to recognise such requests by the text of the library's warning - that made it depend on the wording.)
inline int simpson_depth_needed(double W, double M, double eps)
{
	double x = 17.0 * std::pow(std::fabs(W), 5) * M / (46080.0 * 10.0 * std::fabs(eps));
	if(!(x > 1.0))
		return 1;
	return (int) std::ceil(std::log2(x) / 4.0) + 1;
}

// ---------------------------------------------------------------------------------------------
// Closed-form families of C13: value, integral from a to b, integral of |f| and a bound on |f''|.
struct Closed
{
	int family = 0;	  // 0 e^{-kx}cos(wx+phi), 1 Lorentzian, 2 Gaussian
	double a = 0, b = 1, k = 0, om = 0, ph = 0, c = 0, s = 1;
	std::function<double(double)> f;
	ld exact = 0, L1 = 0;
	double max_f2 = 0;	 // upper bound of |f''| on [a,b]
	bool sign_change = false;
	std::string name() const
	{
		static const char* n[] = {"exp(-k x) cos(om x + ph)", "1/(1+((x-c)/s)^2)", "exp(-((x-c)/s)^2/2)"};
		return n[family % 3];
	}
};
inline ld damped_antiderivative(double k, double om, double ph, ld x)
{
	std::complex<ld> c(-(ld) k, (ld) om);
	std::complex<ld> v = std::exp(c * x + std::complex<ld>(0, (ld) ph)) / c;
	return v.real();
}
inline void finish_closed(Closed& C)
{
	double a = C.a, b = C.b;
	if(C.family == 0)
	{
		double k = C.k, om = C.om, ph = C.ph;
		C.f		= [k, om, ph](double x) { return std::exp(-k * x) * std::cos(om * x + ph); };
		C.exact = damped_antiderivative(k, om, ph, b) - damped_antiderivative(k, om, ph, a);
		// integral of |f|: split at the zeros of the cosine, om x + ph = pi/2 + j pi
		ld L = 0, prev = a;
		if(om > 0)
		{
			const ld PI = acosl(-1.0L);
			ld j0		= ceill((((ld) om * a + ph) - PI / 2) / PI);
			for(ld j = j0;; j += 1)
			{
				ld z = (PI / 2 + j * PI - ph) / om;
				if(z >= b)
					break;
				if(z > prev)
				{
					L += fabsl(damped_antiderivative(k, om, ph, z) - damped_antiderivative(k, om, ph, prev));
					prev = z;
					C.sign_change = true;
				}
			}
		}
		L += fabsl(damped_antiderivative(k, om, ph, b) - damped_antiderivative(k, om, ph, prev));
		C.L1	 = L;
		C.max_f2 = (k * k + om * om) * std::exp(-k * a) * (1 + 1e-12);
	}
	else if(C.family == 1)
	{
		double c = C.c, s = C.s;
		C.f		 = [c, s](double x) { double u = (x - c) / s; return 1.0 / (1.0 + u * u); };
		ld ua = ((ld) a - c) / s, ub = ((ld) b - c) / s;
		// atan(ub)-atan(ua) without cancellation
		ld d	 = atan2l(ub - ua, 1 + ua * ub);
		C.exact	 = (ld) s * d;
		C.L1	 = C.exact;
		C.max_f2 = 2.0 / (s * s);
	}
	else
	{
		double c = C.c, s = C.s;
		C.f		 = [c, s](double x) { double u = (x - c) / s; return std::exp(-0.5 * u * u); };
		ld ua = ((ld) a - c) / (s * sqrtl(2.0L)), ub = ((ld) b - c) / (s * sqrtl(2.0L));
		ld d;
		if(ua > 0)
			d = erfcl(ua) - erfcl(ub);
		else if(ub < 0)
			d = erfcl(-ub) - erfcl(-ua);
		else
			d = erfl(ub) - erfl(ua);
		C.exact	 = (ld) s * sqrtl(acosl(-1.0L) / 2) * d;
		C.L1	 = C.exact;
		C.max_f2 = 1.0 / (s * s);
	}
}
// Random member, a<b, parameters as in DESIGN (damped oscillation up to two periods, Lorentzian, Gaussian peaked inside)
inline Closed make_closed(vf::Rng& rng, int family = -1)
{
	Closed C;
	C.family = family < 0 ? rng.irange(0, 2) : family;
	C.a		 = rng.uni(-2, 2);
	double w = rng.uni(0.2, 3);
	C.b		 = C.a + w;
	if(C.family == 0)
	{
		C.k	 = rng.uni(0.1, 1.5);
		C.om = rng.uni(0, 2 * 2 * M_PI / w);
		C.ph = rng.uni(0, 6);
	}
	else if(C.family == 1)
	{
		C.c = rng.uni(-3, 3);
		C.s = rng.uni(0.5, 3);
	}
	else
	{
		C.c = rng.uni(C.a, C.b);
		C.s = rng.uni(0.3, 2);
	}
	finish_closed(C);
	return C;
}

inline std::string bits_hex(double x)
{
	char b[32];
	snprintf(b, sizeof b, "%016" PRIx64, vf::bits(x));
	return b;
}

}	// namespace ig
#endif
