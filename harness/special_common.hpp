// Helpers shared by the C06 / C07 / C17 drivers: long-double Gauss-Legendre quadrature written for the monitors
// (independent of libphysica's own quadrature code), a Boost.Math policy that never throws, small utilities.
#ifndef SPECIAL_COMMON_HPP
#define SPECIAL_COMMON_HPP

#include <cfloat>
#include <cmath>
#include <functional>
#include <map>
#include <vector>

#include <boost/math/policies/policy.hpp>

namespace sp
{
typedef long double ld;

// Boost policy: evaluate in the argument type (long double), report errors through the return value (NaN/inf), never throw.
namespace bp = boost::math::policies;
typedef bp::policy<bp::domain_error<bp::ignore_error>, bp::pole_error<bp::ignore_error>, bp::overflow_error<bp::ignore_error>, bp::underflow_error<bp::ignore_error>, bp::denorm_error<bp::ignore_error>, bp::evaluation_error<bp::ignore_error>, bp::rounding_error<bp::ignore_error>, bp::indeterminate_result_error<bp::ignore_error>, bp::promote_float<false>, bp::promote_double<false>> BoostPolicy;
static const BoostPolicy boost_pol = BoostPolicy();

// Gauss-Legendre nodes and weights on [-1,1] by Newton iteration on P_n in long double.
struct GLRule
{
	std::vector<ld> x, w;
};
inline const GLRule& gl_rule(int n)
{
	static std::map<int, GLRule> cache;
	auto it = cache.find(n);
	if(it != cache.end())
		return it->second;
	GLRule r;
	r.x.resize(n);
	r.w.resize(n);
	const ld pi = 3.14159265358979323846264338327950288L;
	for(int i = 0; i < (n + 1) / 2; i++)
	{
		ld z = cosl(pi * (i + 0.75L) / (n + 0.5L)), pp = 0;
		for(int it2 = 0; it2 < 100; it2++)
		{
			ld p1 = 1, p2 = 0;
			for(int j = 1; j <= n; j++)
			{
				ld p3 = p2;
				p2	  = p1;
				p1	  = ((2 * j - 1) * z * p2 - (j - 1) * p3) / j;
			}
			pp	  = n * (z * p1 - p2) / (z * z - 1);
			ld dz = p1 / pp;
			z -= dz;
			if(fabsl(dz) < 1e-19L)
				break;
		}
		// one more evaluation of the derivative at the converged node
		ld p1 = 1, p2 = 0;
		for(int j = 1; j <= n; j++)
		{
			ld p3 = p2;
			p2	  = p1;
			p1	  = ((2 * j - 1) * z * p2 - (j - 1) * p3) / j;
		}
		pp			   = n * (z * p1 - p2) / (z * z - 1);
		r.x[i]		   = -z;
		r.x[n - 1 - i] = z;
		r.w[i] = r.w[n - 1 - i] = 2 / ((1 - z * z) * pp * pp);
	}
	return cache[n] = r;
}

// One panel of the n-point rule on [a,b].
template <class F>
inline ld gl_panel(const F& f, ld a, ld b, int n = 16)
{
	const GLRule& r = gl_rule(n);
	ld c = 0.5L * (a + b), h = 0.5L * (b - a), s = 0;
	for(int i = 0; i < n; i++)
		s += r.w[i] * f(c + h * r.x[i]);
	return s * h;
}
// Composite rule with equal panels.
template <class F>
inline ld gl_composite(const F& f, ld a, ld b, int panels, int n = 16)
{
	if(!(b > a))
		return 0;
	ld s = 0, h = (b - a) / panels;
	for(int k = 0; k < panels; k++)
		s += gl_panel(f, a + k * h, (k == panels - 1) ? b : a + (k + 1) * h, n);
	return s;
}
// Panels no wider than hmax; next to `a` (if grade_a) the panels shrink geometrically (ratio 2, `levels` of them) so that an
// algebraic end-point singularity of the integrand or of its derivatives at `a` is resolved.
template <class F>
inline ld gl_graded(const F& f, ld a, ld b, ld hmax, bool grade_a, int levels = 40, int n = 16, int max_panels = 4000)
{
	if(!(b > a))
		return 0;
	ld s	 = 0;
	ld start = a;
	if(grade_a)
	{
		ld first = std::min(hmax, b - a);
		ld lo	 = a + first * ldexpl(1.0L, -levels);
		s += gl_panel(f, a, lo, n);
		for(int k = levels; k >= 1; k--)
		{
			ld hi = a + first * ldexpl(1.0L, -(k - 1));
			s += gl_panel(f, lo, hi, n);
			lo = hi;
		}
		start = a + first;
		if(!(b > start))
			return s;
	}
	ld len	   = b - start;
	ld np	   = ceill(len / hmax);
	int panels = (np < 1) ? 1 : (np > max_panels ? max_panels : (int) np);
	return s + gl_composite(f, start, b, panels, n);
}

inline double next_up(double x) { return std::nextafter(x, INFINITY); }
inline double next_down(double x) { return std::nextafter(x, -INFINITY); }

}	// namespace sp

#endif
