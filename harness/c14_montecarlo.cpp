// C14 - Monte Carlo integrators sample only inside the region and forget earlier calls (DESIGN.md section 4, C14).
// Uses the seed hook (libphysica::verif::mc_seed_override) so that a call is a deterministic function of (arguments, seed).
// Monitors: every sample location handed to the integrand (closed hyper-rectangle, exact; argument vector long enough), constants integrated to rounding,
// smooth integrands with exact mean and variance within six plain-MC standard errors, recorded result logs compared bit for bit between
// (H0) the call as first integration of a fresh process, (H1) the same call after a random history of other integrations in another fresh
// process, and (H2) repeats inside the long-lived worker process; the 2D/3D front ends with per-axis range monitors.
#include "integ_common.hpp"

#include "libphysica/Integration.hpp"
#include "libphysica/Statistics.hpp"
#include <random>

#ifndef LIBPHYSICA_VERIF
#error "the C14 driver needs the seed hook (build with -DLIBPHYSICA_VERIF)"
#endif

using namespace libphysica;
using namespace vf;
using namespace ig;

static const char* MC[3]   = {"Monte-Carlo", "Vegas", "Miser"};
static const char* KEY_D17 = "C14-vegas-constant-tiny-variance-floor";

static void set_seed(unsigned s)
{
	libphysica::verif::mc_seed_override() = true;
	libphysica::verif::mc_seed_value()	  = s;
}

// ------------------------------------------------------------------------------------------------------------------
struct Region
{
	int dim = 1;
	std::vector<double> lo, w;
	std::vector<double> flat() const
	{
		std::vector<double> r(2 * dim);
		for(int i = 0; i < dim; i++)
			r[i] = lo[i], r[i + dim] = lo[i] + w[i];
		return r;
	}
	ld volume() const
	{
		ld v = 1;
		std::vector<double> r = flat();
		for(int i = 0; i < dim; i++)
			v *= ((ld) r[i + dim] - (ld) r[i]);
		return v;
	}
};
static Region gen_region(Rng& rng, int dim)
{
	Region R;
	R.dim = dim;
	R.lo.resize(dim), R.w.resize(dim);
	bool aniso = rng.coin(0.6);
	double w0  = rng.loguni(1e-3, 1e3);
	for(int i = 0; i < dim; i++)
	{
		R.w[i]	= aniso ? rng.loguni(1e-3, 1e3) : w0;
		R.lo[i] = rng.coin(0.3) ? 0.0 : rng.uni(-3, 3) * R.w[i] + (rng.coin(0.3) ? rng.mag(1e-2, 1e3) : 0.0);
		// keep lo + w distinguishable from lo
		if(!(R.lo[i] + R.w[i] > R.lo[i] + 0.5 * R.w[i]))
			R.lo[i] = 0.0;
	}
	return R;
}
static bool anisotropic(const Region& R)
{
	for(int i = 1; i < R.dim; i++)
		if(std::fabs(std::log(R.w[i] / R.w[0])) > 0.1)
			return true;
	return false;
}

// integrand with exact first and second moment under the uniform law on the region
struct Integrand
{
	int family = 0;	  // 0 constant, 1 product of exponentials, 2 product of off-centre Gaussians, 3 sum of quadratics
	std::vector<double> p, q, r;
	double c = 1.0;
	ld mean = 0, m2 = 0;
	std::string name() const
	{
		static const char* n[] = {"constant", "prod exp(k_i u_i)", "prod exp(-(u_i-c_i)^2/(2 s_i^2))", "sum (a_i + b_i u_i + c_i u_i^2)"};
		return n[family & 3];
	}
	double eval(const Region& R, const std::vector<double>& x) const
	{
		if(family == 0)
			return c;
		double v = (family == 3) ? 0.0 : 1.0;
		for(int i = 0; i < R.dim; i++)
		{
			double u = (x[i] - R.lo[i]) / R.w[i];
			if(family == 1)
				v *= std::exp(p[i] * u);
			else if(family == 2)
				v *= std::exp(-(u - p[i]) * (u - p[i]) / (2 * q[i] * q[i]));
			else
				v += p[i] + q[i] * u + r[i] * u * u;
		}
		return c * v;
	}
};
static Integrand gen_integrand(Rng& rng, int dim, int family)
{
	Integrand F;
	F.family = family;
	F.c		 = rng.coin(0.3) ? 1.0 : rng.mag(1e-6, 1e6);
	F.p.resize(dim), F.q.resize(dim), F.r.resize(dim);
	const ld PI = acosl(-1.0L);
	if(family == 0)
	{
		F.mean = F.c, F.m2 = (ld) F.c * F.c;
		return F;
	}
	ld mean = (family == 3) ? 0 : 1, m2 = (family == 3) ? 0 : 1, var_sum = 0;
	for(int i = 0; i < dim; i++)
	{
		if(family == 1)
		{
			double k = rng.uni(-3, 3);
			if(std::fabs(k) < 1e-3)
				k = 0.5;
			F.p[i] = k;
			mean *= expm1l((ld) k) / k;
			m2 *= expm1l(2 * (ld) k) / (2 * (ld) k);
		}
		else if(family == 2)
		{
			double c = rng.uni(0.0, 1.0), s = rng.uni(0.15, 1.0);
			if(rng.coin(0.3))
				c = rng.coin() ? rng.uni(0, 0.1) : rng.uni(0.9, 1.0);	// peaked off-centre, next to a face
			F.p[i] = c, F.q[i] = s;
			ld s1 = s, s2 = s / sqrtl(2.0L);
			mean *= s1 * sqrtl(2 * PI) * 0.5L * (erfl((1 - (ld) c) / (s1 * sqrtl(2.0L))) + erfl((ld) c / (s1 * sqrtl(2.0L))));
			m2 *= s2 * sqrtl(2 * PI) * 0.5L * (erfl((1 - (ld) c) / (s2 * sqrtl(2.0L))) + erfl((ld) c / (s2 * sqrtl(2.0L))));
		}
		else
		{
			double a = rng.uni(-1, 1), b = rng.uni(-2, 2), cc = rng.uni(-2, 2);
			F.p[i] = a, F.q[i] = b, F.r[i] = cc;
			ld mi = (ld) a + (ld) b / 2 + (ld) cc / 3;
			ld si = (ld) a * a + (ld) a * b + ((ld) b * b + 2 * (ld) a * cc) / 3 + (ld) b * cc / 2 + (ld) cc * cc / 5;
			mean += mi;
			var_sum += si - mi * mi;
		}
	}
	if(family == 3)
		m2 = var_sum + mean * mean;
	F.mean = (ld) F.c * mean;
	F.m2   = (ld) F.c * F.c * m2;
	return F;
}

// ------------------------------------------------------------------------------------------------------------------
struct Call
{
	Region R;
	Integrand F;
	int method = 0;
	int ncall  = 1000;
	unsigned seed = 1;
};
struct Obs
{
	double result = 0;
	uint64_t n	  = 0, outside = 0, short_vec = 0, region_modified = 0;
	uint64_t trace = 1469598103934665603ULL;   // FNV over the bits of every coordinate, in order
	std::vector<double> worst;
};
static Obs run_call(const Call& C)
{
	Obs o;
	std::vector<double> reg = C.R.flat();
	const std::vector<double> reg0 = reg;	// the region as given; `reg` is the vector handed to the library by non-const reference
	int dim = C.R.dim;
	std::function<double(std::vector<double>&, const double)> f = [&](std::vector<double>& x, const double) {
		o.n++;
		if(reg != reg0)
			o.region_modified++;	// an integrand may refer to the limits it was called with: they must read the same while it runs
		if((int) x.size() < dim)
		{
			o.short_vec++;
			return 0.0;
		}
		bool in = true;
		for(int i = 0; i < dim; i++)
		{
			if(!(x[i] >= reg0[i] && x[i] <= reg0[i + dim]))
				in = false;
			o.trace = (o.trace ^ bits(x[i])) * 1099511628211ULL;
		}
		if(!in)
		{
			if(o.outside++ == 0)
				o.worst.assign(x.begin(), x.begin() + dim);
		}
		return C.F.eval(C.R, x);
	};
	set_seed(C.seed);
	StreamCapture cap;
	o.result = Integrate_MC(f, reg, C.ncall, std::string(MC[C.method]));
	if(reg != reg0)
		o.region_modified++;
	return o;
}
static int gen_ncall(Rng& rng)
{
	double u = rng.u01();
	if(ctx().thorough && u < 0.03)
		return 1000000;
	if(u < 0.25)
		return rng.irange(1000, 3000);
	if(u < 0.85)
		return (int) rng.loguni(3000, 60000);
	return (int) rng.loguni(60000, ctx().is_asan() ? 100000 : 300000);
}
static Call gen_call(Rng& rng, int family = -1, int method = -1, int dim = -1)
{
	Call C;
	int d	 = dim > 0 ? dim : rng.irange(1, 6);
	C.R		 = gen_region(rng, d);
	C.F		 = gen_integrand(rng, d, family >= 0 ? family : rng.irange(0, 3));
	C.method = method >= 0 ? method : rng.irange(0, 2);
	C.ncall	 = gen_ncall(rng);
	C.seed	 = (unsigned) rng.next();
	return C;
}
static J call_json(const Call& C)
{
	J j;
	j.str("method", MC[C.method]).i("ncall", C.ncall).i("seed", C.seed).i("dimension", C.R.dim).str("integrand", C.F.name()).d("prefactor", C.F.c);
	j.vec("lower", C.R.lo).vec("width", C.R.w).vec("p", C.F.p).vec("q", C.F.q).vec("r", C.F.r);
	return j;
}
static void hash_call(const Call& C)
{
	hash_param_u((uint64_t) C.method * 7 + C.R.dim), hash_param_u(C.ncall), hash_param_u(C.seed), hash_param(C.F.c);
	for(int i = 0; i < C.R.dim; i++)
		hash_param(C.R.lo[i]), hash_param(C.R.w[i]), hash_param(C.F.p[i]);
}
static void judge_inside(const Call& C, const Obs& o)
{
	require("every-sample-inside-the-region", o.outside == 0, [&] { return J().i("samples", (long long) o.n).i("outside", (long long) o.outside).vec("first_outside_point", o.worst); });
	require("argument-vector-has-the-region-dimension", o.short_vec == 0, [&] { return J().i("short_vectors", (long long) o.short_vec); });
	require("integrand-was-sampled", o.n > 0, [&] { return J().i("samples", (long long) o.n); });
	require("region-argument-reads-the-same-during-and-after-the-call", o.region_modified == 0, [&] { return J().i("evaluations_that_saw_other_limits", (long long) o.region_modified); });
	(void) C;
}

// ------------------------------------------------------------------------------------------------------------------
static void case_accuracy(Rng& rng, uint64_t index)
{
	Call C = gen_call(rng, 1 + (int) (index % 3), (int) ((index / 3) % 3), 1 + (int) ((index / 9) % 6));
	set_params(call_json(C));
	hash_call(C);
	if(C.R.dim >= 2 && anisotropic(C.R))
		mark_nontrivial();
	Obs o = run_call(C);
	judge_inside(C, o);
	ld V = C.R.volume(), exact = V * C.F.mean;
	ld sd = sqrtl(std::max((ld) 0, C.F.m2 - C.F.mean * C.F.mean));
	double tol = (double) (6 * fabsl(V) * sd / sqrtl((ld) C.ncall) + 1e-12L * fabsl(exact));
	char cl[64];
	snprintf(cl, sizeof cl, "%s-within-six-standard-errors", MC[C.method]);
	judge(cl, (double) fabsl((ld) o.result - exact), tol, [&] { return J().d("result", o.result).d("exact", (double) exact).d("plain_mc_standard_error", tol / 6).i("samples", (long long) o.n); });
	if(index % 499 == 0)
		sample(J().d("result", o.result).d("exact", (double) exact).i("samples", (long long) o.n));
}

static void judge_constant(const Call& C, const Obs& o, bool witness)
{
	ld V = C.R.volume(), exact = V * C.F.mean;
	double rel = (double) (fabsl((ld) o.result - exact) / fabsl(exact));
	auto det   = [&] { return J().d("result", o.result).d("exact", (double) exact).num("relative_error", rel).d("abs(cV)/calls", (double) (fabsl(exact) / C.ncall)); };
	if(C.method != 1)
	{
		judge(C.method == 0 ? "Monte-Carlo-integrates-constants-to-rounding" : "Miser-integrates-constants-to-rounding", rel, 1e-9, det);
		return;
	}
	double scale = (double) (fabsl(exact) / C.ncall);
	if(scale >= 1e-9 && !witness)
		judge("Vegas-integrates-constants-to-rounding", rel, 1e-9, det);
	else
	{
		ClauseStat& cs = clause("Vegas-constants-below-variance-floor(informational)");
		cs.n++;
		if(rel > 1e-9 && rel <= 1e-2)
			known_hit(KEY_D17, "relative error between 1e-9 and 1e-2 for |cV|/calls below 1e-9", det());
		judge("Vegas-constant-no-gross-error", rel, 1e-2, det, "C14-vegas-constant-gross-error");
	}
}
static void case_constant(Rng& rng, uint64_t index)
{
	Call C = gen_call(rng, 0, (int) (index % 3), 1 + (int) ((index / 3) % 6));
	if(rng.coin(0.4))
		C.F.c = rng.mag(1e-12, 1e12), C.F.mean = C.F.c, C.F.m2 = (ld) C.F.c * C.F.c;
	// the zero function and constants whose square underflows (defect D29: Vegas' grid refinement turned NaN and the routine exited)
	bool degenerate = index % 5 == 4;
	if(degenerate)
	{
		C.F.c = (index % 10 == 4) ? 0.0 : rng.sign() * rng.loguni(1e-250, 1e-160);
		C.F.mean = C.F.c, C.F.m2 = (ld) C.F.c * C.F.c;
		for(int i = 0; i < C.R.dim; i++)
			C.R.w[i] = rng.loguni(1e-2, 1e2);	// keep c V representable
	}
	set_params(call_json(C));
	hash_call(C);
	if(C.R.dim >= 2 && anisotropic(C.R))
		mark_nontrivial();
	Obs o = run_call(C);
	judge_inside(C, o);
	if(degenerate)
	{
		char cl[80];
		snprintf(cl, sizeof cl, "%s-integrates-zero-and-tiny-constants", MC[C.method]);
		ld exact = C.R.volume() * (ld) C.F.c;
		double err = C.F.c == 0.0 ? std::fabs(o.result) : (double) (fabsl((ld) o.result - exact) / fabsl(exact));
		judge(cl, std::isfinite(o.result) ? err : 1e300, C.F.c == 0.0 ? 0.0 : 1e-9, [&] { return J().d("result", o.result).d("exact", (double) exact); });
		return;
	}
	judge_constant(C, o, false);
}
// recorded witnesses of finding D17 (Vegas, constant, |cV|/calls tiny): fixed inputs re-executed on every run
static void case_d17_witness(Rng& rng, uint64_t index)
{
	(void) rng;
	static const double cs[4] = {1e-9, 3e-10, 3e-11, 3e-10};
	static const int nc[4]	  = {10000, 10000, 5000, 20000};
	Call C;
	C.R.dim = 2 + (int) (index % 2);
	C.R.lo.assign(C.R.dim, 0.0);
	C.R.w.assign(C.R.dim, 1.0);
	C.F		 = Integrand();
	C.F.c	 = cs[index % 4];
	C.F.mean = C.F.c, C.F.m2 = (ld) C.F.c * C.F.c;
	C.F.p.assign(C.R.dim, 0), C.F.q.assign(C.R.dim, 0), C.F.r.assign(C.R.dim, 0);
	C.method = 1;
	C.ncall	 = nc[index % 4];
	C.seed	 = 12345u + (unsigned) index;
	set_params(call_json(C).i("recorded_witness", (long long) index));
	hash_param_u(index);
	mark_nontrivial();
	Obs o = run_call(C);
	judge_inside(C, o);
	judge_constant(C, o, true);
}

// fixed requests that made Vegas leave through "The integral is NaN" before fixes D29 / D31: tiny and zero constants in the stratified mode
static void case_tiny_scale_witness(Rng& rng, uint64_t index)
{
	(void) rng;
	static const int dims[4]	= {5, 6, 3, 4};
	static const double cs[4]	= {-2.4e-156, 1e-250, 1e-170, 0.0};
	static const int nc[4]		= {12500, 10000, 10000, 10000};
	Call C;
	C.R.dim = dims[index % 4];
	C.R.lo.assign(C.R.dim, 0.0);
	C.R.w.assign(C.R.dim, index % 8 < 4 ? 1.0 : 0.75);
	C.F		 = Integrand();
	C.F.c	 = cs[index % 4];
	C.F.mean = C.F.c, C.F.m2 = (ld) C.F.c * C.F.c;
	C.F.p.assign(C.R.dim, 0), C.F.q.assign(C.R.dim, 0), C.F.r.assign(C.R.dim, 0);
	C.method = 1;
	C.ncall	 = nc[index % 4];
	C.seed	 = 4242u + (unsigned) index;
	if(index == 0)
	{
		// the request that exposed D31 (thorough tier, constants#14449 at VERIF_SEED=1), bit for bit
		C.R.lo	 = {-0x1.0e0fd0efaca04p+7, 0.0, 0.0, 0x1.d1f3bc47729eap+6, 0x1.8fba1d72485eap+9};
		C.R.w	 = {0x1.0509b0d76f502p+2, 0x1.bed3f342ee8eap+5, 0x1.3b8c3954399ap+6, 0x1.aaf59a96159cap-2, 0x1.3a4cd99a04437p+6};
		C.F.c	 = -0x1.cef3711e7490ep-537;
		C.F.mean = C.F.c, C.F.m2 = (ld) C.F.c * C.F.c;
		C.ncall	 = 14924;
		C.seed	 = 3541362010u;
	}
	set_params(call_json(C).i("recorded_witness", (long long) index));
	hash_param_u(index);
	mark_nontrivial();
	Obs o = run_call(C);
	judge_inside(C, o);
	ld exact = C.R.volume() * (ld) C.F.c;
	double err = C.F.c == 0.0 ? std::fabs(o.result) : (double) (fabsl((ld) o.result - exact) / fabsl(exact));
	judge("Vegas-integrates-zero-and-tiny-constants", std::isfinite(o.result) ? err : 1e300, C.F.c == 0.0 ? 0.0 : 1e-9, [&] { return J().d("result", o.result).d("exact", (double) exact); });
}

// regions that are narrow compared with their distance from the origin (width/offset 1e-13..1e-11, still thousands of doubles wide): an ulp of a
// coordinate is a visible fraction of the width, so a point formed as a sum of two rounded products instead of lower + xi*width falls one ulp outside
// now and then - about 2e-5 per evaluation at 1e-12 (seeded change C14-r7m3).  Many evaluations per call, every one checked against the limits.
static void case_far_narrow_region(Rng& rng, uint64_t index)
{
	Call C;
	C.R.dim = 1 + (int) (index % 3);
	for(int i = 0; i < C.R.dim; i++)
	{
		double lo = rng.sign() * rng.loguni(1e8, 1e10);
		C.R.lo.push_back(lo);
		C.R.w.push_back(std::fabs(lo) * rng.loguni(2e-13, 1e-11));
	}
	C.F		 = gen_integrand(rng, C.R.dim, 1);
	C.method = (int) ((index / 3) % 3);
	C.ncall	 = ctx().is_asan() ? 30000 : 300000;
	C.seed	 = (unsigned) rng.next();
	set_params(call_json(C));
	hash_call(C);
	mark_nontrivial();
	Obs o = run_call(C);
	judge_inside(C, o);
}

// an integrand that runs another integration (two-level Monte Carlo) and uses its own argument afterwards: the point handed to it is its own
// (seeded change C14-r7m1 handed out a reference to one static buffer that the inner integration overwrites)
static void case_nested_integration(Rng& rng, uint64_t index)
{
	// outer method: plain Monte Carlo only.  Miser and Vegas keep their working state in function-local statics and are not re-entrant (a Miser integrand
	// that starts another Miser integration does not return on the unchanged tree either); the property speaks of integrations run before, not inside,
	// one another, so that is noted in DESIGN section 7 and not driven here.
	Call O = gen_call(rng, 1, 0, rng.irange(1, 3)), I = gen_call(rng, 1, (int) (index % 2), rng.irange(1, 4));
	O.ncall = std::min(O.ncall, 3000), I.ncall = 400;
	set_params(call_json(O).str("inner_method", MC[I.method]).i("inner_dimension", I.R.dim));
	hash_call(O);
	mark_nontrivial();
	std::vector<double> oreg = O.R.flat();
	const std::vector<double> oreg0 = oreg;
	int dim = O.R.dim;
	uint64_t n = 0, changed = 0, outside = 0, inner_runs = 0;
	std::function<double(std::vector<double>&, const double)> fo = [&](std::vector<double>& x, const double) {
		n++;
		const std::vector<double> mine = x;
		if(n % 7 == 1)
		{
			std::vector<double> ireg = I.R.flat();
			std::function<double(std::vector<double>&, const double)> fi = [&](std::vector<double>& y, const double) { return I.F.eval(I.R, y); };
			(void) Integrate_MC(fi, ireg, I.ncall, std::string(MC[I.method]));
			inner_runs++;
		}
		if(x != mine)
			changed++;
		for(int i = 0; i < dim && i < (int) x.size(); i++)
			if(!(x[i] >= oreg0[i] && x[i] <= oreg0[i + dim]))
				outside++;
		return O.F.eval(O.R, mine);
	};
	set_seed(O.seed);
	StreamCapture cap;
	double res = Integrate_MC(fo, oreg, O.ncall, std::string(MC[O.method]));
	auto det = [&] { return J().i("outer_evaluations", (long long) n).i("inner_integrations", (long long) inner_runs).i("points_changed_by_the_inner_integration", (long long) changed).i("coordinates_outside_afterwards", (long long) outside).d("result", res); };
	require("sample-point-unchanged-by-an-integration-inside-the-integrand", changed == 0 && outside == 0 && inner_runs > 0, det);
	require("nested-integration-returns-a-number", std::isfinite(res), det);
}

// ------------------------------------------------------------------------------------------------------------------
// history independence
static std::string obs_blob(const Obs& o)
{
	char b[96];
	snprintf(b, sizeof b, "%016" PRIx64 " %016" PRIx64 " %" PRIu64, bits(o.result), o.trace, o.n);
	return b;
}
static bool parse_blob(const std::string& s, uint64_t& rb, uint64_t& tr, uint64_t& n)
{
	return sscanf(s.c_str(), "%" SCNx64 " %" SCNx64 " %" SCNu64, &rb, &tr, &n) == 3;
}
// what else a process may have done with the library before the observed integration: the uniform sampler used directly with other intervals (an
// isotropic direction: phi in [0,2pi), cos(theta) in [-1,1) - seeded change C14-r6m1 kept the distribution object of the last interval), and a
// Miser integration that its caller left through an exception thrown by the integrand (seeded change C14-r6m2 tracked Miser's recursion depth
// without unwinding it)
static void other_library_use(int kind, unsigned seed)
{
	if(kind & 1)
	{
		std::mt19937 gen(seed);
		double acc = 0;
		for(int i = 0; i < 3; i++)
		{
			acc += Sample_Uniform(gen, 0.0, 2 * M_PI);
			acc += Sample_Uniform(gen, -1.0, 1.0);
		}
		(void) acc;
	}
	if(kind & 2)
	{
		struct Stop
		{
		};
		long calls = 0, stop_at = 100 + (long) (seed % 900);
		std::function<double(std::vector<double>&, const double)> f = [&](std::vector<double>& x, const double) -> double {
			if(++calls == stop_at)
				throw Stop();
			return x[0] * x[1];
		};
		std::vector<double> reg = {0.0, 0.0, 1.0, 2.0};
		set_seed(seed);
		StreamCapture cap;
		try
		{
			(void) Integrate_MC(f, reg, 5000, std::string("Miser"));
		}
		catch(const Stop&)
		{
		}
	}
}
static void case_history(Rng& rng, uint64_t index)
{
	Call T = gen_call(rng, rng.irange(1, 3), (int) (index % 3));
	T.ncall = std::min(T.ncall, 40000);
	// narrow off-centre peaks: the integrand underflows to exactly 0 on one side of the midpoint in every dimension, which sends Miser into its
	// fallback choice of the bisection direction (tick Miser.fallback_dimension) - the one place where it consults a process-wide static (defect D28)
	bool narrow = false;
	if(T.F.family == 2 && T.R.dim >= 2 && rng.coin(0.6))
	{
		narrow = true;
		for(int i = 0; i < T.R.dim; i++)
			T.F.q[i] = rng.uni(0.003, 0.02), T.F.p[i] = rng.coin() ? rng.uni(0.05, 0.12) : rng.uni(0.88, 0.95);
	}
	int nh	= rng.irange(1, 6);
	std::vector<Call> H;
	bool other_dim = false;
	for(int i = 0; i < nh; i++)
	{
		Call c = gen_call(rng);
		c.ncall = std::min(c.ncall, 20000);
		if(i == 0 && rng.coin(0.5))
			c.method = T.method;   // same method right before, different dimension/region
		if(c.R.dim != T.R.dim)
			other_dim = true;
		H.push_back(c);
	}
	int other_use	  = (index % 4 == 1) ? 1 : (index % 4 == 3) ? 2 : (index % 8 == 6) ? 3 : 0;
	unsigned other_sd = (unsigned) rng.below(1u << 30);
	set_params(call_json(T).i("history_length", nh).i("other_library_use_before", other_use));
	hash_call(T);
	if(other_dim || narrow)
		mark_nontrivial();
	// H2: inside the long-lived worker (whose statics have seen every earlier case of this shard)
	Obs w1 = run_call(T);
	judge_inside(T, w1);
	// H0: first integration of a fresh process
	Outcome o0 = run_isolated([&](const std::function<void(const std::string&)>& send) { send(obs_blob(run_call(T))); }, 300);
	// H1: fresh process, after the history
	Outcome o1 = run_isolated([&](const std::function<void(const std::string&)>& send) {
		for(size_t i = 0; i < H.size(); i++)
		{
			if(i == H.size() / 2)
				other_library_use(other_use, other_sd);
			(void) run_call(H[i]);
		}
		send(obs_blob(run_call(T)));
	}, 600);
	// and once more in the worker after the same history
	for(size_t i = 0; i < H.size(); i++)
	{
		if(i == H.size() / 2)
			other_library_use(other_use, other_sd);
		(void) run_call(H[i]);
	}
	Obs w2 = run_call(T);
	if(o0.kind == WATCHDOG || o1.kind == WATCHDOG)
	{
		inconclusive("watchdog in a history child");
		return;
	}
	uint64_t r0, t0, n0, r1, t1, n1;
	bool ok0 = o0.kind == RETURNED && parse_blob(o0.payload, r0, t0, n0), ok1 = o1.kind == RETURNED && parse_blob(o1.payload, r1, t1, n1);
	require("history-children-return", ok0 && ok1, [&] { return outcome_json(ok0 ? o1 : o0); });
	if(!ok0 || !ok1)
		return;
	auto det = [&] {
		double d0, d1;
		memcpy(&d0, &r0, 8), memcpy(&d1, &r1, 8);
		return J().d("fresh_process", d0).d("fresh_process_after_history", d1).d("worker_before", w1.result).d("worker_after_history", w2.result).i("history_length", nh);
	};
	require("result-identical-with-and-without-preceding-integrations", r0 == r1, det);
	require("result-identical-in-long-lived-process", r0 == bits(w1.result) && r0 == bits(w2.result), det);
	// informational: do the sample locations coincide as well?
	ClauseStat& cs = clause("sample-locations-identical-too(informational)");
	cs.n++;
	if(t0 == t1 && t0 == w1.trace && t0 == w2.trace && n0 == n1)
		cs.nontrivial++;
	if(index % 97 == 0)
		sample(J().d("result", w1.result).i("samples", (long long) w1.n).i("history_length", nh).i("sample_traces_identical", t0 == t1));
}

// ------------------------------------------------------------------------------------------------------------------
// 2D / 3D front ends with the Monte Carlo names
static void case_frontend(Rng& rng, uint64_t index)
{
	int dim	   = 2 + (int) (index % 2);
	int method = (int) ((index / 2) % 3);
	Region R   = gen_region(rng, dim);
	// distinct, non-overlapping limit pairs per axis
	for(int i = 0; i < dim; i++)
	{
		R.w[i]	= rng.uni(0.5, 3.0);
		R.lo[i] = 10.0 * i + rng.uni(0, 2);
	}
	int perm[3] = {0, 1, 2};
	Integrand F = gen_integrand(rng, dim, 1 + (int) rng.below(3));
	int ncall	= rng.coin(0.3) ? 0 : (int) rng.loguni(3000, 60000);
	unsigned seed = (unsigned) rng.next();
	(void) perm;
	set_params(J().str("method", MC[method]).i("dimension", dim).i("method_parameter", ncall).i("seed", seed).vec("lower", R.lo).vec("width", R.w).str("integrand", F.name()));
	hash_param_u(method * 10 + dim), hash_param_u(ncall), hash_param_u(seed);
	for(int i = 0; i < dim; i++)
		hash_param(R.lo[i]), hash_param(R.w[i]);
	mark_nontrivial();
	std::vector<double> reg = R.flat();
	double seen_lo[3] = {INFINITY, INFINITY, INFINITY}, seen_hi[3] = {-INFINITY, -INFINITY, -INFINITY};
	uint64_t n = 0;
	auto see = [&](int i, double v) { seen_lo[i] = std::min(seen_lo[i], v), seen_hi[i] = std::max(seen_hi[i], v); };
	set_seed(seed);
	double got;
	StreamCapture cap;
	if(dim == 2)
	{
		std::function<double(double, double)> f = [&](double x, double y) {
			n++, see(0, x), see(1, y);
			std::vector<double> v = {x, y};
			return F.eval(R, v);
		};
		got = Integrate_2D(f, reg[0], reg[2], reg[1], reg[3], std::string(MC[method]), ncall);
	}
	else
	{
		std::function<double(double, double, double)> f = [&](double x, double y, double z) {
			n++, see(0, x), see(1, y), see(2, z);
			std::vector<double> v = {x, y, z};
			return F.eval(R, v);
		};
		got = Integrate_3D(f, reg[0], reg[3], reg[1], reg[4], reg[2], reg[5], std::string(MC[method]), ncall);
	}
	bool ok = n > 0;
	for(int i = 0; i < dim; i++)
		ok = ok && seen_lo[i] >= reg[i] && seen_hi[i] <= reg[i + dim];
	require("front-end-argument-i-sampled-inside-limit-pair-i", ok, [&] {
		J j;
		j.i("samples", (long long) n);
		for(int i = 0; i < dim; i++)
		{
			char k1[24], k2[24];
			snprintf(k1, sizeof k1, "arg%d_min_seen", i), snprintf(k2, sizeof k2, "arg%d_max_seen", i);
			j.d(k1, seen_lo[i]).d(k2, seen_hi[i]);
		}
		return j;
	});
	int eff	 = ncall == 0 ? 30000 : ncall;
	ld V	 = R.volume(), exact = V * F.mean;
	ld sd	 = sqrtl(std::max((ld) 0, F.m2 - F.mean * F.mean));
	double tol = (double) (6 * fabsl(V) * sd / sqrtl((ld) eff) + 1e-12L * fabsl(exact));
	judge("front-end-result-within-six-standard-errors", (double) fabsl((ld) got - exact), tol, [&] { return J().d("result", got).d("exact", (double) exact).i("samples", (long long) n); });
}

static void setup()
{
	add_generator("d17_witnesses", 8, case_d17_witness);
	add_generator("vegas_tiny_scale_witnesses", 8, case_tiny_scale_witness);
	add_generator("smooth_integrands", ctx().count(1350, 54000), case_accuracy, 900.0);
	add_generator("constants", ctx().count(900, 36000), case_constant, 900.0);
	add_generator("far_narrow_regions", ctx().count(18, 360), case_far_narrow_region, 600.0);
	add_generator("nested_integrations", ctx().count(120, 6000), case_nested_integration, 600.0);
	add_generator("history_pairs", ctx().count(750, 30000), case_history, 1200.0);
	add_generator("front_ends_2d_3d", ctx().count(600, 24000), case_frontend, 900.0);
}
VERIF_MAIN("C14", setup)
