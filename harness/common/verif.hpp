// Common runtime-monitoring harness for the libphysica drivers (see DESIGN.md section 2).
//
// One driver = one executable = one property.  A driver registers *generators*; each generator is a
// deterministic function (generator name, case index, seed) -> one case that is executed against the
// real library and judged by an oracle.  Cases run inside a forked *worker* whose progress, clause
// statistics and tick counters live in shared memory, so that when the library terminates the process
// (std::exit, sanitizer report, signal) the parent knows which case did it, records the outcome as an
// observation of that case and restarts the worker behind it.
//
// Protocol: JSON lines on the file descriptor that was stdout when the driver started.  fd 1 and fd 2
// are redirected to /dev/null (the library prints warnings), or to a capture pipe inside run_isolated.
#ifndef VERIF_HPP
#define VERIF_HPP

#include <cinttypes>
#include <cstddef>
#include <cerrno>
#include <cmath>
#include <cstdarg>
#include <cstdint>
#include <cstdio>
#include <cstdlib>
#include <cstring>
#include <fcntl.h>
#include <functional>
#include <map>
#include <poll.h>
#include <signal.h>
#include <iostream>
#include <sstream>
#include <string>
#include <sys/mman.h>
#include <sys/time.h>
#include <sys/wait.h>
#include <unistd.h>
#include <vector>

#ifdef LIBPHYSICA_VERIF
#include "libphysica/Verif_Hooks.hpp"
#endif

#ifndef VERIF_FLAVOUR
#define VERIF_FLAVOUR "unknown"
#endif

namespace vf
{

// ---------------------------------------------------------------------------------------------
// PRNG: splitmix64 seeding, xoshiro256**
inline uint64_t splitmix64(uint64_t& s)
{
	uint64_t z = (s += 0x9e3779b97f4a7c15ULL);
	z		   = (z ^ (z >> 30)) * 0xbf58476d1ce4e5b9ULL;
	z		   = (z ^ (z >> 27)) * 0x94d049bb133111ebULL;
	return z ^ (z >> 31);
}
inline uint64_t hash_str(const char* s)
{
	uint64_t h = 1469598103934665603ULL;
	for(; *s; ++s)
		h = (h ^ (unsigned char) *s) * 1099511628211ULL;
	return h;
}
inline uint64_t mix(uint64_t a, uint64_t b)
{
	uint64_t s = a ^ (b + 0x9e3779b97f4a7c15ULL + (a << 6) + (a >> 2));
	return splitmix64(s);
}

struct Rng
{
	uint64_t s[4];
	explicit Rng(uint64_t seed = 1)
	{
		for(int i = 0; i < 4; i++)
			s[i] = splitmix64(seed);
	}
	static inline uint64_t rotl(uint64_t x, int k) { return (x << k) | (x >> (64 - k)); }
	uint64_t next()
	{
		uint64_t r = rotl(s[1] * 5, 7) * 9, t = s[1] << 17;
		s[2] ^= s[0];
		s[3] ^= s[1];
		s[1] ^= s[2];
		s[0] ^= s[3];
		s[2] ^= t;
		s[3] = rotl(s[3], 45);
		return r;
	}
	double u01() { return (next() >> 11) * (1.0 / 9007199254740992.0); }	 // [0,1)
	double uni(double a, double b) { return a + (b - a) * u01(); }
	double loguni(double a, double b) { return std::exp(uni(std::log(a), std::log(b))); }
	uint64_t below(uint64_t n) { return n ? next() % n : 0; }
	int irange(int a, int b) { return a + (int) below((uint64_t)(b - a + 1)); }	  // inclusive
	bool coin(double p = 0.5) { return u01() < p; }
	double sign() { return coin() ? 1.0 : -1.0; }
	double normal()
	{
		double u = 1.0 - u01(), v = u01();
		return std::sqrt(-2.0 * std::log(u)) * std::cos(2.0 * M_PI * v);
	}
	// value of either sign with magnitude log-uniform in [a,b]
	double mag(double a, double b) { return sign() * loguni(a, b); }
	template <class T>
	const T& pick(const std::vector<T>& v) { return v[below(v.size())]; }
};

// ---------------------------------------------------------------------------------------------
// JSON helpers
inline std::string jstr(const std::string& s)
{
	std::string o = "\"";
	for(unsigned char c : s)
	{
		if(c == '"' || c == '\\')
		{
			o += '\\';
			o += (char) c;
		}
		else if(c == '\n')
			o += "\\n";
		else if(c == '\t')
			o += "\\t";
		else if(c < 0x20 || c >= 0x7f)
			o += '?';
		else
			o += (char) c;
	}
	return o + "\"";
}
inline std::string hexf(double x)
{
	char b[64];
	snprintf(b, sizeof b, "%a", x);
	return b;
}
inline std::string hexf(long double x)
{
	char b[64];
	snprintf(b, sizeof b, "%La", x);
	return b;
}
// a double as JSON string "decimal (hex)"
inline std::string jd(double x)
{
	char b[96];
	snprintf(b, sizeof b, "\"%.17g (%a)\"", x, x);
	return b;
}
inline std::string jnum(double x)
{
	if(!std::isfinite(x))
		return std::isnan(x) ? "\"nan\"" : (x > 0 ? "\"inf\"" : "\"-inf\"");
	char b[64];
	snprintf(b, sizeof b, "%.6g", x);
	return b;
}
inline std::string jvec(const std::vector<double>& v, size_t maxn = 64)
{
	std::string o = "[";
	for(size_t i = 0; i < v.size() && i < maxn; i++)
		o += (i ? "," : "") + jd(v[i]);
	if(v.size() > maxn)
		o += ",\"...(" + std::to_string(v.size()) + " entries)\"";
	return o + "]";
}
struct J	// tiny object builder
{
	std::string s;
	J& raw(const char* k, const std::string& v)
	{
		s += (s.empty() ? "" : ",") + jstr(k) + ":" + v;
		return *this;
	}
	J& str(const char* k, const std::string& v) { return raw(k, jstr(v)); }
	J& d(const char* k, double v) { return raw(k, jd(v)); }
	J& num(const char* k, double v) { return raw(k, jnum(v)); }
	J& i(const char* k, long long v) { return raw(k, std::to_string(v)); }
	J& vec(const char* k, const std::vector<double>& v) { return raw(k, jvec(v)); }
	std::string obj() const { return "{" + s + "}"; }
};

// ---------------------------------------------------------------------------------------------
// Shared state between the driver (parent) and its worker child
static const int MAX_CLAUSES = 96, MAX_SITES = 64, HSET_BITS = 20;
static const uint64_t EARLY_STOP_VIOLATIONS = 64;	// a shard stops generating cases once it has recorded this many violations
struct ClauseStat
{
	char name[64];
	uint64_t n, nontrivial, outside;
	double max_ratio;
	char argmax[200];
};
struct SiteStat
{
	const char* site;
	char name[48];
	uint64_t count;
};
struct Shared
{
	volatile uint64_t cur_index;
	volatile uint64_t heartbeat;
	char cur_gen[48];
	uint64_t cases, distinct_nontrivial, violations, known_hits, inconclusive;
	uint64_t emitted_samples;
	ClauseStat clauses[MAX_CLAUSES];
	int nclauses;
	SiteStat sites[MAX_SITES];
	int nsites;
	uint64_t outcomes[8];	// isolated-request outcome histogram
	uint64_t hset_used;
	uint64_t hset[1u << HSET_BITS];
};
inline Shared*& shared()
{
	static Shared* p = nullptr;
	return p;
}

// ---------------------------------------------------------------------------------------------
// Context / command line
struct Ctx
{
	uint64_t seed = 1;
	bool thorough = false;
	int shard = 0, nshards = 1;
	double scale = 1.0;	  // multiplies case counts (the asan flavour runs with 0.1)
	std::string only_gen;
	long long only_index = -1;
	std::string property;
	int proto_fd = 1;
	bool is_asan() const { return std::string(VERIF_FLAVOUR) == "asan"; }
	uint64_t count(uint64_t quick, uint64_t thor) const
	{
		double c = (thorough ? (double) thor : (double) quick) * scale;
		return c < 1 ? 1 : (uint64_t) c;
	}
};
inline Ctx& ctx()
{
	static Ctx c;
	return c;
}

inline void emit(const std::string& line)
{
	std::string l = line + "\n";
	const char* p = l.data();
	size_t n	  = l.size();
	while(n)
	{
		ssize_t w = write(ctx().proto_fd, p, n);
		if(w <= 0)
			break;
		p += w;
		n -= (size_t) w;
	}
}

// ---------------------------------------------------------------------------------------------
// Tick hook: counters per site in shared memory, optional per-case step budget
struct StepLimit
{
	const char* site;
};
inline int64_t& tick_budget()
{
	static int64_t b = -1;	 // <0: unlimited
	return b;
}
inline void tick_handler(const char* site)
{
	Shared* sh = shared();
	int i;
	for(i = 0; i < sh->nsites; i++)
		if(sh->sites[i].site == site)
			break;
	if(i == sh->nsites)
	{
		for(i = 0; i < sh->nsites; i++)	  // same name, different literal address (other TU)
			if(strcmp(sh->sites[i].name, site) == 0)
				break;
		if(i == sh->nsites && sh->nsites < MAX_SITES)
		{
			sh->sites[i].site = site;
			strncpy(sh->sites[i].name, site, sizeof sh->sites[i].name - 1);
			sh->sites[i].count = 0;
			sh->nsites++;
		}
	}
	if(i < MAX_SITES)
		sh->sites[i].count++;
	if(tick_budget() >= 0 && --tick_budget() < 0)
	{
		tick_budget() = -1;
		throw StepLimit {site};
	}
}
inline uint64_t ticks(const char* name)
{
	Shared* sh = shared();
	uint64_t c = 0;
	for(int i = 0; i < sh->nsites; i++)
		if(strcmp(sh->sites[i].name, name) == 0)
			c += sh->sites[i].count;
	return c;
}
struct BudgetGuard	 // RAII per-call step budget
{
	explicit BudgetGuard(int64_t b) { tick_budget() = b; }
	~BudgetGuard() { tick_budget() = -1; }
};

// ---------------------------------------------------------------------------------------------
// Clause statistics
inline ClauseStat& clause(const char* name)
{
	Shared* sh = shared();
	for(int i = 0; i < sh->nclauses; i++)
		if(strncmp(sh->clauses[i].name, name, sizeof sh->clauses[i].name - 1) == 0)	// names are stored cut to 63 characters: compare what is stored
			return sh->clauses[i];
	if(sh->nclauses >= MAX_CLAUSES)
		return sh->clauses[MAX_CLAUSES - 1];
	ClauseStat& c = sh->clauses[sh->nclauses++];
	memset(&c, 0, sizeof c);
	strncpy(c.name, name, sizeof c.name - 1);
	return c;
}

// Current case (set by the runner)
struct Cur
{
	const char* gen = "";
	uint64_t index	= 0;
	bool nontrivial = false;
	uint64_t phash	= 0;
	std::string params;	  // JSON object body describing the case (set by the generator via set_params)
	int violations = 0;
};
inline Cur& cur()
{
	static Cur c;
	return c;
}
inline void set_params(const J& j) { cur().params = j.obj(); }
inline void mark_nontrivial() { cur().nontrivial = true; }
inline void hash_param(double x)
{
	uint64_t u;
	memcpy(&u, &x, 8);
	cur().phash = mix(cur().phash, u);
}
inline void hash_param_u(uint64_t u) { cur().phash = mix(cur().phash, u); }

inline void violation(const std::string& key, const std::string& clause_name, const J& detail)
{
	Shared* sh = shared();
	sh->violations++;
	cur().violations++;
	if(sh->violations > 400)
		return;	  // keep output bounded; the count is still exact
	J j;
	j.str("t", "viol").str("key", key).str("clause", clause_name).str("gen", cur().gen).i("index", (long long) cur().index);
	j.i("seed", (long long) ctx().seed).str("flavour", VERIF_FLAVOUR).str("tier", ctx().thorough ? "thorough" : "quick");
	j.raw("params", cur().params.empty() ? "{}" : cur().params).raw("observation", detail.obj());
	emit(j.obj());
}
inline void known_hit(const std::string& key, const std::string& what, const J& detail)
{
	Shared* sh = shared();
	sh->known_hits++;
	if(sh->known_hits > 200)
		return;
	J j;
	j.str("t", "known").str("key", key).str("what", what).str("gen", cur().gen).i("index", (long long) cur().index);
	j.raw("params", cur().params.empty() ? "{}" : cur().params).raw("observation", detail.obj());
	emit(j.obj());
}
inline void inconclusive(const std::string& reason)
{
	shared()->inconclusive++;
	J j;
	j.str("t", "inconclusive").str("reason", reason).str("gen", cur().gen).i("index", (long long) cur().index);
	emit(j.obj());
}

// Judge |err| against tol for a clause.  ratio = err/tol; >1 is a violation with the given key.
// Returns true if held.
inline bool judge(const char* clause_name, double err, double tol, const std::function<J()>& detail, const char* key = nullptr)
{
	ClauseStat& c = clause(clause_name);
	c.n++;
	double ratio = (tol > 0) ? err / tol : (err == 0 ? 0.0 : INFINITY);
	if(std::isnan(err) || std::isnan(tol))
		ratio = INFINITY;
	if(ratio > c.max_ratio)
	{
		c.max_ratio = ratio;
		snprintf(c.argmax, sizeof c.argmax, "%s#%" PRIu64, cur().gen, cur().index);
	}
	if(!(ratio <= 1.0))
	{
		J d = detail();
		d.num("err", err).num("tol", tol);
		violation(key ? key : clause_name, clause_name, d);
		return false;
	}
	// development aid: VERIF_DEBUG_RATIO=<r> writes out every judged observation with err/tol above r (not a verdict)
	static const double dbg = getenv("VERIF_DEBUG_RATIO") ? atof(getenv("VERIF_DEBUG_RATIO")) : -1.0;
	if(dbg >= 0 && ratio > dbg)
	{
		J j;
		j.str("t", "debug").str("clause", clause_name).str("gen", cur().gen).i("index", (long long) cur().index).num("ratio", ratio).raw("params", cur().params.empty() ? "{}" : cur().params).raw("observation", detail().obj());
		emit(j.obj());
	}
	return true;
}
// Boolean clause
inline bool require(const char* clause_name, bool ok, const std::function<J()>& detail, const char* key = nullptr)
{
	ClauseStat& c = clause(clause_name);
	c.n++;
	if(!ok)
	{
		c.max_ratio = INFINITY;
		snprintf(c.argmax, sizeof c.argmax, "%s#%" PRIu64, cur().gen, cur().index);
		violation(key ? key : clause_name, clause_name, detail());
	}
	return ok;
}
inline void count_outside(const char* clause_name) { clause(clause_name).outside++; }
inline void count_nontrivial(const char* clause_name) { clause(clause_name).nontrivial++; }

inline void sample(const J& extra = J())
{
	// a few actual cases written out for the evidence file
	Shared* sh = shared();
	if(sh->emitted_samples >= 6)
		return;
	sh->emitted_samples++;
	J j;
	j.str("t", "sample").str("gen", cur().gen).i("index", (long long) cur().index).raw("params", cur().params.empty() ? "{}" : cur().params);
	if(!extra.s.empty())
		j.raw("observed", extra.obj());
	emit(j.obj());
}

// ---------------------------------------------------------------------------------------------
// Isolated request: one forked child performing exactly one request with stdout/stderr captured.
enum OutcomeKind
{
	RETURNED	 = 0,
	EXIT_FAIL	 = 1,	// exit status EXIT_FAILURE
	EXIT_OTHER	 = 2,
	SIGNALLED	 = 3,
	ASAN		 = 4,
	UBSAN		 = 5,
	WATCHDOG	 = 6,
	STEPLIMIT	 = 7
};
inline const char* outcome_name(int k)
{
	static const char* n[] = {"returned", "exit_failure", "exit_other", "signal", "asan_report", "ubsan_report", "watchdog", "step_limit"};
	return n[k & 7];
}
struct Outcome
{
	int kind = RETURNED;
	int code = 0;			// exit status or signal number
	std::string output;		// captured stdout+stderr of the request (first 2000 bytes)
	std::string payload;	// what the request wrote through the payload callback (result blob)
	size_t output_bytes = 0;
};
inline double now_s()
{
	struct timeval tv;
	gettimeofday(&tv, nullptr);
	return tv.tv_sec + 1e-6 * tv.tv_usec;
}
// fn receives a function to send back a result blob.  timeout_s is a generous watchdog only.
inline Outcome run_isolated(const std::function<void(const std::function<void(const std::string&)>&)>& fn, double timeout_s = 60.0, int64_t step_budget = -1)
{
	fflush(nullptr);
	int po[2], pp[2];
	if(pipe(po) || pipe(pp))
	{
		perror("pipe");
		_exit(3);
	}
	pid_t pid = fork();
	if(pid < 0)
	{
		perror("fork");
		_exit(3);
	}
	if(pid == 0)
	{
		close(po[0]);
		close(pp[0]);
		dup2(po[1], 1);
		dup2(po[1], 2);
		close(po[1]);
		int pfd	  = pp[1];
		auto send = [pfd](const std::string& s) {
			ssize_t r = write(pfd, s.data(), s.size());
			(void) r;
		};
		int status = 0;
		try
		{
			BudgetGuard g(step_budget);
			fn(send);
			const char ok[] = "\x01RETURNED";
			ssize_t r		= write(pfd, ok, sizeof ok - 1);
			(void) r;
		}
		catch(const StepLimit& s)
		{
			std::string m = std::string("\x02STEPLIMIT ") + s.site;
			ssize_t r	  = write(pfd, m.data(), m.size());
			(void) r;
			status = 0;
		}
		fflush(nullptr);
		_exit(status);
	}
	close(po[1]);
	close(pp[1]);
	Outcome o;
	struct pollfd fds[2] = {{po[0], POLLIN, 0}, {pp[0], POLLIN, 0}};
	bool open0 = true, open1 = true;
	double t0		= now_s();
	bool timed_out	= false;
	if(std::string(VERIF_FLAVOUR) == "asan")
		timeout_s *= 4;
	while(open0 || open1)
	{
		int r = poll(fds, 2, 200);
		if(r < 0 && errno != EINTR)
			break;
		char buf[4096];
		for(int k = 0; k < 2; k++)
			if(fds[k].fd >= 0 && (fds[k].revents & (POLLIN | POLLHUP | POLLERR)))
			{
				ssize_t n = read(fds[k].fd, buf, sizeof buf);
				if(n <= 0)
				{
					close(fds[k].fd);
					fds[k].fd = -1;
					(k == 0 ? open0 : open1) = false;
				}
				else if(k == 0)
				{
					o.output_bytes += (size_t) n;
					if(o.output.size() < 2000)
						o.output.append(buf, (size_t) std::min<ssize_t>(n, 2000 - (ssize_t) o.output.size()));
				}
				else
					o.payload.append(buf, (size_t) n);
			}
		if(now_s() - t0 > timeout_s)
		{
			kill(pid, SIGKILL);
			timed_out = true;
			break;
		}
	}
	for(int k = 0; k < 2; k++)
		if(fds[k].fd >= 0)
			close(fds[k].fd);
	int st = 0;
	waitpid(pid, &st, 0);
	bool returned = false, steplimit = false;
	size_t pos = o.payload.find("\x01RETURNED");
	if(pos != std::string::npos)
	{
		returned = true;
		o.payload.erase(pos);
	}
	pos = o.payload.find("\x02STEPLIMIT");
	if(pos != std::string::npos)
	{
		steplimit = true;
		o.payload.erase(pos);
	}
	if(timed_out)
		o.kind = WATCHDOG;
	else if(WIFSIGNALED(st))
	{
		o.kind = SIGNALLED;
		o.code = WTERMSIG(st);
	}
	else
	{
		o.code = WEXITSTATUS(st);
		if(o.code == 99 || o.output.find("AddressSanitizer") != std::string::npos)
			o.kind = ASAN;
		else if(o.code == 98 || o.output.find("runtime error:") != std::string::npos)
			o.kind = UBSAN;
		else if(steplimit)
			o.kind = STEPLIMIT;
		else if(o.code == 0 && returned)
			o.kind = RETURNED;
		else if(o.code == EXIT_FAILURE)
			o.kind = EXIT_FAIL;
		else
			o.kind = EXIT_OTHER;
	}
	shared()->outcomes[o.kind & 7]++;
	return o;
}
inline J outcome_json(const Outcome& o)
{
	J j;
	j.str("outcome", outcome_name(o.kind)).i("code", o.code).i("output_bytes", (long long) o.output_bytes).str("output", o.output.substr(0, 400));
	return j;
}
// "must reject": exit status EXIT_FAILURE, non-empty diagnostic, no sanitizer report, nothing returned
inline bool expect_reject(const char* clause_name, const Outcome& o, const char* key = nullptr)
{
	bool ok = (o.kind == EXIT_FAIL && o.output_bytes > 0 && o.payload.empty());
	return require(
		clause_name, ok, [&] { return outcome_json(o); }, key);
}
// "must accept": returned normally, no sanitizer report
inline bool expect_return(const char* clause_name, const Outcome& o, const char* key = nullptr)
{
	return require(
		clause_name, o.kind == RETURNED, [&] { return outcome_json(o); }, key);
}

// ---------------------------------------------------------------------------------------------
// Generators and the worker loop
typedef std::function<void(Rng&, uint64_t)> CaseFn;
struct Generator
{
	std::string name;
	uint64_t count;
	CaseFn fn;
	double case_timeout_s;
};
inline std::vector<Generator>& generators()
{
	static std::vector<Generator> g;
	return g;
}
inline void add_generator(const std::string& name, uint64_t count, CaseFn fn, double case_timeout_s = 120.0)
{
	generators().push_back({name, count, fn, case_timeout_s});
}

inline bool hset_insert(uint64_t h)
{
	Shared* sh = shared();
	if(h == 0)
		h = 1;
	const uint64_t mask = (1u << HSET_BITS) - 1;
	if(sh->hset_used > (1u << HSET_BITS) / 2)
		return false;	// table half full: stop counting (conservative)
	uint64_t i = h & mask;
	while(sh->hset[i] != 0)
	{
		if(sh->hset[i] == h)
			return false;
		i = (i + 1) & mask;
	}
	sh->hset[i] = h;
	sh->hset_used++;
	return true;
}

inline void run_case(const Generator& g, uint64_t index)
{
	Cur& c		 = cur();
	c.gen		 = g.name.c_str();
	c.index		 = index;
	c.nontrivial = false;
	c.phash		 = mix(hash_str(g.name.c_str()), 0x51ed270b);
	c.params.clear();
	c.violations = 0;
	Rng rng(mix(mix(ctx().seed, hash_str(g.name.c_str())), index));
	try
	{
		g.fn(rng, index);
	}
	catch(const StepLimit& s)
	{
		tick_budget() = -1;
		J d;
		d.str("outcome", "step_limit").str("site", s.site);
		violation(std::string("no-progress:") + s.site, "bounded-progress", d);
	}
	Shared* sh = shared();
	sh->cases++;
	if(c.nontrivial)
	{
		if(c.phash == mix(hash_str(g.name.c_str()), 0x51ed270b))
			c.phash = mix(c.phash, index);	 // generator did not hash its parameters: the index identifies the case
		if(hset_insert(c.phash))
			sh->distinct_nontrivial++;
	}
}

inline void describe_death(int st, std::string& kind, int& code)
{
	if(WIFSIGNALED(st))
	{
		kind = "signal";
		code = WTERMSIG(st);
	}
	else
	{
		code = WEXITSTATUS(st);
		kind = code == 99 ? "asan_report" : code == 98 ? "ubsan_report" : code == EXIT_FAILURE ? "exit_failure" : "exit_other";
	}
}

inline std::string read_tail(const char* path, size_t n = 1500)
{
	std::string s;
	FILE* f = fopen(path, "rb");
	if(!f)
		return s;
	fseek(f, 0, SEEK_END);
	long sz = ftell(f);
	fseek(f, sz > (long) n ? sz - (long) n : 0, SEEK_SET);
	char buf[2048];
	size_t r = fread(buf, 1, std::min(n, sizeof buf), f);
	s.assign(buf, r);
	fclose(f);
	return s;
}

inline int driver_main(int argc, char** argv, const char* property, const std::function<void()>& setup)
{
	Ctx& c	   = ctx();
	c.property = property;
	for(int i = 1; i < argc; i++)
	{
		std::string a = argv[i];
		auto val	  = [&]() -> std::string { return (i + 1 < argc) ? argv[++i] : ""; };
		if(a == "--seed")
			c.seed = strtoull(val().c_str(), nullptr, 10);
		else if(a == "--tier")
			c.thorough = (val() == "thorough");
		else if(a == "--shard")
		{
			std::string v = val();
			sscanf(v.c_str(), "%d/%d", &c.shard, &c.nshards);
		}
		else if(a == "--scale")
			c.scale = atof(val().c_str());
		else if(a == "--only")
		{
			std::string v = val();
			size_t p	  = v.rfind(':');
			c.only_gen	  = v.substr(0, p);
			c.only_index  = (p == std::string::npos) ? -1 : atoll(v.c_str() + p + 1);
		}
	}
	// protocol fd = original stdout; fds 1 and 2 go to a scratch file (library diagnostics)
	c.proto_fd = dup(1);
	char errpath[128];
	snprintf(errpath, sizeof errpath, "/tmp/verif-%s-%d.err", property, (int) getpid());
	int efd = open(errpath, O_CREAT | O_TRUNC | O_RDWR | O_APPEND, 0600);
	if(efd < 0)
		efd = open("/dev/null", O_WRONLY);
	dup2(efd, 1);
	dup2(efd, 2);
	close(efd);
	setvbuf(stdout, nullptr, _IONBF, 0);

	Shared* sh = (Shared*) mmap(nullptr, sizeof(Shared), PROT_READ | PROT_WRITE, MAP_SHARED | MAP_ANONYMOUS, -1, 0);
	if(sh == MAP_FAILED)
	{
		emit("{\"t\":\"fatal\",\"reason\":\"mmap failed\"}");
		return 3;
	}
	memset(sh, 0, offsetof(Shared, hset));
	shared() = sh;
#ifdef LIBPHYSICA_VERIF
	libphysica::verif::tick_handler() = &tick_handler;
#endif
	setup();

	double t_start = now_s();
	for(const Generator& g : generators())
	{
		if(!c.only_gen.empty() && c.only_gen != g.name)
			continue;
		if(sh->violations >= EARLY_STOP_VIOLATIONS)
		{
			emit("{\"t\":\"early_stop\",\"reason\":\"64 violations recorded in this shard; remaining cases skipped\"}");
			break;
		}
		// indices of this shard
		uint64_t next = (uint64_t) c.shard;
		if(c.only_index >= 0)
			next = (uint64_t) c.only_index;
		int retries_left = 1;
		while(next < g.count)
		{
			fflush(nullptr);
			if(ftruncate(1, 0) != 0)
				(void) 0;
			strncpy(sh->cur_gen, g.name.c_str(), sizeof sh->cur_gen - 1);
			sh->cur_index = next;
			sh->heartbeat = 0;
			pid_t pid	  = fork();
			if(pid < 0)
			{
				emit("{\"t\":\"fatal\",\"reason\":\"fork failed\"}");
				return 3;
			}
			if(pid == 0)
			{
				uint64_t step = (c.only_index >= 0) ? g.count : (uint64_t) c.nshards;
				for(uint64_t idx = next; idx < g.count; idx += step)
				{
					sh->cur_index = idx;
					sh->heartbeat++;
					if((sh->heartbeat & 255) == 0)
					{
						fflush(nullptr);
						if(ftruncate(1, 0) != 0)
							(void) 0;	// keep the diagnostics scratch file small
					}
					run_case(g, idx);
					if(c.only_index >= 0)
						break;
					if(sh->violations >= EARLY_STOP_VIOLATIONS)
						break;	 // the verdict of this shard is settled; a broken library may also be very slow
				}
				sh->cur_index = UINT64_MAX;
				fflush(nullptr);
				_exit(0);
			}
			// parent: wait with a stall watchdog (no verdict depends on it)
			int st			 = 0;
			uint64_t last_hb = 0, last_idx = next;
			double last_change = now_s();
			bool killed		   = false;
			double limit	   = g.case_timeout_s * (c.is_asan() ? 4 : 1);
			for(;;)
			{
				pid_t r = waitpid(pid, &st, WNOHANG);
				if(r == pid)
					break;
				usleep(5000);
				if(sh->heartbeat != last_hb || sh->cur_index != last_idx)
				{
					last_hb		= sh->heartbeat;
					last_idx	= sh->cur_index;
					last_change = now_s();
				}
				else if(now_s() - last_change > limit)
				{
					kill(pid, SIGKILL);
					waitpid(pid, &st, 0);
					killed = true;
					break;
				}
			}
			uint64_t died_at = sh->cur_index;
			if(!killed && WIFEXITED(st) && WEXITSTATUS(st) == 0 && died_at == UINT64_MAX)
				break;	 // generator finished
			// The worker died (or stalled) while executing case died_at.
			cur().gen	= g.name.c_str();
			cur().index = died_at;
			cur().params.clear();
			if(died_at == UINT64_MAX)
			{
				emit("{\"t\":\"fatal\",\"reason\":\"worker exit status after completion\"}");
				break;
			}
			if(killed)
			{
				if(retries_left-- > 0)
				{
					next = died_at;	  // re-run once
					continue;
				}
				inconclusive("watchdog: no progress for " + std::to_string((int) limit) + " s");
				retries_left = 1;
			}
			else
			{
				std::string kind;
				int code = 0;
				describe_death(st, kind, code);
				J d;
				d.str("outcome", kind).i("code", code).str("output_tail", read_tail(errpath));
				sh->cases++;
				violation("process-death:" + kind, "valid-request-returns", d);
			}
			if(c.only_index >= 0)
				break;
			next = died_at + (uint64_t) c.nshards;
			if(sh->violations >= EARLY_STOP_VIOLATIONS)
				break;
		}
	}
	// final records
	for(int i = 0; i < sh->nclauses; i++)
	{
		ClauseStat& cs = sh->clauses[i];
		J j;
		j.str("t", "clause").str("id", cs.name).i("n", (long long) cs.n).i("nontrivial", (long long) cs.nontrivial).i("outside", (long long) cs.outside);
		j.num("max_ratio", cs.max_ratio).str("argmax", cs.argmax);
		emit(j.obj());
	}
	{
		J j;
		j.str("t", "ticks");
		std::map<std::string, uint64_t> m;
		for(int i = 0; i < sh->nsites; i++)
			m[sh->sites[i].name] += sh->sites[i].count;
		for(auto& kv : m)
			j.i(kv.first.c_str(), (long long) kv.second);
		emit(j.obj());
	}
	{
		J j;
		j.str("t", "outcomes");
		for(int k = 0; k < 8; k++)
			j.i(outcome_name(k), (long long) sh->outcomes[k]);
		emit(j.obj());
	}
	{
		J j;
		j.str("t", "summary").str("flavour", VERIF_FLAVOUR).i("cases", (long long) sh->cases).i("distinct_nontrivial", (long long) sh->distinct_nontrivial);
		j.i("violations", (long long) sh->violations).i("known_hits", (long long) sh->known_hits).i("inconclusive", (long long) sh->inconclusive).num("wall_s", now_s() - t_start);
		emit(j.obj());
	}
	unlink(errpath);
	return 0;
}

// ---------------------------------------------------------------------------------------------
// Capture what the library writes to std::cout / std::cerr during a call (warnings are part of some properties)
struct StreamCapture
{
	std::ostringstream out, err;
	std::streambuf *old_out, *old_err;
	StreamCapture()
	{
		old_out = std::cout.rdbuf(out.rdbuf());
		old_err = std::cerr.rdbuf(err.rdbuf());
	}
	~StreamCapture()
	{
		std::cout.rdbuf(old_out);
		std::cerr.rdbuf(old_err);
	}
};

// ---------------------------------------------------------------------------------------------
// small numeric helpers shared by drivers
static const double EPS = 2.220446049250313e-16;
inline double ulp(double x)
{
	x = std::fabs(x);
	if(x == 0)
		return 4.9e-324;
	return std::nextafter(x, INFINITY) - x;
}
inline uint64_t bits(double x)
{
	uint64_t u;
	memcpy(&u, &x, 8);
	return u;
}
inline bool same_bits(double a, double b) { return bits(a) == bits(b) || (std::isnan(a) && std::isnan(b)); }
// distance in units in the last place (large if signs differ)
inline double ulp_dist(double a, double b)
{
	if(a == b)
		return 0;
	if(std::isnan(a) || std::isnan(b))
		return INFINITY;
	int64_t ia, ib;
	memcpy(&ia, &a, 8);
	memcpy(&ib, &b, 8);
	if(ia < 0)
		ia = INT64_MIN - ia;
	if(ib < 0)
		ib = INT64_MIN - ib;
	return std::fabs((double) ia - (double) ib);
}

// "equal to rounding": identical, both NaN, or at most n units in the last place apart.  Used where a property states an identity between two results
// of the library but not that they are computed by the same sequence of operations (a re-associated sum, a product with a precomputed reciprocal, an
// (a+b)/2 written as a+(b-a)/2 are all legitimate): demanding identical bits there would alarm on harmless maintenance changes.
inline bool near_ulps(double a, double b, double n) { return same_bits(a, b) || ulp_dist(a, b) <= n; }

}	// namespace vf

#define VERIF_MAIN(PROPERTY, SETUP)                                \
	int main(int argc, char** argv)                                \
	{                                                              \
		return vf::driver_main(argc, argv, PROPERTY, SETUP);       \
	}

#endif
