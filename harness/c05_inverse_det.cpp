// C05 - Inverse and Determinant are correct for every square matrix (DESIGN.md section 4, C05).
// Reference: pivoted Gauss-Jordan and the signed subset recurrence of the Laplace expansion in long double (linalg_common.hpp),
// the permanent of |M| as the rounding scale of a determinant, n*kappa_F*eps as the scale of an inverse.
// Valid requests run in the forked worker (a death is a violation); singular / non-square requests run one per isolated child.
#include "linalg_common.hpp"

using namespace libphysica;
using namespace vf;
using namespace la;

static const double K_DET = 8, K_INV = 16;

// ------------------------------------------------------------------------------------------------------------------
// generators of square matrices (double entries, moderate magnitudes so that no determinant over/underflows)
enum Kind
{
	DENSE,
	GRADED,
	SPARSE_ZERO_CORNER,
	SIGNED_PERMUTATION,
	TINY_LEADING,
	TRIANGULAR,
	DIAGONAL,
	SYMMETRIC,
	ZERO_LEADING_MINORS,
	MIXED_MAGNITUDES,
	GROWTH,
	NKINDS
};
static const char* kind_name(int k)
{
	static const char* n[] = {"dense-gaussian", "graded(kappa<=1e8)", "40%-zeros-zero-corner", "signed-permutation", "tiny-leading-entry", "triangular", "diagonal", "symmetric", "zero-leading-minors", "mixed-magnitudes", "large-subdiagonal-part-and-full-last-column"};
	return n[k % NKINDS];
}
static RM gen_square(Rng& rng, unsigned n, int kind, double& kappa_target)
{
	kappa_target = 0;
	RM A(n, n);
	double scale = rng.coin(0.3) ? rng.loguni(1e-6, 1e6) : 1.0;
	switch(kind % NKINDS)
	{
		case DENSE:
			for(auto& x : A.a)
				x = rng.normal();
			break;
		case GRADED: {
			LM U = haar(rng, n), V = haar(rng, n);
			double kap	 = rng.loguni(1.0, 1e8);
			kappa_target = kap;
			std::vector<ld> sig(n);
			for(unsigned i = 0; i < n; i++)
				sig[i] = n == 1 ? 1.0L : powl((ld) kap, -(ld) i / (n - 1));
			for(unsigned i = 0; i < n; i++)
				for(unsigned j = 0; j < n; j++)
				{
					ld s = 0;
					for(unsigned k = 0; k < n; k++)
						s += U(i, k) * sig[k] * V(j, k);
					A(i, j) = (double) s;
				}
			break;
		}
		case SPARSE_ZERO_CORNER:
			for(auto& x : A.a)
				x = rng.coin(0.4) ? 0.0 : rng.normal();
			A(0, 0) = 0.0;
			break;
		case SIGNED_PERMUTATION: {
			std::vector<unsigned> p(n);
			for(unsigned i = 0; i < n; i++)
				p[i] = i;
			for(unsigned i = n - 1; i > 0; i--)
				std::swap(p[i], p[rng.below(i + 1)]);
			for(unsigned i = 0; i < n; i++)
				A(i, p[i]) = rng.sign() * (rng.coin() ? 1.0 : rng.loguni(0.1, 10));
			break;
		}
		case TINY_LEADING:
			for(auto& x : A.a)
				x = rng.normal();
			A(0, 0) = rng.sign() * rng.loguni(1e-17, 1e-12);
			if(n > 2 && rng.coin())
				A(1, 1) = rng.sign() * rng.loguni(1e-17, 1e-12);
			break;
		case TRIANGULAR: {
			bool upper = rng.coin();
			for(unsigned i = 0; i < n; i++)
				for(unsigned j = 0; j < n; j++)
					if(i == j)
						A(i, j) = rng.sign() * rng.uni(0.5, 2.0);
					else if((j > i) == upper)
						A(i, j) = rng.normal();
			break;
		}
		case DIAGONAL:
			for(unsigned i = 0; i < n; i++)
				A(i, i) = rng.mag(1e-3, 1e3);
			break;
		case SYMMETRIC:
			for(unsigned i = 0; i < n; i++)
				for(unsigned j = i; j < n; j++)
					A(i, j) = A(j, i) = rng.normal();
			break;
		case ZERO_LEADING_MINORS: {
			// block anti-diagonal structure plus noise elsewhere: every leading principal minor of order < n vanishes or is tiny
			for(auto& x : A.a)
				x = 0.0;
			for(unsigned i = 0; i < n; i++)
				A(i, n - 1 - i) = rng.sign() * rng.uni(0.5, 2.0);
			for(unsigned i = 0; i < n; i++)
				for(unsigned j = 0; j < n; j++)
					if(i + j >= n && rng.coin(0.5))
						A(i, j) = rng.normal();
			break;
		}
		case GROWTH: {
			// Wilkinson's growth matrix with the sub-diagonal part c times the diagonal (c from 1 to just under 10) and a full last column: an elimination
			// that leaves the small diagonal entries as pivots multiplies the last column by (1+c) per step (seeded change C05-r7m2: threshold pivoting)
			double c = rng.coin(0.6) ? rng.uni(9.0, 9.95) : rng.loguni(1.0, 9.95);
			for(unsigned i = 0; i < n; i++)
			{
				double d = rng.sign() * rng.uni(1.0, 1.02);
				A(i, i)	 = d;
				for(unsigned j = 0; j < i; j++)
					A(i, j) = -d * c * rng.uni(0.97, 1.0);
				if(i + 1 < n)
					A(i, n - 1) = rng.uni(0.75, 1.0);
			}
			break;
		}
		default:
			for(auto& x : A.a)
				x = rng.coin(0.15) ? 0.0 : rng.mag(1e-4, 1e4);
			break;
	}
	for(auto& x : A.a)
		x *= scale;
	return A;
}
// exactly singular matrices with small integer entries (Laplace expansion is exact in double)
static RM gen_integer_singular(Rng& rng, unsigned n, int mode)
{
	RM A(n, n);
	for(auto& x : A.a)
		x = rng.irange(-4, 4);
	if(n == 1)
	{
		A(0, 0) = 0;
		return A;
	}
	switch(mode % 4)
	{
		case 0: {	// duplicate row
			unsigned r1 = rng.below(n), r2 = (r1 + 1 + rng.below(n - 1)) % n;
			for(unsigned j = 0; j < n; j++)
				A(r2, j) = A(r1, j);
			break;
		}
		case 1: {	// zero row or column
			unsigned r = rng.below(n);
			bool row   = rng.coin();
			for(unsigned j = 0; j < n; j++)
				(row ? A(r, j) : A(j, r)) = 0;
			break;
		}
		case 2: {	// integer product of n x (n-1) and (n-1) x n
			RM B(n, n - 1), C(n - 1, n);
			for(auto& x : B.a)
				x = rng.irange(-2, 2);
			for(auto& x : C.a)
				x = rng.irange(-2, 2);
			for(unsigned i = 0; i < n; i++)
				for(unsigned j = 0; j < n; j++)
				{
					double s = 0;
					for(unsigned k = 0; k + 1 < n; k++)
						s += B(i, k) * C(k, j);
					A(i, j) = s;
				}
			break;
		}
		default: {	 // one row is an integer combination of two others
			if(n < 3)
			{
				for(unsigned j = 0; j < n; j++)
					A(1, j) = 2 * A(0, j);
				break;
			}
			unsigned r = rng.below(n), r1 = (r + 1) % n, r2 = (r + 2) % n;
			int c1 = rng.irange(-2, 2), c2 = rng.irange(-2, 2);
			for(unsigned j = 0; j < n; j++)
				A(r, j) = c1 * A(r1, j) + c2 * A(r2, j);
			break;
		}
	}
	return A;
}
static J mat_json(const RM& A, const char* kind)
{
	return J().str("kind", kind).i("rows", A.r).i("columns", A.c).vec("entries_row_major", A.a);
}
static bool leading_minors_benign(const RM& A)
{
	// all leading principal minors (unpivoted elimination pivots) at least 1e-3 in relative magnitude: a row exchange does not matter
	LM W = widen(A);
	unsigned n = A.r;
	ld mx = maxabs(W);
	for(unsigned i = 0; i < n; i++)
	{
		if(fabsl(W(i, i)) < 1e-3L * mx)
			return false;
		for(unsigned j = i + 1; j < n; j++)
		{
			ld f = W(j, i) / W(i, i);
			for(unsigned k = i; k < n; k++)
				W(j, k) -= f * W(i, k);
		}
	}
	return true;
}

// ------------------------------------------------------------------------------------------------------------------
static void check_determinant(Rng& rng, const RM& A, const char* kind, bool rows_rescaled = false)
{
	unsigned n = A.r;
	Matrix M   = to_lib(A);
	LM W	   = widen(A);
	ld ref	   = det_expand(W);
	ld perm	   = perm_abs(W);
	double det = M.Determinant();
	// (+ the spacing of subnormal numbers per term of the expansion, for determinants at the lower end of the format)
	double tol = K_DET * n * EPS * (double) perm + 5040 * 4.9406564584124654e-324;
	judge("determinant-vs-reference", (double) fabsl((ld) det - ref), tol, [&] { return mat_json(A, kind).d("Determinant", det).d("reference", (double) ref).d("permanent_of_abs", (double) perm); });
	// cross-check of the reference itself with the pivoted elimination (also long double)
	{
		LM X;
		ld dgj;
		int ex;
		gj_inverse(W, X, dgj, ex);
		// elimination error scale: product of the row 1-norms (>= permanent; non-zero also for structurally singular matrices), growth factor allowance 1e3
		ld rows1 = 1;
		for(unsigned i = 0; i < n; i++)
		{
			ld s = 0;
			for(unsigned j = 0; j < n; j++)
				s += fabsl(W(i, j));
			rows1 *= s;
		}
		judge("reference-self-check-expansion-vs-elimination", (double) fabsl(dgj - ref), 64 * n * 5.5e-20 * (double) rows1 * 1e3, [&] { return mat_json(A, kind).d("expansion", (double) ref).d("elimination", (double) dgj); });
	}
	bool inv = M.Invertible();
	require("invertible-iff-determinant-nonzero", inv == (det != 0.0), [&] { return mat_json(A, kind).d("Determinant", det).i("Invertible", inv); });
	// transpose invariance
	double dt = M.Transpose().Determinant();
	judge("determinant-transpose-invariant", std::fabs(dt - det), 2 * tol, [&] { return mat_json(A, kind).d("det(M)", det).d("det(M^T)", dt); });
	// sign flip under a row swap
	if(n >= 2)
	{
		unsigned r1 = rng.below(n), r2 = (r1 + 1 + rng.below(n - 1)) % n;
		RM B = A;
		for(unsigned j = 0; j < n; j++)
			std::swap(B(r1, j), B(r2, j));
		double ds = to_lib(B).Determinant();
		judge("determinant-changes-sign-under-row-swap", std::fabs(ds + det), 2 * tol, [&] { return mat_json(A, kind).i("row1", r1).i("row2", r2).d("det(M)", det).d("det(swapped)", ds); });
	}
	// a reference to a row that was handed out before Determinant()/Invertible() were called, and is written through afterwards: the next call must see
	// the matrix as it is now (seeded change C05-r6m2 remembered the determinant until the next non-const member call)
	if(n >= 2 && !rows_rescaled)
	{
		Matrix H = to_lib(A);
		unsigned i = rng.below(n), j = rng.below(n);
		std::vector<double>& row = H[i];
		double before = H.Determinant();
		bool inv0	  = H.Invertible();
		(void) inv0;
		double nv = (A(i, j) == 0.0) ? 1.0 : (rng.coin() ? -2.0 * A(i, j) : 0.0);
		row[j]	  = nv;
		RM B	  = A;
		B(i, j)	  = nv;
		LM WB	  = widen(B);
		ld refB	  = det_expand(WB);
		double after = H.Determinant();
		judge("determinant-after-write-through-a-retained-row-reference", (double) fabsl((ld) after - refB), K_DET * n * EPS * (double) perm_abs(WB), [&] { return mat_json(A, kind).i("row", i).i("column", j).d("new_entry", nv).d("Determinant_before", before).d("Determinant_after", after).d("reference_after", (double) refB); });
		require("invertible-iff-determinant-nonzero", H.Invertible() == (after != 0.0), [&] { return mat_json(B, kind).d("Determinant", after).i("Invertible", H.Invertible()); });
	}
	// multiplicativity with a second random matrix of the same size
	if(!rows_rescaled)
	{
		double dummy;
		RM B  = gen_square(rng, n, rng.irange(0, NKINDS - 1), dummy);
		LM WB = widen(B);
		Matrix MB = to_lib(B);
		Matrix P  = M * MB;
		double dP = P.Determinant(), dB = MB.Determinant();
		LM absprod = mul(absmat(W), absmat(WB));
		double tolp = 2 * K_DET * n * n * EPS * (double) perm_abs(absprod);
		judge("determinant-multiplicative", std::fabs(dP - det * dB), tolp, [&] { return mat_json(A, kind).vec("B_row_major", B.a).d("det(A)", det).d("det(B)", dB).d("det(AB)", dP); });
	}
}

static void case_determinant(Rng& rng, uint64_t index)
{
	unsigned n = 1 + (unsigned) (index % 7);
	int kind   = (int) ((index / 7) % NKINDS);
	double kt;
	RM A = gen_square(rng, n, kind, kt);
	set_params(mat_json(A, kind_name(kind)));
	hash_matrix(A);
	if(n >= 3 && !leading_minors_benign(A))
		mark_nontrivial();
	check_determinant(rng, A, kind_name(kind));
	ld amax = maxabs(widen(A));
	// the same matrix at the lower end of the format: scaled by an exact power of two so that the determinant is a subnormal number - still non-zero, so
	// the matrix is invertible (seeded change C05-r6m3 compared |det| with the smallest normal number)
	if(index % 9 == 4 && amax > 0)
	{
		ld d0 = fabsl(det_expand(widen(A)));
		if(d0 > 0)
		{
			int e = (int) std::lround((-(double) rng.irange(1030, 1068) - (double) log2l(d0)) / n);
			RM B  = A;
			for(auto& x : B.a)
				x = std::ldexp(x, e);
			double db = to_lib(B).Determinant();
			ld refb	  = det_expand(widen(B));
			if(fabsl(refb) >= 0x1p-1070L && fabsl(refb) < 0x1p-1023L)
			{
				judge("determinant-vs-reference", (double) fabsl((ld) db - refb), K_DET * n * EPS * (double) perm_abs(widen(B)) + 5040 * 4.9406564584124654e-324, [&] { return mat_json(B, kind_name(kind)).d("Determinant", db).d("reference", (double) refb); });
				bool inv = to_lib(B).Invertible();
				require("invertible-iff-determinant-nonzero", inv == (db != 0.0), [&] { return mat_json(B, kind_name(kind)).d("Determinant", db).i("Invertible", inv); });
				mark_nontrivial();
			}
		}
	}
	// one row made of subnormal numbers, the others scaled up (all by exact powers of two, every partial product of the expansion stays a normal number):
	// the determinant is an ordinary number to which the subnormal entries contribute in full (seeded change C05-r6m1 flushed subnormal entries to zero
	// in the constructor that Sub_Matrix uses)
	if(n == 3 && index % 5 == 2 && amax >= 1e-3L && amax <= 1e3L)
	{
		RM B = A;
		int sdown = rng.irange(1030, 1045), r_sub = rng.irange(0, 2);
		for(unsigned i = 0; i < 3; i++)
			for(unsigned j = 0; j < 3; j++)
				B(i, j) = std::ldexp(A(i, j), (int) i == r_sub ? -sdown : 500);
		check_determinant(rng, B, kind_name(kind), true);
	}
	if(kind == TRIANGULAR || kind == DIAGONAL)
	{
		ld prod = 1;
		for(unsigned i = 0; i < n; i++)
			prod *= (ld) A(i, i);
		double det = to_lib(A).Determinant();
		judge("triangular-determinant-is-product-of-diagonal", (double) fabsl((ld) det - prod), K_DET * n * EPS * (double) fabsl(prod), [&] { return mat_json(A, kind_name(kind)).d("Determinant", det).d("product_of_diagonal", (double) prod); });
	}
	if(index % 1999 == 0)
		sample(J().d("Determinant", to_lib(A).Determinant()));
}

static void case_inverse(Rng& rng, uint64_t index)
{
	unsigned n = 1 + (unsigned) (index % 7);
	int kind   = (int) ((index / 7) % NKINDS);
	double kt;
	RM A = gen_square(rng, n, kind, kt);
	set_params(mat_json(A, kind_name(kind)));
	hash_matrix(A);
	LM W = widen(A), Xref;
	ld dref;
	int ex;
	if(!gj_inverse(W, Xref, dref, ex))
	{
		count_outside("inverse-vs-reference");
		return;
	}
	ld kappa = fro(W) * fro(Xref);
	if(kappa > 1e10L)
	{
		count_outside("inverse-vs-reference");	 // outside the quantifier (condition number up to 1e8)
		return;
	}
	bool nontriv = n >= 3 && !leading_minors_benign(A);
	if(nontriv)
		mark_nontrivial();
	Matrix M = to_lib(A);
	if(M.Determinant() == 0.0)
	{
		// invertible in exact arithmetic but the (rounded) determinant vanished: cannot happen for kappa <= 1e10 and moderate entries
		require("invertible-matrix-has-nonzero-determinant", false, [&] { return mat_json(A, kind_name(kind)).d("kappa_F", (double) kappa); });
		return;
	}
	uint64_t ex0 = ticks("Inverse.row_exchange");
	Matrix X	 = M.Inverse();	  // a death here is recorded by the worker runner as a violation of this case
	uint64_t exchanges = ticks("Inverse.row_exchange") - ex0;
	require("inverse-has-the-shape-of-the-matrix", X.Rows() == n && X.Columns() == n, [&] { return mat_json(A, kind_name(kind)).i("rows", X.Rows()).i("columns", X.Columns()); });
	if(X.Rows() != n || X.Columns() != n)
		return;
	// the rows of the result as its accessors hand them out: n entries each (seeded change C05-r7m1 left the 2n-wide work array behind the first n columns)
	{
		bool rows_ok = true;
		for(unsigned i = 0; i < n; i++)
			rows_ok = rows_ok && X[i].size() == n && X.Return_Row(i).Size() == n;
		for(unsigned j = 0; j < n; j++)
			rows_ok = rows_ok && X.Return_Column(j).Size() == n;
		require("inverse-has-the-shape-of-the-matrix", rows_ok, [&] { return mat_json(A, kind_name(kind)).i("entries_in_row_0", (long long) X[0].size()).i("Return_Row(0).Size()", X.Return_Row(0).Size()); }, "inverse-rows-hold-n-entries");
	}
	LM XL	= widen(from_lib(X));
	ld relerr = fro_diff(XL, Xref) / fro(Xref);
	double tol = K_INV * n * (double) kappa * EPS;
	judge("inverse-vs-reference", (double) relerr, tol, [&] { return mat_json(A, kind_name(kind)).d("kappa_F", (double) kappa).vec("Inverse_row_major", from_lib(X).a).i("row_exchanges", (long long) exchanges); });
	LM I  = identity(n);
	ld rl = fro_diff(mul(XL, W), I), rr = fro_diff(mul(W, XL), I);
	judge("left-residual-XM-minus-I", (double) rl, K_INV * n * (double) kappa * EPS * std::sqrt((double) n), [&] { return mat_json(A, kind_name(kind)).d("kappa_F", (double) kappa).d("residual", (double) rl); });
	judge("right-residual-MX-minus-I", (double) rr, K_INV * n * (double) kappa * (double) kappa * EPS, [&] { return mat_json(A, kind_name(kind)).d("kappa_F", (double) kappa).d("residual", (double) rr); });
	if(index % 1999 == 0)
		sample(J().d("kappa_F", (double) kappa).d("relative_error", (double) relerr).i("row_exchanges", (long long) exchanges));
}

// rejected requests: integer-singular and non-square, one isolated child each
static void case_reject(Rng& rng, uint64_t index)
{
	bool nonsquare = index % 3 == 0;
	RM A;
	std::string what;
	if(nonsquare)
	{
		unsigned r = 1 + rng.below(6), c = 1 + rng.below(6);
		if(r == c)
			c = r + 1;
		A = RM(r, c);
		for(auto& x : A.a)
			x = rng.normal();
		what = "non-square";
	}
	else
	{
		unsigned n = 1 + (unsigned) ((index / 3) % 7);
		A		   = gen_integer_singular(rng, n, (int) (index / 21));
		what	   = "integer-singular";
		// (Real-valued matrices with a repeated row were tried here after seeded change C05-r7m3 and withdrawn: that the unchanged elimination meets an
		// exactly vanishing row relies on x/x == 1, which a textbook reformulation - normalise the pivot row first, harmless change C05-b1 - does not
		// have.  Exact singularity of non-integer matrices is not something a floating-point elimination can promise; the rejected side stays with
		// matrices whose arithmetic is exact.)
	}
	set_params(mat_json(A, what.c_str()));
	hash_matrix(A);
	mark_nontrivial();
	int which = (int) (index % 2);	 // 0 Inverse, 1 Determinant (non-square only) / Inverse
	if(!nonsquare)
	{
		// exact integer arithmetic: the determinant is exactly 0 and Invertible() is false
		Matrix M   = to_lib(A);
		double det = M.Determinant();
		require("integer-singular-determinant-is-exactly-zero", det == 0.0, [&] { return mat_json(A, what.c_str()).d("Determinant", det); });
		require("integer-singular-not-invertible", !M.Invertible(), [&] { return mat_json(A, what.c_str()); });
		which = 0;
	}
	Outcome o = run_isolated([&](const std::function<void(const std::string&)>& send) {
		Matrix M = to_lib(A);
		if(which == 0)
		{
			Matrix X = M.Inverse();
			send(hexf(X.Rows() ? X[0][0] : 0.0));
		}
		else
			send(hexf(M.Determinant()));
	});
	if(o.kind == WATCHDOG)
	{
		inconclusive("watchdog on a rejected request");
		return;
	}
	expect_reject(nonsquare ? (which == 0 ? "inverse-of-non-square-terminates-with-diagnostic" : "determinant-of-non-square-terminates-with-diagnostic") : "inverse-of-singular-terminates-with-diagnostic", o);
	if(nonsquare)
	{
		Matrix M = to_lib(A);
		require("non-square-not-invertible", !M.Invertible(), [&] { return mat_json(A, what.c_str()); });
	}
}

static void setup()
{
	add_generator("determinants", ctx().count(21000, 700000), case_determinant);
	add_generator("inverses", ctx().count(42000, 1400000), case_inverse);
	add_generator("object_histories", ctx().count(1500, 150000), [](Rng& rng, uint64_t i) { la::matrix_history_case(rng, i, true); });
	add_generator("rejected", ctx().count(420, 8400), case_reject);
}
VERIF_MAIN("C05", setup)
