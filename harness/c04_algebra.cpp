// C04 - vector and matrix algebra obeys the algebraic laws for every conformable shape.
// Oracle: a reference matrix type (linalg_common.hpp).  Element-wise operations and scalar scaling must be
// bit-identical to the single IEEE operation, products within n*eps*sum|a_ik||b_kj| of the long-double sum,
// identities compared with the library's == as the property states them.  Equal shapes must return (a process
// death inside a case is recorded by the runner); every unequal pair must exit EXIT_FAILURE with a diagnostic
// (one child per request).
#include "linalg_common.hpp"

using namespace libphysica;
using namespace vf;
using namespace la;

// ---------------------------------------------------------------------------------------------
// entries
static double entry(Rng& rng, int mode)
{
	switch(mode)
	{
		case 0: return (double) rng.irange(-1, 1);	 // {0, +-1}
		case 1: return rng.mag(1e-8, 1e8);			 // mixed magnitudes
		case 2:										 // zeros of both signs, ones, mixed magnitudes
		{
			double u = rng.u01();
			if(u < 0.2)
				return 0.0;
			if(u < 0.3)
				return -0.0;
			if(u < 0.5)
				return rng.sign();
			return rng.mag(1e-8, 1e8);
		}
		default: return (double) rng.irange(-9, 9);
	}
}
static RM rand_matrix(Rng& rng, unsigned r, unsigned c, int mode)
{
	RM A(r, c);
	for(auto& x : A.a)
		x = entry(rng, mode);
	return A;
}
static std::vector<double> rand_vector(Rng& rng, unsigned n, int mode)
{
	std::vector<double> v(n);
	for(auto& x : v)
		x = entry(rng, mode);
	return v;
}

// ---------------------------------------------------------------------------------------------
// comparison helpers
static double CMP_ULPS = 0;	  // 0: identical bits; n: equal to rounding (quotients may be formed with a reciprocal)
static bool same_matrix(const Matrix& got, const RM& ref, std::string& why)
{
	if(got.Rows() != ref.r || got.Columns() != ref.c)
	{
		why = "shape " + shape_str(got.Rows(), got.Columns()) + " expected " + shape_str(ref.r, ref.c);
		return false;
	}
	for(unsigned i = 0; i < ref.r; i++)
	{
		if(got[i].size() != ref.c)
		{
			why = "row " + std::to_string(i) + " holds " + std::to_string(got[i].size()) + " entries";
			return false;
		}
		for(unsigned j = 0; j < ref.c; j++)
			if(!near_ulps(got[i][j], ref(i, j), CMP_ULPS))
			{
				why = "entry [" + std::to_string(i) + "][" + std::to_string(j) + "] = " + hexf(got[i][j]) + " expected " + hexf(ref(i, j));
				return false;
			}
	}
	return true;
}
static bool same_vector(const Vector& got, const std::vector<double>& ref, std::string& why)
{
	if(got.Size() != ref.size())
	{
		why = "size " + std::to_string(got.Size()) + " expected " + std::to_string(ref.size());
		return false;
	}
	for(unsigned i = 0; i < ref.size(); i++)
		if(!near_ulps(got[i], ref[i], CMP_ULPS))
		{
			why = "component [" + std::to_string(i) + "] = " + hexf(got[i]) + " expected " + hexf(ref[i]);
			return false;
		}
	return true;
}
static void req_matrix(const char* clause, const std::string& spelling, const Matrix& got, const RM& ref)
{
	std::string why;
	bool ok = same_matrix(got, ref, why);
	require(
		clause, ok, [&] { return J().str("spelling", spelling).str("mismatch", why); }, (std::string(clause) + ":" + spelling).c_str());
}
static void req_vector(const char* clause, const std::string& spelling, const Vector& got, const std::vector<double>& ref)
{
	std::string why;
	bool ok = same_vector(got, ref, why);
	require(
		clause, ok, [&] { return J().str("spelling", spelling).str("mismatch", why); }, (std::string(clause) + ":" + spelling).c_str());
}
static void req_bool(const char* clause, const std::string& spelling, bool got, bool ref)
{
	require(
		clause, got == ref, [&] { return J().str("spelling", spelling).i("got", got).i("expected", ref); }, (std::string(clause) + ":" + spelling).c_str());
}

// product of reference matrices: long-double sums and the scale sum|a||b|; judged entry by entry
static void judge_product(const char* clause, const std::string& spelling, const RM& got, const RM& A, const RM& B, double factor = 1.0)
{
	std::string key = std::string(clause) + ":" + spelling;
	if(got.r != A.r || got.c != B.c)
	{
		require(
			clause, false, [&] { return J().str("spelling", spelling).str("mismatch", "shape " + shape_str(got.r, got.c) + " expected " + shape_str(A.r, B.c)); }, key.c_str());
		return;
	}
	double worst_err = 0, worst_tol = 0, worst_ratio = -1, wg = 0, wr = 0;
	unsigned wi = 0, wj = 0;
	for(unsigned i = 0; i < A.r; i++)
		for(unsigned j = 0; j < B.c; j++)
		{
			ld s = 0, S = 0;
			for(unsigned k = 0; k < A.c; k++)
			{
				ld t = (ld) A(i, k) * (ld) B(k, j);
				s += t;
				S += fabsl(t);
			}
			double err = (double) fabsl((ld) got(i, j) - s);
			double tol = factor * (double) A.c * EPS * (double) S;
			double ratio = tol > 0 ? err / tol : (err == 0 ? 0.0 : INFINITY);
			if(std::isnan(err))
				ratio = INFINITY;
			if(ratio > worst_ratio)
			{
				worst_ratio = ratio;
				worst_err = err, worst_tol = tol, wi = i, wj = j, wg = got(i, j), wr = (double) s;
			}
		}
	if(worst_ratio < 0)
		worst_err = worst_tol = 0;
	judge(
		clause, worst_err, worst_tol, [&] { return J().str("spelling", spelling).i("i", wi).i("j", wj).d("got", wg).d("ref", wr); }, key.c_str());
}
static RM vec_as_column(const Vector& v) { return column_matrix(from_lib(v)); }
static RM vec_as_row(const Vector& v) { return row_matrix(from_lib(v)); }

// reference predicates (definitions)
static bool ref_symmetric(const RM& A)
{
	if(A.r != A.c)
		return false;
	for(unsigned i = 0; i < A.r; i++)
		for(unsigned j = 0; j < A.c; j++)
			if(A(i, j) != A(j, i))
				return false;
	return true;
}
static bool ref_antisymmetric(const RM& A)
{
	if(A.r != A.c)
		return false;
	for(unsigned i = 0; i < A.r; i++)
		for(unsigned j = 0; j < A.c; j++)
			if(A(i, j) != -A(j, i))
				return false;
	return true;
}
static bool ref_diagonal(const RM& A)
{
	if(A.r != A.c)
		return false;
	for(unsigned i = 0; i < A.r; i++)
		for(unsigned j = 0; j < A.c; j++)
			if(i != j && A(i, j) != 0.0)
				return false;
	return true;
}
static void check_predicates(const std::string& tag, const RM& A)
{
	Matrix M = to_lib(A);
	req_bool("predicates-agree-with-definitions", "Square " + tag, M.Square(), A.r == A.c);
	req_bool("predicates-agree-with-definitions", "Symmetric " + tag, M.Symmetric(), ref_symmetric(A));
	req_bool("predicates-agree-with-definitions", "Antisymmetric " + tag, M.Antisymmetric(), ref_antisymmetric(A));
	req_bool("predicates-agree-with-definitions", "Diagonal " + tag, M.Diagonal(), ref_diagonal(A));
}

// ---------------------------------------------------------------------------------------------
// products whose factors hold infinities: they arise inside the property's scope when an earlier product of large finite entries overflowed.
// "entries are sum_k a_ik*b_kj" in IEEE arithmetic: 0*inf is NaN, inf-inf is NaN, and which of NaN / +inf / -inf / finite an entry is does not
// depend on the order of the terms here (seeded change C04-r6m2 skipped the terms whose left factor is an exact zero).
static int fp_class(double x) { return std::isnan(x) ? 0 : (x == INFINITY ? 1 : (x == -INFINITY ? 2 : 3)); }
static void overflowed_factor_case(Rng& rng, unsigned m, unsigned n, unsigned k)
{
	RM A(m, n), B(n, k);
	for(auto& x : A.a)
		x = rng.coin(0.5) ? rng.sign() * rng.loguni(1e150, 1e250) : (double) rng.irange(-3, 3);
	for(auto& x : B.a)
		x = rng.coin(0.5) ? rng.sign() * rng.loguni(1e150, 1e250) : (double) rng.irange(-3, 3);
	unsigned q = 1 + (unsigned) rng.below(4);
	RM Z(q, m);
	for(auto& x : Z.a)
		x = rng.coin(0.4) ? 0.0 : (rng.coin(0.1) ? -0.0 : (double) rng.irange(-2, 2));
	Matrix LA = to_lib(A), LB = to_lib(B), LZ = to_lib(Z);
	Matrix P = LA.Product(LB);	 // finite factors; entries overflow to +-inf
	RM Pr = from_lib(P);
	bool has_inf = false;
	for(double x : Pr.a)
		has_inf |= std::isinf(x);
	if(has_inf)
		mark_nontrivial();
	auto ieee_product = [](const RM& X, const RM& Y) {
		RM R(X.r, Y.c);
		for(unsigned i = 0; i < X.r; i++)
			for(unsigned j = 0; j < Y.c; j++)
			{
				double s = 0.0;
				for(unsigned t = 0; t < X.c; t++)
					s += X(i, t) * Y(t, j);
				R(i, j) = s;
			}
		return R;
	};
	auto compare = [&](const char* spelling, const RM& got, const RM& X, const RM& Y) {
		RM ref = ieee_product(X, Y);
		bool ok = got.r == ref.r && got.c == ref.c;
		unsigned bi = 0, bj = 0;
		for(unsigned i = 0; ok && i < ref.r; i++)
			for(unsigned j = 0; ok && j < ref.c; j++)
			{
				bool e = fp_class(got(i, j)) == fp_class(ref(i, j));
				if(e && fp_class(ref(i, j)) == 3)
				{
					double S = 0;
					for(unsigned t = 0; t < X.c; t++)
						if(std::isfinite(X(i, t) * Y(t, j)))
							S += std::fabs(X(i, t) * Y(t, j));
					e = std::fabs(got(i, j) - ref(i, j)) <= 4 * X.c * EPS * S;
				}
				if(!e)
					ok = false, bi = i, bj = j;
			}
		require("product-entries-are-sums-aik-bkj", ok, [&] { return J().str("spelling", spelling).vec("left_row_major", X.a).vec("right_row_major", Y.a).i("left_columns", X.c).i("row", bi).i("column", bj).d("got", ok ? 0.0 : got(bi, bj)).d("ieee_sum", ok ? 0.0 : ref(bi, bj)); }, (std::string("product-entries-are-sums-aik-bkj:non-finite-factor:") + spelling).c_str());
	};
	compare("A.Product(B) overflowing", Pr, A, B);
	compare("Z.Product(P)", from_lib(LZ.Product(P)), Z, Pr);
	compare("Z * P", from_lib(LZ * P), Z, Pr);
	// the reversed product of the transposes holds the same entries
	RM Pt(Pr.c, Pr.r), Zt(Z.c, Z.r);
	for(unsigned i = 0; i < Pr.r; i++)
		for(unsigned j = 0; j < Pr.c; j++)
			Pt(j, i) = Pr(i, j);
	for(unsigned i = 0; i < Z.r; i++)
		for(unsigned j = 0; j < Z.c; j++)
			Zt(j, i) = Z(i, j);
	compare("Transpose(P).Product(Transpose(Z))", from_lib(P.Transpose().Product(LZ.Transpose())), Pt, Zt);
}

// ---------------------------------------------------------------------------------------------
// one algebra case for the shape triple (m,n,k)
static void algebra_case(Rng& rng, unsigned m, unsigned n, unsigned k)
{
	if(rng.coin(0.06))
		overflowed_factor_case(rng, m, n, k);
	int mode = rng.irange(0, 3);
	RM A = rand_matrix(rng, m, n, mode), A2 = rand_matrix(rng, m, n, mode), B = rand_matrix(rng, n, k, mode);
	std::vector<double> u = rand_vector(rng, n, mode), v = rand_vector(rng, n, mode), w = rand_vector(rng, m, mode);
	std::vector<double> c1 = rand_vector(rng, 3, mode), c2 = rand_vector(rng, 3, mode);
	double s = rng.coin(0.15) ? (double) rng.irange(-2, 2) : rng.mag(1e-6, 1e6);
	double sdiv = (s == 0.0) ? 3.0 : s;

	set_params(J().i("m", m).i("n", n).i("k", k).i("entry_mode", mode).vec("A", A.a).vec("A2", A2.a).vec("B", B.a).vec("u", u).vec("v", v).vec("w", w).vec("c1", c1).vec("c2", c2).d("s", s));
	hash_param_u(((uint64_t) m << 16) | ((uint64_t) n << 8) | k);
	hash_matrix(A);
	hash_matrix(B);
	if(!(m == n && n == k))
		mark_nontrivial();

	Matrix LA = to_lib(A), LA2 = to_lib(A2), LB = to_lib(B);
	Vector Lu(u), Lv(v), Lw(w), Lc1(c1), Lc2(c2);

	// --- sums and differences: element-wise, defined for equal shapes, equal to the compound forms
	{
		RM sum(m, n), dif(m, n);
		for(size_t i = 0; i < sum.a.size(); i++)
		{
			sum.a[i] = A.a[i] + A2.a[i];
			dif.a[i] = A.a[i] - A2.a[i];
		}
		Matrix p1 = LA.Plus(LA2), p2 = LA + LA2, d1 = LA.Minus(LA2), d2 = LA - LA2;
		req_matrix("sums-differences-elementwise", "Matrix::Plus", p1, sum);
		req_matrix("sums-differences-elementwise", "Matrix::operator+", p2, sum);
		req_matrix("sums-differences-elementwise", "Matrix::Minus", d1, dif);
		req_matrix("sums-differences-elementwise", "Matrix::operator-", d2, dif);
		Matrix c = LA;
		Matrix& back = (c += LA2);
		req_matrix("compound-assignment-agrees-with-binary", "Matrix::operator+=", c, from_lib(p1));
		req_bool("compound-assignment-agrees-with-binary", "Matrix::operator+= returns *this", &back == &c, true);
		Matrix e = LA;
		e -= LA2;
		req_matrix("compound-assignment-agrees-with-binary", "Matrix::operator-=", e, from_lib(d1));
		req_matrix("sums-differences-elementwise", "Matrix::operator+=", c, sum);
		req_matrix("sums-differences-elementwise", "Matrix::operator-=", e, dif);
		// the operands are untouched
		req_matrix("sums-differences-elementwise", "operands unchanged (lhs)", LA, A);
		req_matrix("sums-differences-elementwise", "operands unchanged (rhs)", LA2, A2);

		std::vector<double> vs(n), vd(n);
		for(unsigned i = 0; i < n; i++)
		{
			vs[i] = u[i] + v[i];
			vd[i] = u[i] - v[i];
		}
		Vector q1 = Lu + Lv, q2 = Lu - Lv;
		req_vector("sums-differences-elementwise", "Vector::operator+", q1, vs);
		req_vector("sums-differences-elementwise", "Vector::operator-", q2, vd);
		Vector x = Lu;
		x += Lv;
		req_vector("compound-assignment-agrees-with-binary", "Vector::operator+=", x, from_lib(q1));
		req_vector("sums-differences-elementwise", "Vector::operator+=", x, vs);
		Vector y = Lu;
		y -= Lv;
		req_vector("compound-assignment-agrees-with-binary", "Vector::operator-=", y, from_lib(q2));
		req_vector("sums-differences-elementwise", "Vector::operator-=", y, vd);
		require("equal-shapes-are-defined", true, [] { return J(); });

		// the same object on both sides (aliasing): A + A, A - A, A += A, A -= A, x += x, x -= x; square matrices: A * A through every spelling,
		// also assigned back to A itself
		RM twice(m, n), zero(m, n);
		for(size_t i = 0; i < twice.a.size(); i++)
			twice.a[i] = A.a[i] + A.a[i];
		req_matrix("sums-differences-elementwise", "A + A", LA + LA, twice);
		req_matrix("sums-differences-elementwise", "A.Plus(A)", LA.Plus(LA), twice);
		req_matrix("sums-differences-elementwise", "A - A", LA - LA, zero);
		Matrix s1 = LA;
		s1 += s1;
		req_matrix("compound-assignment-agrees-with-binary", "A += A", s1, twice);
		Matrix s2 = LA;
		s2 -= s2;
		req_matrix("compound-assignment-agrees-with-binary", "A -= A", s2, zero);
		Matrix s3 = LA;
		s3 = s3;
		req_matrix("sums-differences-elementwise", "A = A", s3, A);
		std::vector<double> v2(n), v0(n, 0.0);
		for(unsigned i = 0; i < n; i++)
			v2[i] = u[i] + u[i];
		Vector xx = Lu;
		xx += xx;
		req_vector("compound-assignment-agrees-with-binary", "x += x", xx, v2);
		Vector yy = Lu;
		yy -= yy;
		req_vector("compound-assignment-agrees-with-binary", "x -= x", yy, v0);
		req_vector("sums-differences-elementwise", "x + x", Lu + Lu, v2);
		if(m == n)
		{
			Matrix sq = LA;
			sq		  = sq * sq;
			judge_product("product-entries-are-sums-aik-bkj", "A = A * A", from_lib(sq), A, A);
			Matrix sq2 = LA;
			sq2		   = sq2.Product(sq2);
			judge_product("product-entries-are-sums-aik-bkj", "A = A.Product(A)", from_lib(sq2), A, A);
			Vector w2 = Lu;
			w2		  = LA * w2;
			judge_product("vector-products-are-matrix-products", "x = A * x", vec_as_column(w2), A, column_matrix(u));
		}
	}

	// --- products
	Matrix AB = LA.Product(LB);
	{
		judge_product("product-entries-are-sums-aik-bkj", "Matrix::Product", from_lib(AB), A, B);
		Matrix AB2 = LA * LB;
		judge_product("product-entries-are-sums-aik-bkj", "Matrix::operator*", from_lib(AB2), A, B);
		req_bool("product-entries-are-sums-aik-bkj", "Product and operator* agree", AB == AB2, true);
		// transpose(A*B) == transpose(B)*transpose(A), with the library's ==
		Matrix lhs = AB.Transpose(), rhs = LB.Transpose().Product(LA.Transpose());
		req_bool("transpose-of-product-is-reversed-product", "Transpose(A*B)==Transpose(B)*Transpose(A)", lhs == rhs, true);
		req_bool("transpose-of-product-is-reversed-product", "shape", lhs.Rows() == k && lhs.Columns() == m && rhs.Rows() == k && rhs.Columns() == m, true);
		// A*I == A, I*A == A
		Matrix In = Identity_Matrix(n), Im = Identity_Matrix(m);
		req_bool("identity-is-neutral-exactly", "A*I==A", LA.Product(In) == LA, true);
		req_bool("identity-is-neutral-exactly", "A*I==A (operator*)", (LA * In) == LA, true);
		req_bool("identity-is-neutral-exactly", "I*A==A", Im.Product(LA) == LA, true);
		RM Iref(n, n);
		for(unsigned i = 0; i < n; i++)
			Iref(i, i) = 1.0;
		req_matrix("identity-is-neutral-exactly", "Identity_Matrix", In, Iref);
		// transposition
		Matrix T = LA.Transpose();
		req_matrix("transposition-is-an-involution", "Transpose entries", T, transpose(A));
		req_bool("transposition-is-an-involution", "Transpose(Transpose(A))==A", T.Transpose() == LA, true);
		req_matrix("transposition-is-an-involution", "Transpose(Transpose(A)) bits", T.Transpose(), A);
	}

	// --- matrix-vector, vector-matrix, outer, dot, cross as products of row / column matrices
	{
		const char* cl = "vector-products-are-matrix-products";
		Vector mv1 = LA.Product(Lu), mv2 = LA * Lu;
		judge_product(cl, "Matrix::Product(Vector)", vec_as_column(mv1), A, column_matrix(u));
		judge_product(cl, "Matrix::operator*(Vector)", vec_as_column(mv2), A, column_matrix(u));
		Vector vm = Lw * LA;
		judge_product(cl, "operator*(Vector,Matrix)", vec_as_row(vm), row_matrix(w), A);
		Matrix outer = Outer_Vector_Product(Lw, Lu);
		judge_product(cl, "Outer_Vector_Product", from_lib(outer), column_matrix(w), row_matrix(u));
		RM dot1(1, 1), dot2(1, 1);
		dot1(0, 0) = Lu.Dot(Lv);
		dot2(0, 0) = Lu * Lv;
		judge_product(cl, "Vector::Dot", dot1, row_matrix(u), column_matrix(v));
		judge_product(cl, "Vector::operator*(Vector)", dot2, row_matrix(u), column_matrix(v));
		RM skew(3, 3);
		skew(0, 1) = -c1[2], skew(0, 2) = c1[1], skew(1, 0) = c1[2], skew(1, 2) = -c1[0], skew(2, 0) = -c1[1], skew(2, 1) = c1[0];
		Vector cr = Lc1.Cross(Lc2);
		judge_product(cl, "Vector::Cross", vec_as_column(cr), skew, column_matrix(c2));
		// against the library's own product of the row / column matrices (two sums of the same terms)
		Matrix colu = to_lib(column_matrix(u)), roww = to_lib(row_matrix(w)), colw = to_lib(column_matrix(w)), rowu = to_lib(row_matrix(u)), colv = to_lib(column_matrix(v));
		Matrix P1 = LA.Product(colu), P2 = roww.Product(LA), P3 = colw.Product(rowu), P4 = rowu.Product(colv);
		auto close = [&](const std::string& sp, const RM& x, const RM& y, const RM& L, const RM& R) {
			// |x - y| <= 2 n eps sum|l||r| entry-wise
			bool shape = x.r == y.r && x.c == y.c;
			double worst = 0, we = 0, wt = 0;
			if(shape)
				for(unsigned i = 0; i < x.r; i++)
					for(unsigned j = 0; j < x.c; j++)
					{
						ld S = 0;
						for(unsigned q = 0; q < L.c; q++)
							S += fabsl((ld) L(i, q) * (ld) R(q, j));
						double err = std::fabs(x(i, j) - y(i, j)), tol = 2.0 * L.c * EPS * (double) S;
						double ratio = tol > 0 ? err / tol : (err == 0 ? 0 : INFINITY);
						if(ratio >= worst)
							worst = ratio, we = err, wt = tol;
					}
			if(!shape)
				require(
					cl, false, [&] { return J().str("spelling", sp).str("mismatch", "shapes differ"); }, (std::string(cl) + ":" + sp).c_str());
			else
				judge(
					cl, we, wt, [&] { return J().str("spelling", sp); }, (std::string(cl) + ":" + sp).c_str());
		};
		close("Matrix*Vector == Matrix*column", vec_as_column(mv1), from_lib(P1), A, column_matrix(u));
		close("Vector*Matrix == row*Matrix", vec_as_row(vm), from_lib(P2), row_matrix(w), A);
		close("Outer == column*row", from_lib(outer), from_lib(P3), column_matrix(w), row_matrix(u));
		close("Dot == row*column", dot1, from_lib(P4), row_matrix(u), column_matrix(v));
	}

	// --- scalar multiplication and division distribute over entries (single IEEE operation each)
	{
		const char* cl = "scalar-multiplication-division-entrywise";
		RM sm(m, n), sd(m, n);
		for(size_t i = 0; i < sm.a.size(); i++)
		{
			sm.a[i] = s * A.a[i];
			sd.a[i] = A.a[i] / sdiv;
		}
		req_matrix(cl, "Matrix::Product(double)", LA.Product(s), sm);
		req_matrix(cl, "Matrix::operator*(double)", LA * s, sm);
		req_matrix(cl, "operator*(double,Matrix)", s * LA, sm);
		CMP_ULPS = 2;
		req_matrix(cl, "Matrix::Division", LA.Division(sdiv), sd);
		req_matrix(cl, "Matrix::operator/", LA / sdiv, sd);
		CMP_ULPS = 0;
		std::vector<double> vm_(n), vd_(n);
		for(unsigned i = 0; i < n; i++)
		{
			vm_[i] = u[i] * s;
			vd_[i] = u[i] / sdiv;
		}
		req_vector(cl, "Vector::operator*(double)", Lu * s, vm_);
		req_vector(cl, "operator*(double,Vector)", s * Lu, vm_);
		CMP_ULPS = 2;
		req_vector(cl, "Vector::operator/", Lu / sdiv, vd_);
		CMP_ULPS = 0;
	}

	// --- Trace, Norm
	{
		const char* cl = "trace-and-norm-definitions";
		ld q = 0;
		for(double x : A.a)
			q += (ld) x * x;
		double nref = (double) sqrtl(q);
		double got	= LA.Norm();
		judge(
			cl, std::fabs(got - nref), (A.a.size() + 2.0) * EPS * nref, [&] { return J().str("spelling", "Matrix::Norm").d("got", got).d("ref", nref); }, "trace-and-norm-definitions:Matrix::Norm");
		q = 0;
		for(double x : u)
			q += (ld) x * x;
		nref = (double) sqrtl(q);
		got	 = Lu.Norm();
		judge(
			cl, std::fabs(got - nref), (n + 2.0) * EPS * nref, [&] { return J().str("spelling", "Vector::Norm").d("got", got).d("ref", nref); }, "trace-and-norm-definitions:Vector::Norm");
		// Trace of the square matrices at hand: n x n
		RM Sq = rand_matrix(rng, n, n, mode);
		ld t = 0, ta = 0;
		for(unsigned i = 0; i < n; i++)
		{
			t += Sq(i, i);
			ta += fabsl((ld) Sq(i, i));
		}
		double tr = to_lib(Sq).Trace();
		judge(
			cl, (double) fabsl(tr - t), n * EPS * (double) ta, [&] { return J().str("spelling", "Matrix::Trace").d("got", tr).d("ref", (double) t).vec("Sq", Sq.a); }, "trace-and-norm-definitions:Matrix::Trace");
	}

	// --- predicates
	{
		check_predicates("random m x n", A);
		unsigned p = n;
		RM S(p, p), K(p, p), D(p, p), Z(p, p);
		for(unsigned i = 0; i < p; i++)
			for(unsigned j = i; j < p; j++)
			{
				double x = entry(rng, mode);
				S(i, j) = S(j, i) = x;
				if(i != j)
				{
					K(i, j) = x;
					K(j, i) = -x;
				}
				else
					D(i, i) = x;
			}
		check_predicates("symmetric", S);
		check_predicates("antisymmetric", K);
		check_predicates("diagonal", D);
		check_predicates("zero", Z);
		if(p >= 2)
		{
			unsigned i = (unsigned) rng.below(p), j = (unsigned) rng.below(p - 1);
			if(j >= i)
				j++;
			RM S2 = S, K2 = K, D2 = D;
			S2(i, j) = std::nextafter(S2(i, j), INFINITY);	 // one ulp off symmetry
			K2(i, j) = std::nextafter(K2(i, j), INFINITY);
			D2(i, j) = rng.coin() ? 4.9e-324 : entry(rng, 1);
			check_predicates("symmetric, one entry off by an ulp", S2);
			check_predicates("antisymmetric, one entry off by an ulp", K2);
			check_predicates("diagonal plus one off-diagonal entry", D2);
			RM K3 = K;
			K3(i, i) = entry(rng, 1);	// non-zero diagonal entry
			check_predicates("antisymmetric off-diagonal, non-zero diagonal entry", K3);
		}
	}

	// --- Sub_Matrix, Delete_Row/Column, Return_Row/Column
	{
		const char* cl = "submatrix-rows-columns-definitions";
		for(unsigned i = 0; i < m; i++)
		{
			std::vector<double> row(n);
			for(unsigned j = 0; j < n; j++)
				row[j] = A(i, j);
			req_vector(cl, "Return_Row", LA.Return_Row(i), row);
			RM del(m - 1, n);
			for(unsigned a = 0, o = 0; a < m; a++)
				if(a != i)
				{
					for(unsigned j = 0; j < n; j++)
						del(o, j) = A(a, j);
					o++;
				}
			Matrix Dm = LA;
			Dm.Delete_Row(i);
			req_matrix(cl, "Delete_Row", Dm, del);
		}
		for(unsigned j = 0; j < n; j++)
		{
			std::vector<double> col(m);
			for(unsigned i = 0; i < m; i++)
				col[i] = A(i, j);
			req_vector(cl, "Return_Column", LA.Return_Column(j), col);
			RM del(m, n - 1);
			for(unsigned i = 0; i < m; i++)
				for(unsigned b = 0, o = 0; b < n; b++)
					if(b != j)
						del(i, o++) = A(i, b);
			Matrix Dm = LA;
			Dm.Delete_Column(j);
			req_matrix(cl, "Delete_Column", Dm, del);
		}
		for(unsigned i = 0; i < m; i++)
			for(unsigned j = 0; j < n; j++)
			{
				RM sub(m - 1, n - 1);
				for(unsigned a = 0, oa = 0; a < m; a++)
				{
					if(a == i)
						continue;
					for(unsigned b = 0, ob = 0; b < n; b++)
						if(b != j)
							sub(oa, ob++) = A(a, b);
					oa++;
				}
				req_matrix(cl, "Sub_Matrix", LA.Sub_Matrix((int) i, (int) j), sub);
			}
		req_matrix(cl, "Sub_Matrix leaves *this unchanged", LA, A);
	}

	// --- block constructor against explicit placement (random partition of A's rows and columns)
	{
		const char* cl = "block-constructor-definition";
		auto partition = [&](unsigned len) {
			std::vector<unsigned> cuts = {0};
			for(unsigned i = 1; i < len; i++)
				if(rng.coin(0.4))
					cuts.push_back(i);
			cuts.push_back(len);
			return cuts;
		};
		std::vector<unsigned> rc = partition(m), cc = partition(n);
		std::vector<std::vector<Matrix>> blocks;
		std::string layout;
		for(size_t bi = 0; bi + 1 < rc.size(); bi++)
		{
			std::vector<Matrix> brow;
			for(size_t bj = 0; bj + 1 < cc.size(); bj++)
			{
				RM blk(rc[bi + 1] - rc[bi], cc[bj + 1] - cc[bj]);
				for(unsigned i = 0; i < blk.r; i++)
					for(unsigned j = 0; j < blk.c; j++)
						blk(i, j) = A(rc[bi] + i, cc[bj] + j);
				brow.push_back(to_lib(blk));
				layout += shape_str(blk.r, blk.c) + " ";
			}
			blocks.push_back(brow);
			layout += "| ";
		}
		Matrix Bm(blocks);
		std::string why;
		bool ok = same_matrix(Bm, A, why);
		require(
			cl, ok, [&] { return J().str("blocks", layout).str("mismatch", why); }, "block-constructor-definition:Matrix(blocks)");
		if(blocks.size() > 1 || blocks[0].size() > 1)
			count_nontrivial(cl);
		// diagonal constructor
		std::vector<double> dg = rand_vector(rng, n, mode);
		RM Dg(n, n);
		for(unsigned i = 0; i < n; i++)
			Dg(i, i) = dg[i];
		req_matrix(cl, "Matrix(diagonal entries)", Matrix(dg), Dg);
		req_matrix(cl, "Matrix(rows,columns,entry)", Matrix(m, n, s), [&] { RM F(m, n, s); return F; }());
	}

	// --- operator==
	{
		const char* cl = "equality-operator-definition";
		Matrix copy = LA;
		req_bool(cl, "A==A", LA == copy, true);
		unsigned i = (unsigned) rng.below(m), j = (unsigned) rng.below(n);
		copy[i][j] = (copy[i][j] == 0.0) ? 1.0 : std::nextafter(copy[i][j], INFINITY);
		req_bool(cl, "A==A with one entry changed", LA == copy, false);
		if(m != n)
			req_bool(cl, "A==matrix of transposed shape", LA == Matrix(n, m, 0.0), false);
		req_bool(cl, "A==matrix with one more row", LA == Matrix(m + 1, n, 0.0), false);
		Vector vc = Lu;
		req_bool(cl, "v==v", Lu == vc, true);
		unsigned q = (unsigned) rng.below(n);
		vc[q] = (vc[q] == 0.0) ? 1.0 : std::nextafter(vc[q], INFINITY);
		req_bool(cl, "v==v with one component changed", Lu == vc, false);
		req_bool(cl, "v==longer vector", Lu == Vector(n + 1, 0.0), false);
	}
	sample(J().i("product_rows", AB.Rows()).i("product_columns", AB.Columns()));
}

// ---------------------------------------------------------------------------------------------
// definedness: every unequal pair must stop the program with a diagnostic
struct Rej
{
	std::string name;
	bool accept;
	std::function<double()> fn;
};
static std::vector<Rej> cat;

static Vector dvec(unsigned n)
{
	std::vector<double> c(n);
	for(unsigned i = 0; i < n; i++)
		c[i] = 1.0 + 0.5 * i;
	return Vector(c);
}
static Matrix dmat(unsigned r, unsigned c)
{
	std::vector<std::vector<double>> e(r, std::vector<double>(c));
	for(unsigned i = 0; i < r; i++)
		for(unsigned j = 0; j < c; j++)
			e[i][j] = 1.0 + i * 0.75 - j * 0.5 + ((i == j) ? 3.0 : 0.0);
	return Matrix(e);
}
static double msum(const Matrix& M)
{
	double s = 0;
	for(unsigned i = 0; i < M.Rows(); i++)
		for(unsigned j = 0; j < M.Columns(); j++)
			s += M[i][j];
	return s;
}
static double vsum(const Vector& v)
{
	double s = 0;
	for(unsigned i = 0; i < v.Size(); i++)
		s += v[i];
	return s;
}
static const char* SUM_SPELLINGS[] = {"Plus", "Minus", "operator+", "operator-", "operator+=", "operator-="};
static Rej sum_request(int op, unsigned r, unsigned c, unsigned r2, unsigned c2)
{
	return {std::string("Matrix::") + SUM_SPELLINGS[op] + " (" + shape_str(r, c) + ")(" + shape_str(r2, c2) + ")", r == r2 && c == c2, [=] {
				Matrix a = dmat(r, c), b = dmat(r2, c2);
				switch(op)
				{
					case 0: return msum(a.Plus(b));
					case 1: return msum(a.Minus(b));
					case 2: return msum(a + b);
					case 3: return msum(a - b);
					case 4: a += b; return msum(a);
					default: a -= b; return msum(a);
				}
			}};
}
static const char* VEC_SPELLINGS[] = {"operator+", "operator-", "operator+=", "operator-=", "Dot", "operator*"};
static Rej vec_request(int op, unsigned a, unsigned b)
{
	return {std::string("Vector::") + VEC_SPELLINGS[op] + " " + std::to_string(a) + "," + std::to_string(b), a == b, [=] {
				Vector x = dvec(a), y = dvec(b);
				switch(op)
				{
					case 0: return vsum(x + y);
					case 1: return vsum(x - y);
					case 2: x += y; return vsum(x);
					case 3: x -= y; return vsum(x);
					case 4: return x.Dot(y);
					default: return x * y;
				}
			}};
}
static Rej cross_request(unsigned a, unsigned b)
{
	return {"Vector::Cross " + std::to_string(a) + "," + std::to_string(b), a == 3 && b == 3, [=] { return vsum(dvec(a).Cross(dvec(b))); }};
}
static Rej product_request(int op, unsigned m, unsigned n, unsigned k, unsigned l)
{
	return {std::string(op == 0 ? "Matrix::Product" : "Matrix::operator*") + " (" + shape_str(m, n) + ")(" + shape_str(k, l) + ")", n == k, [=] {
				Matrix a = dmat(m, n), b = dmat(k, l);
				return op == 0 ? msum(a.Product(b)) : msum(a * b);
			}};
}
static Rej matvec_request(int op, unsigned r, unsigned c, unsigned n)
{
	static const char* nm[] = {"Matrix::Product(Vector)", "Matrix::operator*(Vector)", "operator*(Vector,Matrix)"};
	return {std::string(nm[op]) + " (" + shape_str(r, c) + ")," + std::to_string(n), op == 2 ? n == r : n == c, [=] {
				Matrix M = dmat(r, c);
				Vector x = dvec(n);
				return op == 0 ? vsum(M.Product(x)) : op == 1 ? vsum(M * x) : vsum(x * M);
			}};
}

static void build_catalogue()
{
	unsigned S = ctx().thorough ? 5 : 4;   // sums: every ordered pair of shapes up to S x S
	for(unsigned r = 1; r <= S; r++)
		for(unsigned c = 1; c <= S; c++)
			for(unsigned r2 = 1; r2 <= S; r2++)
				for(unsigned c2 = 1; c2 <= S; c2++)
					if(!(r == r2 && c == c2))
						for(int op = 0; op < 6; op++)
							cat.push_back(sum_request(op, r, c, r2, c2));
	unsigned P = ctx().thorough ? 5 : 4;
	for(unsigned m = 1; m <= P; m++)
		for(unsigned n = 1; n <= P; n++)
			for(unsigned k = 1; k <= P; k++)
				for(unsigned l = 1; l <= P; l++)
					if(n != k && (ctx().thorough || m == l || m + l == 5 || m == 1))   // quick: a subset of the outer dimensions
						for(int op = 0; op < 2; op++)
							cat.push_back(product_request(op, m, n, k, l));
	for(unsigned r = 1; r <= 5; r++)
		for(unsigned c = 1; c <= 5; c++)
			for(unsigned n = 1; n <= 6; n++)
				for(int op = 0; op < 3; op++)
					if(op == 2 ? n != r : n != c)
						cat.push_back(matvec_request(op, r, c, n));
	for(unsigned a = 1; a <= 6; a++)
		for(unsigned b = 1; b <= 6; b++)
		{
			if(a != b)
				for(int op = 0; op < 6; op++)
					cat.push_back(vec_request(op, a, b));
			if(!(a == 3 && b == 3))
				cat.push_back(cross_request(a, b));
		}
}
static void run_request(const Rej& q)
{
	Outcome o = run_isolated([&](const std::function<void(const std::string&)>& send) {
		double r = q.fn();
		send(hexf(r));
	}, 120.0);
	set_params(J().str("request", q.name).str("side", q.accept ? "equal shapes" : "unequal shapes"));
	hash_param_u(hash_str(q.name.c_str()));
	mark_nontrivial();
	if(o.kind == WATCHDOG)
	{
		inconclusive("watchdog on request " + q.name);
		return;
	}
	if(q.accept)
		expect_return("equal-shapes-are-defined", o, ("accept:" + q.name).c_str());
	else
		expect_reject("unequal-shapes-exit-with-diagnostic", o, ("reject:" + q.name).c_str());
	sample(J().str("outcome", outcome_name(o.kind)).i("diagnostic_bytes", (long long) o.output_bytes));
}
static unsigned near_dim(Rng& rng, unsigned d)
{
	// another dimension, biased to off-by-one
	for(;;)
	{
		unsigned e = rng.coin(0.6) ? (rng.coin() ? d + 1 : d - 1) : (unsigned) rng.irange(1, 8);
		if(e >= 1 && e <= 9 && e != d)
			return e;
	}
}
static void random_request(Rng& rng, uint64_t)
{
	int family = rng.irange(0, 4);
	unsigned r = rng.irange(1, 8), c = rng.irange(1, 8);
	Rej q;
	switch(family)
	{
		case 0: {
			unsigned r2 = r, c2 = c;
			int how = rng.irange(0, 3);
			if(how == 0 && r != c)
				r2 = c, c2 = r;	  // transposed shape
			else if(how == 1)
				r2 = near_dim(rng, r);
			else if(how == 2)
				c2 = near_dim(rng, c);
			else if(how == 3 && rng.coin(0.3))
				;	// equal shapes: must return
			else
				r2 = near_dim(rng, r), c2 = near_dim(rng, c);
			q = sum_request(rng.irange(0, 5), r, c, r2, c2);
			break;
		}
		case 1: {
			unsigned k = rng.coin(0.2) ? c : near_dim(rng, c), l = rng.coin(0.3) ? r : rng.irange(1, 8);
			q = product_request(rng.irange(0, 1), r, c, k, l);
			break;
		}
		case 2: {
			int op	   = rng.irange(0, 2);
			unsigned d = (op == 2) ? r : c;
			unsigned n = rng.coin(0.2) ? d : (rng.coin(0.3) ? (op == 2 ? c : r) : near_dim(rng, d));
			q = matvec_request(op, r, c, n);
			break;
		}
		case 3: {
			unsigned a = rng.irange(1, 9), b = rng.coin(0.2) ? a : near_dim(rng, a);
			q = vec_request(rng.irange(0, 5), a, b);
			break;
		}
		default: {
			unsigned a = rng.coin(0.5) ? 3 : rng.irange(1, 6), b = rng.coin(0.5) ? 3 : rng.irange(1, 6);
			q = cross_request(a, b);
			break;
		}
	}
	run_request(q);
}

static void setup()
{
	// all shape triples up to 5 (exhaustive in both tiers), `reps` entry draws each
	uint64_t reps = ctx().count(40, 2000);
	add_generator("shapes_upto5_exhaustive", 125 * reps, [](Rng& rng, uint64_t i) {
		unsigned t = (unsigned) (i % 125);
		algebra_case(rng, 1 + t / 25, 1 + (t / 5) % 5, 1 + t % 5);
	});
	add_generator("shapes_random_upto8", ctx().count(8000, 3000000), [](Rng& rng, uint64_t) {
		unsigned m, n, k;
		do
		{
			m = rng.irange(1, 8), n = rng.irange(1, 8), k = rng.irange(1, 8);
		} while(m <= 5 && n <= 5 && k <= 5);
		algebra_case(rng, m, n, k);
	});
	add_generator("object_histories", ctx().count(6000, 1800000), [](Rng& rng, uint64_t i) { la::matrix_history_case(rng, i, false); la::vector_history_case(rng); });
	build_catalogue();
	add_generator("unequal_shapes_catalogue", cat.size(), [](Rng&, uint64_t i) { run_request(cat[i]); });
	add_generator("unequal_shapes_random", ctx().count(1600, 60000), random_request);
}
VERIF_MAIN("C04", setup)
