// Shared reference code of the linear-algebra drivers (C04, C05, C15, C16).
// Nothing in here calls libphysica for a result: the reference matrix type, products, Gauss-Jordan,
// permanent, determinant expansion and the Jacobi eigen-solver are written out in (long) double.
#ifndef LINALG_COMMON_HPP
#define LINALG_COMMON_HPP

#include "verif.hpp"

#include <algorithm>
#include <cmath>
#include <string>
#include <vector>

#include "libphysica/Linear_Algebra.hpp"

namespace la
{
typedef long double ld;

// ---------------------------------------------------------------------------------------------
// the reference matrix type (row-major, any shape incl. empty)
template <class T>
struct Mat
{
	unsigned r = 0, c = 0;
	std::vector<T> a;
	Mat() {}
	Mat(unsigned r_, unsigned c_, T v = T(0))
	: r(r_), c(c_), a((size_t) r_ * c_, v) {}
	T& operator()(unsigned i, unsigned j) { return a[(size_t) i * c + j]; }
	const T& operator()(unsigned i, unsigned j) const { return a[(size_t) i * c + j]; }
};
typedef Mat<double> RM;
typedef Mat<ld> LM;

inline LM widen(const RM& A)
{
	LM B(A.r, A.c);
	for(size_t i = 0; i < A.a.size(); i++)
		B.a[i] = A.a[i];
	return B;
}
inline RM narrow(const LM& A)
{
	RM B(A.r, A.c);
	for(size_t i = 0; i < A.a.size(); i++)
		B.a[i] = (double) A.a[i];
	return B;
}
template <class T>
inline Mat<T> transpose(const Mat<T>& A)
{
	Mat<T> B(A.c, A.r);
	for(unsigned i = 0; i < A.r; i++)
		for(unsigned j = 0; j < A.c; j++)
			B(j, i) = A(i, j);
	return B;
}
inline LM mul(const LM& A, const LM& B)
{
	LM C(A.r, B.c);
	for(unsigned i = 0; i < A.r; i++)
		for(unsigned j = 0; j < B.c; j++)
		{
			ld s = 0;
			for(unsigned k = 0; k < A.c; k++)
				s += A(i, k) * B(k, j);
			C(i, j) = s;
		}
	return C;
}
inline LM absmat(const LM& A)
{
	LM B = A;
	for(auto& x : B.a)
		x = fabsl(x);
	return B;
}
inline LM identity(unsigned n)
{
	LM I(n, n);
	for(unsigned i = 0; i < n; i++)
		I(i, i) = 1;
	return I;
}
inline ld fro(const LM& A)
{
	ld s = 0;
	for(ld x : A.a)
		s += x * x;
	return sqrtl(s);
}
inline ld fro_diff(const LM& A, const LM& B)
{
	ld s = 0;
	for(size_t i = 0; i < A.a.size(); i++)
		s += (A.a[i] - B.a[i]) * (A.a[i] - B.a[i]);
	return sqrtl(s);
}
inline ld maxabs(const LM& A)
{
	ld m = 0;
	for(ld x : A.a)
		m = std::max(m, fabsl(x));
	return m;
}

// conversions to / from the library's types (element copies only)
inline libphysica::Matrix to_lib(const RM& A)
{
	std::vector<std::vector<double>> e(A.r, std::vector<double>(A.c));
	for(unsigned i = 0; i < A.r; i++)
		for(unsigned j = 0; j < A.c; j++)
			e[i][j] = A(i, j);
	return libphysica::Matrix(e);
}
inline RM from_lib(const libphysica::Matrix& M)
{
	RM A(M.Rows(), M.Columns());
	for(unsigned i = 0; i < A.r; i++)
		for(unsigned j = 0; j < A.c; j++)
			A(i, j) = M[i][j];
	return A;
}
inline std::vector<double> from_lib(const libphysica::Vector& v)
{
	std::vector<double> x(v.Size());
	for(unsigned i = 0; i < x.size(); i++)
		x[i] = v[i];
	return x;
}
inline RM column_matrix(const std::vector<double>& v)
{
	RM A((unsigned) v.size(), 1);
	A.a = v;
	return A;
}
inline RM row_matrix(const std::vector<double>& v)
{
	RM A(1, (unsigned) v.size());
	A.a = v;
	return A;
}

// ---------------------------------------------------------------------------------------------
// Gauss-Jordan with partial pivoting in long double: inverse, determinant, number of row exchanges.
// Returns false if a pivot column is exactly zero.
inline bool gj_inverse(const LM& M, LM& X, ld& det, int& exchanges)
{
	unsigned n = M.r;
	LM A = M;
	X	 = identity(n);
	det		  = 1;
	exchanges = 0;
	for(unsigned i = 0; i < n; i++)
	{
		unsigned p = i;
		for(unsigned j = i + 1; j < n; j++)
			if(fabsl(A(j, i)) > fabsl(A(p, i)))
				p = j;
		if(A(p, i) == 0)
		{
			det = 0;
			return false;
		}
		if(p != i)
		{
			for(unsigned k = 0; k < n; k++)
			{
				std::swap(A(i, k), A(p, k));
				std::swap(X(i, k), X(p, k));
			}
			det = -det;
			exchanges++;
		}
		ld piv = A(i, i);
		det *= piv;
		for(unsigned k = 0; k < n; k++)
		{
			A(i, k) /= piv;
			X(i, k) /= piv;
		}
		for(unsigned j = 0; j < n; j++)
			if(j != i)
			{
				ld f = A(j, i);
				if(f == 0)
					continue;
				for(unsigned k = 0; k < n; k++)
				{
					A(j, k) -= f * A(i, k);
					X(j, k) -= f * X(i, k);
				}
			}
	}
	return true;
}

// permanent of |M| by the subset recurrence (all terms non-negative: no cancellation), n <= 16
inline ld perm_abs(const LM& M)
{
	unsigned n = M.r;
	if(n == 0)
		return 1;
	std::vector<ld> dp((size_t) 1 << n, 0);
	dp[0] = 1;
	for(unsigned mask = 1; mask < (1u << n); mask++)
	{
		unsigned row = (unsigned) __builtin_popcount(mask) - 1;
		ld s		 = 0;
		for(unsigned j = 0; j < n; j++)
			if(mask & (1u << j))
				s += fabsl(M(row, j)) * dp[mask ^ (1u << j)];
		dp[mask] = s;
	}
	return dp[(1u << n) - 1];
}
// determinant by the same recurrence with the signs of the Laplace expansion (error <= n eps_ld perm|M|)
inline ld det_expand(const LM& M)
{
	unsigned n = M.r;
	if(n == 0)
		return 1;
	std::vector<ld> dp((size_t) 1 << n, 0);
	dp[0] = 1;
	for(unsigned mask = 1; mask < (1u << n); mask++)
	{
		unsigned row = (unsigned) __builtin_popcount(mask) - 1;
		ld s		 = 0;
		for(unsigned j = 0; j < n; j++)
			if(mask & (1u << j))
			{
				unsigned greater = (unsigned) __builtin_popcount(mask >> (j + 1));
				ld t			 = M(row, j) * dp[mask ^ (1u << j)];
				s += (greater & 1) ? -t : t;
			}
		dp[mask] = s;
	}
	return dp[(1u << n) - 1];
}

// ---------------------------------------------------------------------------------------------
// cyclic Jacobi for a symmetric matrix in long double: eigenvalues (unsorted) and eigenvectors (columns of V)
inline void jacobi(const LM& S, std::vector<ld>& eval, LM& V)
{
	unsigned n = S.r;
	LM A	   = S;
	V		   = identity(n);
	for(int sweep = 0; sweep < 100; sweep++)
	{
		ld off = 0, diag = 0;
		for(unsigned i = 0; i < n; i++)
			for(unsigned j = 0; j < n; j++)
				(i == j ? diag : off) += A(i, j) * A(i, j);
		if(off <= 1e-40L * diag || off == 0)
			break;
		for(unsigned p = 0; p + 1 < n; p++)
			for(unsigned q = p + 1; q < n; q++)
			{
				if(A(p, q) == 0)
					continue;
				ld theta = (A(q, q) - A(p, p)) / (2 * A(p, q));
				ld t	 = (theta >= 0 ? 1 : -1) / (fabsl(theta) + sqrtl(theta * theta + 1));
				ld c = 1 / sqrtl(t * t + 1), s = t * c;
				for(unsigned k = 0; k < n; k++)
				{
					ld akp = A(k, p), akq = A(k, q);
					A(k, p) = c * akp - s * akq;
					A(k, q) = s * akp + c * akq;
				}
				for(unsigned k = 0; k < n; k++)
				{
					ld apk = A(p, k), aqk = A(q, k);
					A(p, k) = c * apk - s * aqk;
					A(q, k) = s * apk + c * aqk;
				}
				for(unsigned k = 0; k < n; k++)
				{
					ld vkp = V(k, p), vkq = V(k, q);
					V(k, p) = c * vkp - s * vkq;
					V(k, q) = s * vkp + c * vkq;
				}
			}
	}
	eval.resize(n);
	for(unsigned i = 0; i < n; i++)
		eval[i] = A(i, i);
}

// ---------------------------------------------------------------------------------------------
// generators
inline LM gaussian(vf::Rng& rng, unsigned r, unsigned c)
{
	LM G(r, c);
	for(auto& x : G.a)
		x = rng.normal();
	return G;
}
// Haar-distributed orthogonal matrix: modified Gram-Schmidt (twice) on a Gaussian matrix, long double.
// If `first` is given (non-zero), column 0 is parallel to it.
inline LM haar(vf::Rng& rng, unsigned n, const std::vector<ld>* first = nullptr)
{
	for(;;)
	{
		LM G = gaussian(rng, n, n);
		if(first)
			for(unsigned i = 0; i < n; i++)
				G(i, 0) = (*first)[i];
		bool ok = true;
		for(unsigned j = 0; j < n && ok; j++)
		{
			for(int pass = 0; pass < 2; pass++)
				for(unsigned k = 0; k < j; k++)
				{
					ld d = 0;
					for(unsigned i = 0; i < n; i++)
						d += G(i, k) * G(i, j);
					for(unsigned i = 0; i < n; i++)
						G(i, j) -= d * G(i, k);
				}
			ld nn = 0;
			for(unsigned i = 0; i < n; i++)
				nn += G(i, j) * G(i, j);
			nn = sqrtl(nn);
			if(nn < 1e-6L)
				ok = false;
			for(unsigned i = 0; i < n; i++)
				G(i, j) /= nn;
		}
		if(ok)
			return G;
	}
}
// Q diag(lambda) Q^T in long double, rounded to double and made exactly symmetric
inline RM sym_from_spectrum(const LM& Q, const std::vector<ld>& lam)
{
	unsigned n = Q.r;
	RM S(n, n);
	for(unsigned i = 0; i < n; i++)
		for(unsigned j = i; j < n; j++)
		{
			ld s = 0;
			for(unsigned k = 0; k < n; k++)
				s += Q(i, k) * lam[k] * Q(j, k);
			S(i, j) = S(j, i) = (double) s;
		}
	return S;
}

inline std::string shape_str(unsigned r, unsigned c) { return std::to_string(r) + "x" + std::to_string(c); }

inline void hash_matrix(const RM& A)
{
	vf::hash_param_u(((uint64_t) A.r << 32) | A.c);
	for(double x : A.a)
		vf::hash_param(x);
}

}	// namespace la
#endif
