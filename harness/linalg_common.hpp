// Shared reference code of the linear-algebra drivers (C04, C05, C15, C16).
// Nothing in here calls libphysica for a result: the reference matrix type, products, Gauss-Jordan,
// permanent, determinant expansion and the Jacobi eigen-solver are written out in (long) double.
#ifndef LINALG_COMMON_HPP
#define LINALG_COMMON_HPP

#include "verif.hpp"

#include <algorithm>
#include <cmath>
#include <string>
#include <vector>

#include "libphysica/Linear_Algebra.hpp"

namespace la
{
typedef long double ld;

// ---------------------------------------------------------------------------------------------
// the reference matrix type (row-major, any shape incl. empty)
template <class T>
struct Mat
{
	unsigned r = 0, c = 0;
	std::vector<T> a;
	Mat() {}
	Mat(unsigned r_, unsigned c_, T v = T(0))
	: r(r_), c(c_), a((size_t) r_ * c_, v) {}
	T& operator()(unsigned i, unsigned j) { return a[(size_t) i * c + j]; }
	const T& operator()(unsigned i, unsigned j) const { return a[(size_t) i * c + j]; }
};
typedef Mat<double> RM;
typedef Mat<ld> LM;

inline LM widen(const RM& A)
{
	LM B(A.r, A.c);
	for(size_t i = 0; i < A.a.size(); i++)
		B.a[i] = A.a[i];
	return B;
}
inline RM narrow(const LM& A)
{
	RM B(A.r, A.c);
	for(size_t i = 0; i < A.a.size(); i++)
		B.a[i] = (double) A.a[i];
	return B;
}
template <class T>
inline Mat<T> transpose(const Mat<T>& A)
{
	Mat<T> B(A.c, A.r);
	for(unsigned i = 0; i < A.r; i++)
		for(unsigned j = 0; j < A.c; j++)
			B(j, i) = A(i, j);
	return B;
}
inline LM mul(const LM& A, const LM& B)
{
	LM C(A.r, B.c);
	for(unsigned i = 0; i < A.r; i++)
		for(unsigned j = 0; j < B.c; j++)
		{
			ld s = 0;
			for(unsigned k = 0; k < A.c; k++)
				s += A(i, k) * B(k, j);
			C(i, j) = s;
		}
	return C;
}
inline LM absmat(const LM& A)
{
	LM B = A;
	for(auto& x : B.a)
		x = fabsl(x);
	return B;
}
inline LM identity(unsigned n)
{
	LM I(n, n);
	for(unsigned i = 0; i < n; i++)
		I(i, i) = 1;
	return I;
}
inline ld fro(const LM& A)
{
	ld s = 0;
	for(ld x : A.a)
		s += x * x;
	return sqrtl(s);
}
inline ld fro_diff(const LM& A, const LM& B)
{
	ld s = 0;
	for(size_t i = 0; i < A.a.size(); i++)
		s += (A.a[i] - B.a[i]) * (A.a[i] - B.a[i]);
	return sqrtl(s);
}
inline ld maxabs(const LM& A)
{
	ld m = 0;
	for(ld x : A.a)
		m = std::max(m, fabsl(x));
	return m;
}

// conversions to / from the library's types (element copies only)
inline libphysica::Matrix to_lib(const RM& A)
{
	std::vector<std::vector<double>> e(A.r, std::vector<double>(A.c));
	for(unsigned i = 0; i < A.r; i++)
		for(unsigned j = 0; j < A.c; j++)
			e[i][j] = A(i, j);
	return libphysica::Matrix(e);
}
inline RM from_lib(const libphysica::Matrix& M)
{
	RM A(M.Rows(), M.Columns());
	for(unsigned i = 0; i < A.r; i++)
		for(unsigned j = 0; j < A.c; j++)
			A(i, j) = M[i][j];
	return A;
}
inline std::vector<double> from_lib(const libphysica::Vector& v)
{
	std::vector<double> x(v.Size());
	for(unsigned i = 0; i < x.size(); i++)
		x[i] = v[i];
	return x;
}
inline RM column_matrix(const std::vector<double>& v)
{
	RM A((unsigned) v.size(), 1);
	A.a = v;
	return A;
}
inline RM row_matrix(const std::vector<double>& v)
{
	RM A(1, (unsigned) v.size());
	A.a = v;
	return A;
}

// ---------------------------------------------------------------------------------------------
// Gauss-Jordan with partial pivoting in long double: inverse, determinant, number of row exchanges.
// Returns false if a pivot column is exactly zero.
inline bool gj_inverse(const LM& M, LM& X, ld& det, int& exchanges)
{
	unsigned n = M.r;
	LM A = M;
	X	 = identity(n);
	det		  = 1;
	exchanges = 0;
	for(unsigned i = 0; i < n; i++)
	{
		unsigned p = i;
		for(unsigned j = i + 1; j < n; j++)
			if(fabsl(A(j, i)) > fabsl(A(p, i)))
				p = j;
		if(A(p, i) == 0)
		{
			det = 0;
			return false;
		}
		if(p != i)
		{
			for(unsigned k = 0; k < n; k++)
			{
				std::swap(A(i, k), A(p, k));
				std::swap(X(i, k), X(p, k));
			}
			det = -det;
			exchanges++;
		}
		ld piv = A(i, i);
		det *= piv;
		for(unsigned k = 0; k < n; k++)
		{
			A(i, k) /= piv;
			X(i, k) /= piv;
		}
		for(unsigned j = 0; j < n; j++)
			if(j != i)
			{
				ld f = A(j, i);
				if(f == 0)
					continue;
				for(unsigned k = 0; k < n; k++)
				{
					A(j, k) -= f * A(i, k);
					X(j, k) -= f * X(i, k);
				}
			}
	}
	return true;
}

// permanent of |M| by the subset recurrence (all terms non-negative: no cancellation), n <= 16
inline ld perm_abs(const LM& M)
{
	unsigned n = M.r;
	if(n == 0)
		return 1;
	std::vector<ld> dp((size_t) 1 << n, 0);
	dp[0] = 1;
	for(unsigned mask = 1; mask < (1u << n); mask++)
	{
		unsigned row = (unsigned) __builtin_popcount(mask) - 1;
		ld s		 = 0;
		for(unsigned j = 0; j < n; j++)
			if(mask & (1u << j))
				s += fabsl(M(row, j)) * dp[mask ^ (1u << j)];
		dp[mask] = s;
	}
	return dp[(1u << n) - 1];
}
// determinant by the same recurrence with the signs of the Laplace expansion (error <= n eps_ld perm|M|)
inline ld det_expand(const LM& M)
{
	unsigned n = M.r;
	if(n == 0)
		return 1;
	std::vector<ld> dp((size_t) 1 << n, 0);
	dp[0] = 1;
	for(unsigned mask = 1; mask < (1u << n); mask++)
	{
		unsigned row = (unsigned) __builtin_popcount(mask) - 1;
		ld s		 = 0;
		for(unsigned j = 0; j < n; j++)
			if(mask & (1u << j))
			{
				unsigned greater = (unsigned) __builtin_popcount(mask >> (j + 1));
				ld t			 = M(row, j) * dp[mask ^ (1u << j)];
				s += (greater & 1) ? -t : t;
			}
		dp[mask] = s;
	}
	return dp[(1u << n) - 1];
}

// ---------------------------------------------------------------------------------------------
// cyclic Jacobi for a symmetric matrix in long double: eigenvalues (unsorted) and eigenvectors (columns of V)
inline void jacobi(const LM& S, std::vector<ld>& eval, LM& V)
{
	unsigned n = S.r;
	LM A	   = S;
	V		   = identity(n);
	for(int sweep = 0; sweep < 100; sweep++)
	{
		ld off = 0, diag = 0;
		for(unsigned i = 0; i < n; i++)
			for(unsigned j = 0; j < n; j++)
				(i == j ? diag : off) += A(i, j) * A(i, j);
		if(off <= 1e-40L * diag || off == 0)
			break;
		for(unsigned p = 0; p + 1 < n; p++)
			for(unsigned q = p + 1; q < n; q++)
			{
				if(A(p, q) == 0)
					continue;
				ld theta = (A(q, q) - A(p, p)) / (2 * A(p, q));
				ld t	 = (theta >= 0 ? 1 : -1) / (fabsl(theta) + sqrtl(theta * theta + 1));
				ld c = 1 / sqrtl(t * t + 1), s = t * c;
				for(unsigned k = 0; k < n; k++)
				{
					ld akp = A(k, p), akq = A(k, q);
					A(k, p) = c * akp - s * akq;
					A(k, q) = s * akp + c * akq;
				}
				for(unsigned k = 0; k < n; k++)
				{
					ld apk = A(p, k), aqk = A(q, k);
					A(p, k) = c * apk - s * aqk;
					A(q, k) = s * apk + c * aqk;
				}
				for(unsigned k = 0; k < n; k++)
				{
					ld vkp = V(k, p), vkq = V(k, q);
					V(k, p) = c * vkp - s * vkq;
					V(k, q) = s * vkp + c * vkq;
				}
			}
	}
	eval.resize(n);
	for(unsigned i = 0; i < n; i++)
		eval[i] = A(i, i);
}

// ---------------------------------------------------------------------------------------------
// generators
inline LM gaussian(vf::Rng& rng, unsigned r, unsigned c)
{
	LM G(r, c);
	for(auto& x : G.a)
		x = rng.normal();
	return G;
}
// Haar-distributed orthogonal matrix: modified Gram-Schmidt (twice) on a Gaussian matrix, long double.
// If `first` is given (non-zero), column 0 is parallel to it.
inline LM haar(vf::Rng& rng, unsigned n, const std::vector<ld>* first = nullptr)
{
	for(;;)
	{
		LM G = gaussian(rng, n, n);
		if(first)
			for(unsigned i = 0; i < n; i++)
				G(i, 0) = (*first)[i];
		bool ok = true;
		for(unsigned j = 0; j < n && ok; j++)
		{
			for(int pass = 0; pass < 2; pass++)
				for(unsigned k = 0; k < j; k++)
				{
					ld d = 0;
					for(unsigned i = 0; i < n; i++)
						d += G(i, k) * G(i, j);
					for(unsigned i = 0; i < n; i++)
						G(i, j) -= d * G(i, k);
				}
			ld nn = 0;
			for(unsigned i = 0; i < n; i++)
				nn += G(i, j) * G(i, j);
			nn = sqrtl(nn);
			if(nn < 1e-6L)
				ok = false;
			for(unsigned i = 0; i < n; i++)
				G(i, j) /= nn;
		}
		if(ok)
			return G;
	}
}
// Q diag(lambda) Q^T in long double, rounded to double and made exactly symmetric
inline RM sym_from_spectrum(const LM& Q, const std::vector<ld>& lam)
{
	unsigned n = Q.r;
	RM S(n, n);
	for(unsigned i = 0; i < n; i++)
		for(unsigned j = i; j < n; j++)
		{
			ld s = 0;
			for(unsigned k = 0; k < n; k++)
				s += Q(i, k) * lam[k] * Q(j, k);
			S(i, j) = S(j, i) = (double) s;
		}
	return S;
}


// ---------------------------------------------------------------------------------------------
// History + model monitor for Matrix objects (C04 / C05): a pool of library objects is driven through a random sequence of mutating calls
// (operator=, +=, -=, element writes, Assign, Resize, Delete_Row/Column, copy construction) while a reference model (RM) receives the same
// mutations; after every step read-only queries on the used object are compared with the definitions evaluated on the model.  A cached or
// memoised quantity that is not invalidated by one of the mutating spellings shows up as a mismatch.
// The same for Vector: default construction, Resize (keeps the leading components, new ones are zero), Assign, element writes, +=, -=, *=, /= by a
// scalar, copies; after every step size, components, Norm and Dot with itself are compared with a std::vector<double> model.
inline void vector_history_case(vf::Rng& rng)
{
	using namespace vf;
	struct VObj
	{
		libphysica::Vector v;
		std::vector<double> ref;
	};
	std::vector<VObj> pool;
	pool.push_back({libphysica::Vector(), std::vector<double>(3, 0.0)});   // the default vector has three zero components
	std::string trail = "default";
	for(int step = 0; step < 30; step++)
	{
		size_t oi = rng.below(pool.size());
		int op	  = rng.irange(0, 7);
		char tag[48];
		switch(op)
		{
			case 0: {
				unsigned n = (unsigned) rng.irange(1, 8);
				pool[oi].v.Resize(n);
				pool[oi].ref.resize(n, 0.0);
				snprintf(tag, sizeof tag, " Resize(%u)", n);
				break;
			}
			case 1: {
				unsigned n = (unsigned) rng.irange(1, 8);
				double e   = rng.normal();
				pool[oi].v.Assign(n, e);
				pool[oi].ref.assign(n, e);
				snprintf(tag, sizeof tag, " Assign(%u)", n);
				break;
			}
			case 2: {
				size_t k = rng.below(pool[oi].ref.size());
				double e = rng.normal();
				pool[oi].v[k] = e, pool[oi].ref[k] = e;
				snprintf(tag, sizeof tag, " [%zu]=", k);
				break;
			}
			case 3: {
				std::vector<double> w(pool[oi].ref.size());
				for(auto& x : w)
					x = rng.normal();
				bool plus = rng.coin();
				if(plus)
					pool[oi].v += libphysica::Vector(w);
				else
					pool[oi].v -= libphysica::Vector(w);
				for(size_t i = 0; i < w.size(); i++)
					pool[oi].ref[i] = plus ? pool[oi].ref[i] + w[i] : pool[oi].ref[i] - w[i];
				snprintf(tag, sizeof tag, plus ? " +=" : " -=");
				break;
			}
			case 4: {
				std::vector<double> w((size_t) rng.irange(1, 8));
				for(auto& x : w)
					x = rng.normal();
				pool[oi].v = libphysica::Vector(w), pool[oi].ref = w;
				snprintf(tag, sizeof tag, " =new(%zu)", w.size());
				break;
			}
			case 5: {
				size_t src = rng.below(pool.size());
				VObj c {libphysica::Vector(pool[src].v), pool[src].ref};
				if(pool.size() < 4)
					pool.push_back(c);
				else
					pool[oi] = c;
				snprintf(tag, sizeof tag, " copy");
				break;
			}
			case 6: {
				size_t src = rng.below(pool.size());
				if(src != oi)
				{
					pool[oi].v = pool[src].v, pool[oi].ref = pool[src].ref;
				}
				snprintf(tag, sizeof tag, " assign");
				break;
			}
			default: {
				libphysica::Vector d(3);
				pool[oi].v = d, pool[oi].ref.assign(3, 0.0);
				snprintf(tag, sizeof tag, " =Vector(3)");
				break;
			}
		}
		if(trail.size() < 300)
			trail += tag;
		const VObj& q = pool[rng.coin(0.7) ? oi : rng.below(pool.size())];
		auto hj = [&] { return J().i("step", step).str("history", trail).vec("model", q.ref); };
		bool size_ok = q.v.Size() == q.ref.size();
		require("vector-history-size-follows-the-mutations", size_ok, [&] { return hj().i("Size", (long long) q.v.Size()); });
		if(!size_ok)
			return;
		bool same = true;
		ld n2 = 0;
		for(size_t i = 0; i < q.ref.size(); i++)
		{
			same = same && same_bits(q.v[(unsigned) i], q.ref[i]);
			n2 += (ld) q.ref[i] * q.ref[i];
		}
		require("vector-history-components-follow-the-mutations", same, [&] { return hj().vec("components", from_lib(q.v)); });
		judge("vector-history-norm", std::fabs(q.v.Norm() - (double) sqrtl(n2)), 8 * (q.ref.size() + 2) * EPS * (double) sqrtl(n2) + 1e-300, [&] { return hj().d("Norm", q.v.Norm()); });
		judge("vector-history-dot", std::fabs(q.v.Dot(q.v) - (double) n2), 8 * (q.ref.size() + 2) * EPS * (double) n2 + 1e-300, [&] { return hj().d("Dot", q.v.Dot(q.v)); });
	}
}

inline void matrix_history_case(vf::Rng& rng, uint64_t index, bool inverse_queries)
{
	using namespace vf;
	struct Obj
	{
		libphysica::Matrix M;
		RM ref;
	};
	auto random_rm = [&](unsigned r, unsigned c) {
		RM A(r, c);
		for(auto& x : A.a)
			x = rng.coin(0.2) ? (double) rng.irange(-3, 3) : rng.normal();
		if(inverse_queries && r == c)
			for(unsigned i = 0; i < r; i++)
				A(i, i) += (A(i, i) >= 0 ? 1.0 : -1.0) * r;	  // well conditioned, so that Inverse is a valid request
		return A;
	};
	auto dim = [&]() { return (unsigned) rng.irange(1, inverse_queries ? 4 : 5); };
	std::vector<Obj> pool;
	{
		unsigned r = dim(), c = inverse_queries ? r : dim();
		RM A = random_rm(r, c);
		pool.push_back({to_lib(A), A});
	}
	set_params(J().i("steps", 60).i("inverse_queries", inverse_queries).i("first_rows", pool[0].ref.r).i("first_columns", pool[0].ref.c));
	hash_param_u(index);
	mark_nontrivial();
	std::string trail;
	for(int step = 0; step < 60; step++)
	{
		size_t oi = rng.below(pool.size());
#define o pool[oi]	  // by index: the pool may reallocate when a copy joins it
		int op	= rng.irange(0, 9);
		char tag[64];
		switch(op)
		{
			case 0: {	// assignment of a new value (possibly another shape)
				unsigned r = dim(), c = (inverse_queries || rng.coin(0.5)) ? r : dim();
				RM A = random_rm(r, c);
				o.M	 = to_lib(A);
				o.ref = A;
				snprintf(tag, sizeof tag, "=(%ux%u);", r, c);
				break;
			}
			case 1:
			case 2: {
				RM B = random_rm(o.ref.r, o.ref.c);
				libphysica::Matrix LB = to_lib(B);
				if(op == 1)
					o.M += LB;
				else
					o.M -= LB;
				for(size_t i = 0; i < B.a.size(); i++)
					o.ref.a[i] = (op == 1) ? o.ref.a[i] + B.a[i] : o.ref.a[i] - B.a[i];
				snprintf(tag, sizeof tag, "%s;", op == 1 ? "+=" : "-=");
				break;
			}
			case 3: {
				unsigned i = (unsigned) rng.below(o.ref.r), j = (unsigned) rng.below(o.ref.c);
				double v   = rng.normal() * 3;
				o.M[i][j]  = v;
				o.ref(i, j) = v;
				snprintf(tag, sizeof tag, "[%u][%u]=;", i, j);
				break;
			}
			case 4: {
				unsigned r = dim(), c = (inverse_queries || rng.coin(0.5)) ? r : dim();
				double v   = inverse_queries ? 0.0 : rng.normal();
				o.M.Assign((int) r, (int) c, v);
				o.ref = RM(r, c, v);
				if(inverse_queries)
					for(unsigned i = 0; i < r; i++)
					{
						double d  = rng.uni(1, 3) * rng.sign();
						o.M[i][i] = d, o.ref(i, i) = d;
					}
				snprintf(tag, sizeof tag, "Assign(%u,%u);", r, c);
				break;
			}
			case 5: {
				unsigned r = dim(), c = inverse_queries ? r : dim();
				RM N(r, c, 0.0);
				for(unsigned i = 0; i < std::min(r, o.ref.r); i++)
					for(unsigned j = 0; j < std::min(c, o.ref.c); j++)
						N(i, j) = o.ref(i, j);
				o.M.Resize((int) r, (int) c);
				if(inverse_queries)
					for(unsigned i = 0; i < r; i++)
						if(N(i, i) == 0.0)
						{
							double d  = rng.uni(1, 3);
							o.M[i][i] = d, N(i, i) = d;
						}
				o.ref = N;
				snprintf(tag, sizeof tag, "Resize(%u,%u);", r, c);
				break;
			}
			case 6:
			case 7: {
				if(inverse_queries || o.ref.r < 2 || o.ref.c < 2)
				{
					snprintf(tag, sizeof tag, "-;");
					break;
				}
				bool row   = op == 6;
				unsigned k = (unsigned) rng.below(row ? o.ref.r : o.ref.c);
				RM N(row ? o.ref.r - 1 : o.ref.r, row ? o.ref.c : o.ref.c - 1);
				for(unsigned i = 0, ii = 0; i < o.ref.r; i++)
				{
					if(row && i == k)
						continue;
					for(unsigned j = 0, jj = 0; j < o.ref.c; j++)
					{
						if(!row && j == k)
							continue;
						N(ii, jj++) = o.ref(i, j);
					}
					ii++;
				}
				if(row)
					o.M.Delete_Row(k);
				else
					o.M.Delete_Column(k);
				o.ref = N;
				snprintf(tag, sizeof tag, "%s(%u);", row ? "Delete_Row" : "Delete_Column", k);
				break;
			}
			case 8: {	// copy construction: the copy joins the pool
				Obj c {libphysica::Matrix(pool[oi].M), pool[oi].ref};
				if(pool.size() < 4)
					pool.push_back(c);
				else
					pool[1 + rng.below(pool.size() - 1)] = c;
				snprintf(tag, sizeof tag, "copy;");
				break;
			}
			default: {	 // assignment between pool members
				size_t a = rng.below(pool.size()), b = rng.below(pool.size());
				if(a != b)
				{
					pool[a].M	= pool[b].M;
					pool[a].ref = pool[b].ref;
				}
				snprintf(tag, sizeof tag, "pool=;");
				break;
			}
		}
		if(trail.size() < 300)
			trail += tag;
		// ---- queries on a random pool member (often the one just mutated)
		Obj& q		   = rng.coin(0.7) ? pool[oi] : pool[rng.below(pool.size())];
#undef o
		const RM& R	   = q.ref;
		auto hj		   = [&] { return J().i("step", step).str("history", trail).i("rows", R.r).i("columns", R.c).vec("model_row_major", R.a); };
		bool shape_ok  = q.M.Rows() == R.r && q.M.Columns() == R.c;
		require("history-shape-follows-the-mutations", shape_ok, [&] { return hj().i("Rows", q.M.Rows()).i("Columns", q.M.Columns()); });
		if(!shape_ok)
			return;
		const libphysica::Matrix& CM = q.M;
		bool entries = true;
		for(unsigned i = 0; i < R.r; i++)
			for(unsigned j = 0; j < R.c; j++)
				entries = entries && same_bits(CM[i][j], R(i, j));
		require("history-entries-follow-the-mutations", entries, hj);
		if(!inverse_queries)
		{
			unsigned i = (unsigned) rng.below(R.r), j = (unsigned) rng.below(R.c);
			std::vector<double> row = from_lib(q.M.Return_Row(i)), col = from_lib(q.M.Return_Column(j));
			bool ok = row.size() == R.c && col.size() == R.r;
			for(unsigned k = 0; ok && k < R.c; k++)
				ok = same_bits(row[k], R(i, k));
			for(unsigned k = 0; ok && k < R.r; k++)
				ok = same_bits(col[k], R(k, j));
			require("history-return-row-and-column", ok, [&] { return hj().i("row", i).i("column", j).vec("Return_Row", row).vec("Return_Column", col); });
			RM T = from_lib(q.M.Transpose());
			bool okt = T.r == R.c && T.c == R.r;
			for(unsigned a = 0; okt && a < R.r; a++)
				for(unsigned b = 0; okt && b < R.c; b++)
					okt = same_bits(T(b, a), R(a, b));
			require("history-transpose", okt, hj);
			ld n2 = 0;
			for(double x : R.a)
				n2 += (ld) x * x;
			judge("history-norm", (double) fabsl((ld) q.M.Norm() - sqrtl(n2)), 8 * R.a.size() * EPS * (double) sqrtl(n2) + 1e-300, [&] { return hj().d("Norm", q.M.Norm()); });
			if(R.r == R.c)
			{
				ld tr = 0;
				for(unsigned a = 0; a < R.r; a++)
					tr += R(a, a);
				ld sc = 0;
				for(unsigned a = 0; a < R.r; a++)
					sc += fabsl((ld) R(a, a));
				judge("history-trace", (double) fabsl((ld) q.M.Trace() - tr), 8 * R.r * EPS * (double) sc + 1e-300, [&] { return hj().d("Trace", q.M.Trace()); });
				bool sym = true, asym = true, diag = true;
				for(unsigned a = 0; a < R.r; a++)
					for(unsigned b = 0; b < R.c; b++)
					{
						sym	 = sym && R(a, b) == R(b, a);
						asym = asym && R(a, b) == -R(b, a);
						diag = diag && (a == b || R(a, b) == 0.0);
					}
				require("history-predicates", q.M.Symmetric() == sym && q.M.Antisymmetric() == asym && q.M.Diagonal() == diag && q.M.Square(), [&] { return hj().i("Symmetric", q.M.Symmetric()).i("Antisymmetric", q.M.Antisymmetric()).i("Diagonal", q.M.Diagonal()); });
			}
			else
				require("history-predicates", !q.M.Square() && !q.M.Symmetric() && !q.M.Diagonal(), hj);
			libphysica::Matrix same = to_lib(R);
			require("history-equality-with-a-fresh-matrix", q.M == same, hj);
		}
		else if(R.r == R.c)
		{
			LM W   = widen(R), X;
			ld det = det_expand(W), dgj;
			int ex;
			double d = q.M.Determinant();
			judge("history-determinant", (double) fabsl((ld) d - det), 8 * R.r * EPS * (double) perm_abs(W) + 1e-300, [&] { return hj().d("Determinant", d).d("reference", (double) det); });
			require("history-invertible", q.M.Invertible() == (d != 0.0), [&] { return hj().d("Determinant", d).i("Invertible", q.M.Invertible()); });
			if(gj_inverse(W, X, dgj, ex) && fro(W) * fro(X) < 1e8L && d != 0.0)
			{
				LM XL = widen(from_lib(q.M.Inverse()));
				bool okshape = XL.r == R.r && XL.c == R.c;
				require("history-inverse-shape", okshape, hj);
				if(okshape)
					judge("history-inverse", (double) (fro_diff(XL, X) / fro(X)), 16 * R.r * (double) (fro(W) * fro(X)) * EPS, [&] { return hj().d("kappa_F", (double) (fro(W) * fro(X))); });
			}
		}
	}
}

inline std::string shape_str(unsigned r, unsigned c) { return std::to_string(r) + "x" + std::to_string(c); }

inline void hash_matrix(const RM& A)
{
	vf::hash_param_u(((uint64_t) A.r << 32) | A.c);
	for(double x : A.a)
		vf::hash_param(x);
}

}	// namespace la
#endif
