// C19 - partition, grid, search, list and summary-statistics helpers meet their specs (DESIGN.md section 4, C19).
// Exhaustive sub-spaces: Workload_Distribution for all 1<=workers<=128, 0<=tasks<=1024; Range for all min,max in [-40,40], steps 1..40;
// Locate_Closest_Location for all sorted lists over a 5-letter alphabet up to length 8 (with duplicates) x all half-integer targets.
// Random: Linear_Space / Log_Space, list templates on int / double / std::string, summary statistics against long double references and laws.
#include "verif.hpp"

#include <algorithm>
#include <numeric>
#include <string>

#include "libphysica/List_Manipulations.hpp"
#include "libphysica/Statistics.hpp"
#include "libphysica/Utilities.hpp"

using namespace libphysica;
using namespace vf;
typedef long double ld;

// ------------------------------------------------------------------------------------------------------------------
static void case_workload(Rng&, uint64_t index)
{
	// one case = one value of `workers`, all tasks 0..1024
	unsigned workers = 1 + (unsigned) index;
	set_params(J().i("workers", workers));
	hash_param_u(workers);
	mark_nontrivial();
	for(unsigned tasks = 0; tasks <= 1024; tasks++)
	{
		std::vector<int> v = Workload_Distribution(workers, tasks);
		bool ok = v.size() == workers + 1 && v.front() == 0 && v.back() == (int) tasks;
		int dmin = INT32_MAX, dmax = INT32_MIN;
		for(size_t i = 0; ok && i + 1 < v.size(); i++)
		{
			int d = v[i + 1] - v[i];
			if(d < 0)
				ok = false;
			dmin = std::min(dmin, d), dmax = std::max(dmax, d);
		}
		ok = ok && (dmax - dmin <= 1);
		require("workload-distribution-partition", ok, [&] {
			std::vector<double> dv(v.begin(), v.end());
			return J().i("workers", workers).i("tasks", tasks).vec("indices", dv);
		});
		if(tasks % workers != 0)
			count_nontrivial("workload-distribution-partition");
	}
}

static void case_range(Rng&, uint64_t index)
{
	// one case = one value of min in [-40,40]; all max in [-40,40], steps 1..40
	int mn = (int) index - 40;
	set_params(J().i("min", mn));
	hash_param_u(index);
	mark_nontrivial();
	for(int mx = -40; mx <= 40; mx++)
		for(int st = 1; st <= 40; st++)
		{
			std::vector<int> r = Range(mn, mx, st);
			std::vector<int> e;
			if(mn < mx)
				for(int i = mn; i < mx; i += st)
					e.push_back(i);
			else
				for(int i = mn; i > mx; i -= st)
					e.push_back(i);
			require("range-enumerates-half-open-integer-range", r == e, [&] {
				std::vector<double> dv(r.begin(), r.end());
				return J().i("min", mn).i("max", mx).i("step", st).vec("Range", dv);
			});
		}
	{
		// the one-argument form is Range(0, max): ascending for max > 0, descending (0, -1, ..., max+1) for max < 0, empty for 0
		std::vector<int> r = Range(mn), e, two = Range(0, mn);
		if(mn >= 0)
			for(int i = 0; i < mn; i++)
				e.push_back(i);
		else
			for(int i = 0; i > mn; i--)
				e.push_back(i);
		require("range-single-argument-counts-from-zero", r == e && r == two, [&] {
			std::vector<double> dv(r.begin(), r.end());
			return J().i("max", mn).vec("Range(max)", dv);
		});
	}
}

// nearest-element oracle
static void check_closest(const std::vector<double>& v, double t)
{
	unsigned idx = Locate_Closest_Location(v, t);
	bool ok		 = idx < v.size();
	double best	 = INFINITY;
	for(double x : v)
		best = std::min(best, std::fabs(x - t));
	ok = ok && std::fabs(v[idx] - t) == best;
	require("closest-location-is-a-nearest-element", ok, [&] { return J().vec("list", v).d("target", t).i("index", idx); });
}
static void case_closest_exhaustive(Rng&, uint64_t index)
{
	// all non-decreasing lists over {0,1,2,3,4} of length L = 1..8: one case per length
	int L = 1 + (int) index;
	set_params(J().i("length", L));
	hash_param_u(index);
	mark_nontrivial();
	std::vector<int> c(L, 0);
	uint64_t lists = 0;
	for(;;)
	{
		std::vector<double> v(c.begin(), c.end());
		for(int t2 = -3; t2 <= 11; t2++)	// targets -1.5, -1, ..., 5.5: below, above, on elements, ties between elements
			check_closest(v, 0.5 * t2);
		lists++;
		// next non-decreasing sequence
		int i = L - 1;
		while(i >= 0 && c[i] == 4)
			i--;
		if(i < 0)
			break;
		int nv = c[i] + 1;
		for(int j = i; j < L; j++)
			c[j] = nv;
	}
	clause("closest-location-is-a-nearest-element").nontrivial += lists;
}
static void case_closest_random(Rng& rng, uint64_t index)
{
	int L = rng.irange(1, 64);
	std::vector<double> v(L);
	double scale = rng.loguni(1e-6, 1e6);
	for(auto& x : v)
		x = rng.coin(0.3) ? std::round(rng.uni(-5, 5)) * scale : rng.uni(-5, 5) * scale;
	std::sort(v.begin(), v.end());
	set_params(J().vec("list", v));
	hash_param(v[0]), hash_param(v[L - 1]), hash_param_u(L);
	if(L > 1)
		mark_nontrivial();
	for(int m = 0; m < 40; m++)
	{
		double t;
		switch(m % 5)
		{
			case 0: t = v[rng.below(L)]; break;
			case 1: {
				size_t i = rng.below(L);
				t		 = (L > 1 && i + 1 < (size_t) L) ? 0.5 * (v[i] + v[i + 1]) : v[i];
				break;
			}
			case 2: t = v[0] - rng.loguni(1e-9, 1e3) * scale; break;
			case 3: t = v[L - 1] + rng.loguni(1e-9, 1e3) * scale; break;
			default: t = rng.uni(v[0], v[L - 1]); break;
		}
		check_closest(v, t);
	}
	(void) index;
}

static void case_spaces(Rng& rng, uint64_t index)
{
	unsigned steps = (index % 5 == 0) ? (unsigned) rng.irange(0, 3) : (unsigned) rng.irange(2, 2000);
	double a = rng.mag(1e-6, 1e6), b = rng.mag(1e-6, 1e6);
	if(index % 4 == 1)
	{
		// small- and large-valued quantities (cross sections of 1e-45, energies of 1e19): the whole range scaled by an exact power of two, and ranges
		// starting at zero, so that the width is far below (or above) any absolute threshold
		double sc = std::ldexp(1.0, rng.coin() ? -rng.irange(40, 160) : rng.irange(40, 160));
		a *= sc, b *= sc;
		if(rng.coin(0.2))
			a = 0.0;
	}
	if(index % 4 == 2 && rng.coin(0.5))
	{
		// a range that is narrow compared with its position (1e-14..1e-9 of |min|; at least 64 doubles per step): no relative "min equals max" test may fire
		double rel = rng.loguni(1e-14, 1e-9);
		b = a * (1.0 + rng.sign() * rel);
		if(std::fabs(b - a) < 64 * ulp(a) * std::max(steps, 2u))
			b = a + rng.sign() * 64 * ulp(a) * std::max(steps, 2u);
	}
	if(rng.coin(0.1))
		b = a;
	if(a == 0.0 && b == 0.0)
		b = 1.0;
	set_params(J().d("min", a).d("max", b).i("steps", steps));
	hash_param(a), hash_param(b), hash_param_u(steps);
	if(steps >= 2 && a != b)
		mark_nontrivial();
	std::vector<double> lin = Linear_Space(a, b, steps);
	if(steps < 2 || a == b)
	{
		// degenerate requests ("N points from min to max" has no meaning): the library returns {min}
		require("linear-space-degenerate-request-returns-min", lin.size() == 1 && same_bits(lin[0], a), [&] { return J().vec("Linear_Space", lin); });
	}
	else
	{
		bool ok = lin.size() == steps && same_bits(lin.front(), a);
		require("linear-space-count-and-first-point", ok, [&] { return J().i("size", (long long) lin.size()).d("first", lin.empty() ? NAN : lin.front()); });
		if(ok)
		{
			double scale = std::max(std::fabs(a), std::fabs(b));
			judge("linear-space-last-point-is-max", std::fabs(lin.back() - b), 16 * ulp(scale), [&] { return J().d("last", lin.back()); });
			bool mono = true;
			double dir = b > a ? 1 : -1, worst2 = 0;
			ld h = ((ld) b - (ld) a) / (steps - 1);
			for(size_t i = 0; i + 1 < lin.size(); i++)
			{
				if(!(dir * (lin[i + 1] - lin[i]) > 0))
					mono = false;
				worst2 = std::max(worst2, (double) fabsl(((ld) lin[i + 1] - (ld) lin[i]) - h));
			}
			// strict monotonicity needs |h| well above the rounding of the points
			if(std::fabs((double) h) > 16 * ulp(scale))
				require("linear-space-strictly-monotone", mono, [&] { return J().d("step", (double) h); });
			judge("linear-space-equally-spaced", worst2, 16 * ulp(scale), [&] { return J().d("step", (double) h).d("worst_deviation", worst2); });
		}
	}
	double la = a == 0.0 ? std::fabs(b) * 0x1p-20 : std::fabs(a), lb = std::fabs(b);	  // a logarithmic grid cannot start at zero
	std::vector<double> lg = Log_Space(la, lb, steps);
	if(steps < 2 || la == lb)
		require("log-space-degenerate-request-returns-min", lg.size() == 1 && same_bits(lg[0], la), [&] { return J().vec("Log_Space", lg); });
	else
	{
		bool ok = lg.size() == steps;
		require("log-space-count", ok, [&] { return J().i("size", (long long) lg.size()); });
		if(ok)
		{
			double cond = 1 + std::fabs(std::log(la)) + std::fabs(std::log(lb));
			judge("log-space-first-point-is-min", std::fabs(lg.front() - la) / la, 64 * EPS * cond, [&] { return J().d("first", lg.front()); });
			judge("log-space-last-point-is-max", std::fabs(lg.back() - lb) / lb, 64 * EPS * cond, [&] { return J().d("last", lg.back()); });
			ld dl = (logl((ld) lb) - logl((ld) la)) / (steps - 1);
			bool mono = true;
			double dir = lb > la ? 1 : -1, worst = 0;
			for(size_t i = 0; i + 1 < lg.size(); i++)
			{
				if(!(dir * (lg[i + 1] - lg[i]) > 0))
					mono = false;
				worst = std::max(worst, (double) fabsl(logl((ld) lg[i + 1] / (ld) lg[i]) - dl));
			}
			if(std::fabs((double) dl) > 256 * EPS * cond)
				require("log-space-strictly-monotone", mono, [&] { return J().d("dlog", (double) dl); });
			judge("log-space-equally-spaced-in-the-logarithm", worst, 64 * EPS * cond, [&] { return J().d("dlog", (double) dl).d("worst_deviation", worst); });
		}
	}
}

// ------------------------------------------------------------------------------------------------------------------
// list templates against their element-wise definitions, for int, double and std::string
template <class T>
static void list_checks(Rng& rng, const std::function<T(Rng&)>& gen, const char* tname)
{
	auto mk = [&](int n) {
		std::vector<T> v(n);
		for(auto& x : v)
			x = gen(rng);
		return v;
	};
	std::vector<T> a = mk(rng.irange(0, 12)), b = rng.coin(0.3) ? a : mk(rng.irange(0, 12));
	auto tj = [&] { return J().str("type", tname).i("size_a", (long long) a.size()).i("size_b", (long long) b.size()); };
	require("lists-equal-definition", Lists_Equal(a, b) == (a == b) && Lists_Equal(a, a), tj);
	std::vector<T> c = Combine_Lists(a, b);
	bool okc = c.size() == a.size() + b.size();
	for(size_t i = 0; okc && i < c.size(); i++)
		okc = (c[i] == (i < a.size() ? a[i] : b[i - a.size()]));
	require("combine-lists-definition", okc, tj);
	// nested
	int rows = rng.irange(1, 6), cols = rng.irange(0, 6);
	std::vector<std::vector<T>> M(rows);
	for(auto& r : M)
		r = mk(cols);
	std::vector<std::vector<T>> Tm = Transpose_Lists(M);
	bool okt = (int) Tm.size() == cols;
	for(int j = 0; okt && j < cols; j++)
	{
		okt = (int) Tm[j].size() == rows;
		for(int i = 0; okt && i < rows; i++)
			okt = (Tm[j][i] == M[i][j]);
	}
	require("transpose-lists-definition", okt, [&] { return tj().i("rows", rows).i("columns", cols); });
	if(cols > 0)
		require("transpose-lists-involution", Lists_Equal(Transpose_Lists(Tm), M), [&] { return tj().i("rows", rows).i("columns", cols); });
	if(rows >= 2)
	{
		std::vector<std::vector<T>> T2 = Transpose_Lists(M[0], M[1]);
		bool ok2 = (int) T2.size() == cols;
		for(int j = 0; ok2 && j < cols; j++)
			ok2 = T2[j].size() == 2 && T2[j][0] == M[0][j] && T2[j][1] == M[1][j];
		require("transpose-two-lists-definition", ok2, tj);
	}
	// ragged nested lists for Flatten and the nested Lists_Equal
	std::vector<std::vector<T>> Rg(rng.irange(0, 5));
	for(auto& r : Rg)
		r = mk(rng.irange(0, 4));
	std::vector<T> fl = Flatten_List(Rg), fe;
	for(auto& r : Rg)
		for(auto& x : r)
			fe.push_back(x);
	require("flatten-list-definition", fl == fe, tj);
	std::vector<std::vector<T>> Rg2 = Rg;
	if(!Rg2.empty() && rng.coin())
		Rg2.back().push_back(gen(rng));
	require("nested-lists-equal-definition", Lists_Equal(Rg, Rg2) == (Rg == Rg2), tj);
	// Sub_List: every index pair up to size+2 (incl. negative lower index)
	for(int i1 = -2; i1 <= (int) a.size() + 2; i1++)
		for(unsigned i2 = 0; i2 <= a.size() + 2; i2++)
		{
			std::vector<T> s = Sub_List(a, i1, i2), e;
			for(int k = std::max(i1, 0); k <= (int) i2 && k < (int) a.size(); k++)
				e.push_back(a[k]);
			require("sub-list-definition", s == e, [&] { return tj().i("i1", i1).i("i2", i2).i("returned", (long long) s.size()).i("expected", (long long) e.size()); });
		}
	// "up to the end" requests: upper indices far beyond the list, incl. values that are negative when read as int
	for(unsigned i2 : {0x7fffffffu, 0x80000000u, 0x80000003u, 0xfffffffeu, 0xffffffffu})
		for(int i1 : {-1, 0, 1, (int) a.size() - 1, (int) a.size()})
		{
			std::vector<T> s = Sub_List(a, i1, i2), e;
			for(int k = std::max(i1, 0); k < (int) a.size(); k++)
				e.push_back(a[k]);
			require("sub-list-definition", s == e, [&] { return tj().i("i1", i1).d("i2", (double) i2).i("returned", (long long) s.size()).i("expected", (long long) e.size()); });
		}
	// List_Contains / Find_Indices
	T probe = (!a.empty() && rng.coin(0.7)) ? a[rng.below(a.size())] : gen(rng);
	bool has = false;
	std::vector<int> idx;
	for(size_t i = 0; i < a.size(); i++)
		if(a[i] == probe)
			has = true, idx.push_back((int) i);
	require("list-contains-definition", List_Contains(a, probe) == has, tj);
	require("find-indices-definition", Find_Indices(a, probe) == idx, tj);
}
static void case_lists(Rng& rng, uint64_t index)
{
	set_params(J().i("type", (long long) (index % 3)));
	hash_param_u(index);
	mark_nontrivial();
	switch(index % 3)
	{
		case 0: list_checks<int>(rng, [](Rng& r) { return r.irange(-3, 3); }, "int"); break;
		case 1: {
			list_checks<double>(rng, [](Rng& r) { return r.coin(0.5) ? (double) r.irange(-2, 2) : r.normal(); }, "double");
			// equality of floating-point lists is by value: zeros of either sign are equal, a NaN equals nothing (seeded change C19-r3m2 compared the bytes)
			int n = rng.irange(1, 10);
			std::vector<double> a(n), b;
			for(auto& x : a)
				x = rng.coin(0.4) ? (rng.coin() ? 0.0 : -0.0) : (double) rng.irange(-2, 2);
			b = a;
			for(auto& x : b)
				if(x == 0.0 && rng.coin())
					x = -x;
			auto zj = [&] { return J().vec("a", a).vec("b", b); };
			require("lists-equal-definition", Lists_Equal(a, b) == (a == b), zj);
			std::vector<std::vector<double>> A2 = {a, b}, B2 = {b, a};
			require("nested-lists-equal-definition", Lists_Equal(A2, B2) == (A2 == B2), zj);
			if(rng.coin(0.3))
			{
				std::vector<double> c = a;
				c[rng.below(c.size())] = std::nan("");
				std::vector<double> d = c;
				require("lists-equal-definition", Lists_Equal(c, d) == (c == d), [&] { return J().vec("a", c).vec("b", d); });
			}
			break;
		}
		default:
			list_checks<std::string>(rng, [](Rng& r) {
				static const char* w[] = {"", "a", "b", "ab", "abc", "x y"};
				return std::string(w[r.below(6)]);
			}, "std::string");
			break;
	}
}

// ------------------------------------------------------------------------------------------------------------------
static void case_statistics(Rng& rng, uint64_t index)
{
	int n = (index % 10 == 0) ? rng.irange(1, 3) : rng.irange(1, 200);
	std::vector<double> d(n);
	double loc = rng.coin(0.5) ? 0.0 : rng.mag(1e-2, 1e3), sc = rng.loguni(1e-3, 1e3);
	if(index % 4 == 3)
		loc = rng.sign() * sc * rng.loguni(1e2, 1e5);	// offset large compared with the scatter (conditioning of one-pass formulas)
	bool tiny_data = index % 16 == 6;
	for(auto& x : d)
		x = loc + sc * (rng.coin(0.2) ? std::round(rng.uni(-3, 3)) : rng.normal());
	if(tiny_data)
	{
		// values at the bottom of the double range: small multiples of the smallest subnormal (halving them is not exact)
		for(auto& x : d)
			x = std::ldexp((double) rng.irange(-40, 40), -1074);
		loc = 0, sc = 4.9e-324;
	}
	set_params(J().i("n", n).d("location", loc).d("scale", sc).vec("data", d));
	hash_param_u(n), hash_param(d[0]), hash_param(d[n - 1]);
	if(n >= 2)
		mark_nontrivial();
	ld s = 0, amax = 0;
	for(double x : d)
		s += x, amax = std::max(amax, (ld) std::fabs(x));
	ld mref = s / n;
	double mean = Arithmetic_Mean(d);
	double tol_m = 4 * n * EPS * (double) amax + 1e-300;
	judge("mean-vs-reference", (double) fabsl((ld) mean - mref), tol_m, [&] { return J().d("Arithmetic_Mean", mean).d("reference", (double) mref); });
	// median
	std::vector<double> srt = d, work = d;
	std::sort(srt.begin(), srt.end());
	double medref = (n % 2) ? srt[n / 2] : (srt[n / 2 - 1] + srt[n / 2]) / 2;
	double med	  = Median(work);
	require("median-definition", near_ulps(med, medref, 2) || (n % 2 == 0 && std::fabs(med - medref) <= 2 * EPS * std::max(std::fabs(srt[n / 2 - 1]), std::fabs(srt[n / 2]))), [&] { return J().d("Median", med).d("reference", medref); });
	// whatever way the two central values are averaged, the result cannot leave the interval they span (also not by a rounding quantum at the bottom of the
	// double range, where 0.5*a + 0.5*b does)
	{
		double lo_c = (n % 2) ? srt[n / 2] : srt[n / 2 - 1], hi_c = srt[n / 2];
		require("median-between-the-central-order-statistics", med >= lo_c && med <= hi_c, [&] { return J().d("Median", med).d("lower_central", lo_c).d("upper_central", hi_c); });
	}
	std::vector<double> work_sorted = work;
	std::sort(work_sorted.begin(), work_sorted.end());
	require("median-only-permutes-its-argument", work_sorted == srt, [&] { return J().i("n", n); });
	// permutation invariance (exact for the median, to rounding for the mean)
	std::vector<double> p = d;
	for(size_t i = p.size() - 1; i > 0; i--)
		std::swap(p[i], p[rng.below(i + 1)]);
	std::vector<double> pw = p;
	require("median-permutation-invariant", Median(pw) == med, [&] { return J().d("Median", med); });
	judge("mean-permutation-invariant", std::fabs(Arithmetic_Mean(p) - mean), tol_m, [&] { return J().d("mean", mean); });
	// translation and scaling laws
	double t = rng.mag(1e-2, 1e2) * sc, k = rng.mag(1e-3, 1e3);
	std::vector<double> dt = d, dk = d;
	for(auto& x : dt)
		x += t;
	for(auto& x : dk)
		x *= k;
	const double Q = 8 * 4.9406564584124654e-324;	// a few quanta of the subnormal range: relative tolerances underflow to zero there
	double tol_t = 4 * n * EPS * ((double) amax + std::fabs(t)) + Q;
	judge("mean-translation-law", std::fabs(Arithmetic_Mean(dt) - (mean + t)), 2 * tol_t, [&] { return J().d("shift", t); });
	judge("mean-scaling-law", std::fabs(Arithmetic_Mean(dk) - k * mean), 2 * std::fabs(k) * tol_m + 1e-300, [&] { return J().d("factor", k); });
	{
		std::vector<double> w1 = dt, w2 = dk;
		double m1 = Median(w1), m2 = Median(w2);
		judge("median-translation-law", std::fabs(m1 - (med + t)), 4 * EPS * ((double) amax + std::fabs(t)) + Q, [&] { return J().d("shift", t); });
		judge("median-scaling-law", std::fabs(m2 - k * med), 4 * EPS * std::fabs(k) * (double) amax + 1e-300, [&] { return J().d("factor", k); });
	}
	if(n >= 2)
	{
		ld q = 0;
		for(double x : d)
			q += ((ld) x - mref) * ((ld) x - mref);
		ld vref	   = q / (n - 1);
		double var = Variance(d), sd = Standard_Deviation(d);
		// two-pass formula in double: error <= ~ n eps (spread^2 + mean-error effects)
		ld spread = 0;
		for(double x : d)
			spread = std::max(spread, fabsl((ld) x - mref));
		// ... plus the square of the rounding error of the mean itself (4 n eps amax): for data whose values all coincide the spread is zero, the mean of
		// three equal numbers may be one ulp off, and the variance comes out as ulp^2 instead of 0 (thorough tier, 3 cases in 2.4e7)
		double tol_v = 8 * n * EPS * (double) (spread * spread + spread * amax * 4 * n * EPS) + 8 * EPS * (double) vref + 2 * tol_m * tol_m + 1e-300;
		// the rounded mean shifts every deviation by up to tol_m: second-order only, covered by the spread*amax term
		judge("variance-vs-reference-(n-1)", (double) fabsl((ld) var - vref), tol_v, [&] { return J().d("Variance", var).d("reference", (double) vref); });
		judge("standard-deviation-is-sqrt-of-variance", std::fabs(sd - std::sqrt(var)), 4 * EPS * sd, [&] { return J().d("Standard_Deviation", sd).d("Variance", var); });
		double vt = Variance(dt), vk = Variance(dk);
		double tol_vt = 8 * n * EPS * (double) ((spread + 4 * n * EPS * (amax + fabsl((ld) t))) * (spread + 4 * n * EPS * (amax + fabsl((ld) t)))) + 64 * n * EPS * (double) spread * ((double) amax + std::fabs(t)) + 1e-300;
		judge("variance-translation-invariant", std::fabs(vt - var), tol_v + tol_vt + 2 * tol_t * tol_t, [&] { return J().d("shift", t).d("Variance", var).d("shifted", vt); });
		judge("variance-scaling-law", std::fabs(vk - k * k * var), 4 * k * k * tol_v + 16 * EPS * k * k * (double) (spread * amax) + 4 * k * k * tol_m * tol_m + 1e-300, [&] { return J().d("factor", k).d("Variance", var).d("scaled", vk); });
		// Weighted_Average with equal weights = (mean, s/sqrt(N)); weight scaling invariance
		double w = rng.loguni(1e-3, 1e3);
		std::vector<DataPoint> dp, dp2;
		for(double x : d)
			dp.push_back(DataPoint(x, w)), dp2.push_back(DataPoint(x, 7.0 * w));
		std::vector<double> wa = Weighted_Average(dp), wa2 = Weighted_Average(dp2);
		require("weighted-average-returns-mean-and-error", wa.size() == 2 && wa2.size() == 2, [&] { return J().i("size", (long long) wa.size()); });
		// the list is handed over by non-const reference: the caller goes on using it (merging samples, averaging again), so it has to come back as it was
		// (seeded change C19-r7m1 normalised the weights in the caller's list)
		{
			bool same = dp.size() == d.size();
			for(size_t i = 0; same && i < d.size(); i++)
				same = same_bits(dp[i].value, d[i]) && same_bits(dp[i].weight, w);
			require("weighted-average-leaves-the-list-as-it-was", same, [&] { return J().d("weight_given", w).d("first_weight_after", dp.empty() ? 0.0 : dp[0].weight).d("first_value_after", dp.empty() ? 0.0 : dp[0].value); });
			std::vector<double> again = Weighted_Average(dp);
			require("weighted-average-leaves-the-list-as-it-was", again.size() == 2 && wa.size() == 2 && same_bits(again[0], wa[0]) && same_bits(again[1], wa[1]), [&] { return J().d("first_call", wa.empty() ? 0.0 : wa[0]).d("second_call", again.empty() ? 0.0 : again[0]); });
		}
		if(wa.size() == 2 && wa2.size() == 2)
		{
			judge("equal-weights-give-the-plain-mean", std::fabs(wa[0] - mean), 4 * tol_m, [&] { return J().d("weighted", wa[0]).d("mean", mean); });
			double se = sd / std::sqrt((double) n);
			// Cochran's formula as written forms w x - A wbar term by term: each deviation carries a rounding error of (n+2) eps w amax (the n from wbar = wsum/N),
			// i.e. a relative error (n+2) eps amax/spread of the deviations and of the standard error - linear in amax/spread.  (A formula that expands the
			// squares instead loses eps (amax/spread)^2: seeded change C19-r2m1.)
			double tol_se = 8 * (n + 2) * EPS * (double) (amax / std::max(spread, (ld) 1e-300)) * se + 16 * EPS * se + 1e-300;
			if((double) spread > 1e-6 * (double) amax)
				judge("equal-weights-give-standard-error-s-over-sqrtN", std::fabs(wa[1] - se), tol_se, [&] { return J().d("weighted_error", wa[1]).d("s_over_sqrtN", se); });
			else
				count_outside("equal-weights-give-standard-error-s-over-sqrtN");
			judge("weighted-average-invariant-under-weight-scaling", std::fabs(wa2[0] - wa[0]), 4 * tol_m, [&] { return J().d("w", wa[0]).d("7w", wa2[0]); });
			if((double) spread > 1e-6 * (double) amax)
				judge("weighted-error-invariant-under-weight-scaling", std::fabs(wa2[1] - wa[1]), 2 * tol_se, [&] { return J().d("w", wa[1]).d("7w", wa2[1]); });
		}
	}
	if(index % 1999 == 0)
		sample(J().d("mean", mean).d("median", med));
}

static void setup()
{
	add_generator("workload_distribution_exhaustive", 128, case_workload);
	add_generator("range_exhaustive", 81, case_range);
	add_generator("closest_location_exhaustive", 8, case_closest_exhaustive);
	add_generator("closest_location_random", ctx().count(24000, 3000000), case_closest_random);
	add_generator("linear_log_space", ctx().count(64000, 8000000), case_spaces);
	add_generator("list_templates", ctx().count(24000, 3000000), case_lists);
	add_generator("summary_statistics", ctx().count(48000, 6000000), case_statistics);
}
VERIF_MAIN("C19", setup)
