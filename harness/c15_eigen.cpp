// C15 - QR factors and eigenpairs satisfy their defining equations (DESIGN.md section 4, C15).
// Oracles: defining equations evaluated in long double (QR = M, Q Q^T = I, R upper triangular; M v = lambda v, |v| = 1), a cyclic
// Jacobi reference spectrum, trace and determinant identities.  Every call runs inside the forked worker with a tick-hook step budget,
// so "terminates and returns" is an observed outcome: a std::exit or an exhausted budget is a violation of that case.
#include "linalg_common.hpp"

using namespace libphysica;
using namespace vf;
using namespace la;

static J mat_json(const RM& A, const char* kind)
{
	return J().str("kind", kind).i("n", A.r).vec("entries_row_major", A.a);
}

// ------------------------------------------------------------------------------------------------------------------
// QR
static void case_qr(Rng& rng, uint64_t index)
{
	unsigned n = 1 + (unsigned) (index % 7);
	int kind   = (int) ((index / 7) % 6);
	RM A(n, n);
	const char* kname;
	double scale = rng.coin(0.3) ? rng.loguni(1e-6, 1e6) : 1.0;
	if(kind == 0)
	{
		kname = "dense-gaussian";
		for(auto& x : A.a)
			x = rng.normal();
	}
	else if(kind == 1 || kind == 2)
	{
		kname	   = "graded(kappa<=1e6)";
		LM U = haar(rng, n), V = haar(rng, n);
		double kap = rng.loguni(1.0, 1e6);
		for(unsigned i = 0; i < n; i++)
			for(unsigned j = 0; j < n; j++)
			{
				ld s = 0;
				for(unsigned k = 0; k < n; k++)
					s += U(i, k) * (n == 1 ? 1.0L : powl((ld) kap, -(ld) k / (n - 1))) * V(j, k);
				A(i, j) = (double) s;
			}
	}
	else if(kind == 4)
	{
		// exact zeros at the head of columns: a diagonally dominant sparse matrix with its rows cyclically shifted, and M[0][0] = 0
		kname = "row-shifted-sparse-with-zero-leading-entry";
		RM B(n, n);
		for(auto& x : B.a)
			x = rng.coin(0.4) ? 0.0 : rng.normal();
		for(unsigned i = 0; i < n; i++)
			B(i, i) += (B(i, i) >= 0 ? 1.0 : -1.0) * n;
		unsigned sh = n > 1 ? 1 + (unsigned) rng.below(n - 1) : 0;
		for(unsigned i = 0; i < n; i++)
			for(unsigned j = 0; j < n; j++)
				A((i + sh) % n, j) = B(i, j);
		if(n > 1)
			A(0, 0) = 0.0;
	}
	else if(kind == 5)
	{
		// block diagonal with 2x2 blocks [[0,a],[b,c]]: the zero sits at the head of a trailing block when the reduction reaches it
		kname = "block-diagonal-with-zero-block-heads";
		for(unsigned i = 0; i + 1 < n; i += 2)
		{
			A(i, i) = 0.0, A(i, i + 1) = rng.mag(0.3, 3), A(i + 1, i) = rng.mag(0.3, 3), A(i + 1, i + 1) = rng.coin() ? 0.0 : rng.normal();
		}
		if(n % 2)
			A(n - 1, n - 1) = rng.mag(0.3, 3);
	}
	else
	{
		kname = "sparse-with-zero-first-column-entries";
		for(auto& x : A.a)
			x = rng.coin(0.35) ? 0.0 : rng.normal();
		for(unsigned i = 0; i < n; i++)
			A(i, i) += (A(i, i) >= 0 ? 1.0 : -1.0) * n;	  // diagonally dominant: non-singular
		if(n > 1)
			A(0, 0) = rng.coin() ? A(0, 0) : -A(0, 0);
	}
	for(auto& x : A.a)
		x *= scale;
	set_params(mat_json(A, kname));
	hash_matrix(A);
	LM W = widen(A), X;
	ld det;
	int ex;
	if(!gj_inverse(W, X, det, ex) || fro(W) * fro(X) > 1e8L)
	{
		count_outside("qr-product-is-the-matrix");	 // singular or worse conditioned than the quantifier (kappa <= 1e6)
		return;
	}
	if(n >= 3)
		mark_nontrivial();
	Matrix M = to_lib(A);
	std::pair<Matrix, Matrix> qr;
	{
		BudgetGuard g(1000);
		qr = QR_Decomposition(M);
	}
	bool shape = qr.first.Rows() == n && qr.first.Columns() == n && qr.second.Rows() == n && qr.second.Columns() == n;
	require("qr-factors-have-the-shape-of-the-matrix", shape, [&] { return mat_json(A, kname); });
	if(!shape)
		return;
	LM Q = widen(from_lib(qr.first)), R = widen(from_lib(qr.second));
	ld nM = fro(W);
	judge("qr-product-is-the-matrix", (double) (fro_diff(mul(Q, R), W) / nM), 64 * n * EPS, [&] { return mat_json(A, kname).vec("Q", from_lib(qr.first).a).vec("R", from_lib(qr.second).a); });
	judge("q-is-orthogonal", (double) fro_diff(mul(Q, transpose(Q)), identity(n)), 64 * n * EPS, [&] { return mat_json(A, kname).vec("Q", from_lib(qr.first).a); });
	judge("q-is-orthogonal", (double) fro_diff(mul(transpose(Q), Q), identity(n)), 64 * n * EPS, [&] { return mat_json(A, kname).vec("Q", from_lib(qr.first).a); });
	bool lower_zero = true;
	for(unsigned i = 1; i < n; i++)
		for(unsigned j = 0; j < i; j++)
			if(qr.second[i][j] != 0.0)
				lower_zero = false;
	require("r-is-upper-triangular", lower_zero, [&] { return mat_json(A, kname).vec("R", from_lib(qr.second).a); });
	// |det R| = |det M| (product of the diagonal), a cheap independent consequence
	ld pr = 1;
	for(unsigned i = 0; i < n; i++)
		pr *= R(i, i);
	judge("abs-det-r-equals-abs-det-m", (double) (fabsl(fabsl(pr) - fabsl(det)) / fabsl(det)), 256 * n * EPS * (double) (fro(W) * fro(X)), [&] { return mat_json(A, kname).d("prod_diag_R", (double) pr).d("det_M", (double) det); });
	if(index % 1999 == 0)
		sample();
}

// ------------------------------------------------------------------------------------------------------------------
// symmetric matrices with a spectrum separated in magnitude
struct SymCase
{
	RM S;
	std::vector<ld> lam;   // intended eigenvalues
	const char* kind = "";
	bool structured	 = false;
};
static std::vector<ld> gen_spectrum(Rng& rng, unsigned n)
{
	std::vector<ld> lam(n);
	// traceless spectra, separated in magnitude, that cancel exactly in binary: (1, -1/2, ..., -2^-(n-3), -r q, -r (1-q)) with r the remainder
	// (seeded change C15-r6m2 normalised the convergence test by |trace|)
	if(n >= 3 && rng.coin(0.12))
	{
		ld sg = rng.coin() ? 1 : -1, r = 1;
		lam[0] = sg;
		for(unsigned i = 1; i + 2 < n; i++)
			lam[i] = -sg * (r = ldexpl(1.0L, -(int) i));
		ld q	   = (ld) rng.irange(36, 51) / 64;
		lam[n - 2] = -sg * r * q;
		lam[n - 1] = -sg * r * (1 - q);
		return lam;
	}
	ld mag = rng.coin(0.3) ? (ld) rng.loguni(1e-3, 1e3) : 1.0L;
	for(unsigned i = 0; i < n; i++)
	{
		lam[i] = mag * (rng.coin(0.4) ? -1 : 1);
		mag *= rng.uni(0.1, 0.8);
	}
	return lam;
}
static SymCase gen_sym(Rng& rng, unsigned n, int kind)
{
	SymCase C;
	C.lam = gen_spectrum(rng, n);
	// random assignment of the eigenvalues to positions
	std::vector<ld> lam = C.lam;
	for(unsigned i = n - 1; i > 0; i--)
		std::swap(lam[i], lam[rng.below(i + 1)]);
	switch(kind % 6)
	{
		case 0: {
			C.kind = "haar-rotated";
			C.S	   = sym_from_spectrum(haar(rng, n), lam);
			break;
		}
		case 1: {
			C.kind		 = "diagonal";
			C.structured = true;
			C.S			 = RM(n, n);
			for(unsigned i = 0; i < n; i++)
				C.S(i, i) = (double) lam[i];
			break;
		}
		case 2: {
			// 2x2 blocks [[a,b],[b,a]]: eigenvectors (1,1)/sqrt2 and (1,-1)/sqrt2, the latter orthogonal to the all-ones start vector
			C.kind		 = "block-diagonal-2x2";
			C.structured = true;
			C.S			 = RM(n, n);
			unsigned i	 = 0;
			for(; i + 1 < n; i += 2)
			{
				ld a = (lam[i] + lam[i + 1]) / 2, b = (lam[i] - lam[i + 1]) / 2;
				C.S(i, i) = C.S(i + 1, i + 1) = (double) a;
				C.S(i, i + 1) = C.S(i + 1, i) = (double) b;
			}
			if(i < n)
				C.S(i, i) = (double) lam[i];
			break;
		}
		case 3: {
			// direct sum of two Haar-rotated blocks: every eigenvector has exact zero components
			C.kind		 = "direct-sum-of-rotated-blocks";
			C.structured = true;
			C.S			 = RM(n, n);
			unsigned k	 = n >= 2 ? 1 + (unsigned) rng.below(n - 1) : 1;
			std::vector<ld> l1(lam.begin(), lam.begin() + k), l2(lam.begin() + k, lam.end());
			RM B1 = sym_from_spectrum(haar(rng, k), l1);
			for(unsigned i = 0; i < k; i++)
				for(unsigned j = 0; j < k; j++)
					C.S(i, j) = B1(i, j);
			if(n > k)
			{
				RM B2 = sym_from_spectrum(haar(rng, n - k), l2);
				for(unsigned i = 0; i < n - k; i++)
					for(unsigned j = 0; j < n - k; j++)
						C.S(k + i, k + j) = B2(i, j);
			}
			break;
		}
		case 5: {
			// see-saw blocks [[0,m],[m,M]] (exact zero on the diagonal, at the head of the matrix and of trailing blocks):
			// eigenvalues l1 = s, l2 = -r s  <=>  M = l1 + l2, m = sqrt(-l1 l2); the chain of magnitudes keeps the spectrum separated
			C.kind		 = "block-diagonal-seesaw-with-zero-diagonal-entries";
			C.structured = true;
			C.S			 = RM(n, n);
			C.lam.clear();
			ld mag = rng.coin(0.3) ? (ld) rng.loguni(1e-3, 1e3) : 1.0L;
			unsigned i = 0;
			for(; i + 1 < n; i += 2)
			{
				ld l1 = mag * (rng.coin() ? 1 : -1);
				mag *= rng.uni(0.15, 0.75);
				ld l2 = -l1 / fabsl(l1) * mag;
				mag *= rng.uni(0.15, 0.75);
				C.S(i, i)	  = 0.0;
				C.S(i + 1, i + 1) = (double) (l1 + l2);
				C.S(i, i + 1) = C.S(i + 1, i) = (double) sqrtl(-l1 * l2);
				C.lam.push_back(l1), C.lam.push_back(l2);
			}
			if(i < n)
			{
				C.S(i, i) = (double) mag;
				C.lam.push_back(mag);
			}
			break;
		}
		default: {
			// first eigenvector exactly orthogonal to the all-ones vector is impossible to keep after rounding; instead: first column of Q parallel to (1,...,1)
			C.kind = "haar-rotated-with-all-ones-eigenvector";
			std::vector<ld> ones(n, 1.0L);
			C.S = sym_from_spectrum(haar(rng, n, &ones), lam);
			break;
		}
	}
	// rows and columns of the structured matrices permuted together: the blocks interleave, e.g. index sets {0,2},{1}, and entries next to the
	// diagonal can all vanish although the matrix is not diagonal (seeded change C15-r6m3 looked at the sub-diagonal only)
	if(C.structured && n >= 3 && rng.coin(0.4))
	{
		std::vector<unsigned> perm(n);
		for(unsigned i = 0; i < n; i++)
			perm[i] = i;
		if(rng.coin(0.5))
		{
			// even positions first: pairs (0,1),(2,3) become (0,k),(1,k+1)
			std::vector<unsigned> q;
			for(unsigned i = 0; i < n; i += 2)
				q.push_back(i);
			for(unsigned i = 1; i < n; i += 2)
				q.push_back(i);
			perm = q;
		}
		else
			for(unsigned i = n - 1; i > 0; i--)
				std::swap(perm[i], perm[rng.below(i + 1)]);
		RM P(n, n);
		for(unsigned i = 0; i < n; i++)
			for(unsigned j = 0; j < n; j++)
				P(i, j) = C.S(perm[i], perm[j]);
		C.S	   = P;
		C.kind = C.kind == std::string("diagonal") ? "diagonal" : C.kind == std::string("block-diagonal-2x2") ? "block-diagonal-2x2-permuted" : C.kind == std::string("direct-sum-of-rotated-blocks") ? "direct-sum-of-rotated-blocks-permuted" : "block-diagonal-seesaw-permuted";
	}
	// the whole matrix rescaled by an exact power of two (1e-12 .. 1e12): spectrum, residuals and convergence tests are all relative to ||M||, so the same
	// decisions must be taken at every scale (seeded change C15-r3m3 made the convergence test of the QR iteration absolute)
	if(rng.coin(0.35))
	{
		double sc = std::ldexp(1.0, rng.irange(-40, 40));
		for(auto& x : C.S.a)
			x *= sc;
		for(auto& l : C.lam)
			l *= sc;
	}
	return C;
}

static void check_eigen(SymCase& C, unsigned n, uint64_t index);
static void case_eigen(Rng& rng, uint64_t index)
{
	unsigned n = 1 + (unsigned) (index % 7);
	int kind   = (int) ((index / 7) % 6);
	SymCase C  = gen_sym(rng, n, kind);
	check_eigen(C, n, index);
}
// witnesses of repaired defects.  D35: spectrum {1,-1/2,-51/128,-13/128}, (1,1,1,1) the eigenvector of -1/2 and row sums that are exact in
// binary: inverse iteration from (1,...,1) reproduced that vector for the shift 1 and Eigensystem returned the pair of -1/2 twice
static void case_eigen_witness(Rng&, uint64_t index)
{
	static const double D35[16] = {0x1.0d73ba91e5ec8p-3, -0x1.372a7de6d90f4p-1, -0x1.8be11f0896c43p-3, 0x1.5b175c1215149p-3, -0x1.372a7de6d90f4p-1, 0x1.befc812aed008p-2, -0x1.4e97a6022c55ep-5, -0x1.26d4909cf5575p-2,
								   -0x1.8be11f0896c43p-3, -0x1.4e97a6022c55ep-5, -0x1.cf3bbcc339d7p-3, -0x1.44f4eace913d8p-5, 0x1.5b175c1215149p-3, -0x1.26d4909cf5575p-2, -0x1.44f4eace913d8p-5, -0x1.5e188012430b4p-2};
	SymCase C;
	C.kind = "witness-D35-all-ones-eigenvector-of-another-eigenvalue";
	C.S	   = RM(4, 4);
	// index 1, 2: the same matrix at another binary scale
	double sc = index == 0 ? 1.0 : index == 1 ? 0x1p-30 : 0x1p+17;
	for(unsigned i = 0; i < 16; i++)
		C.S.a[i] = D35[i] * sc;
	C.lam		 = {1.0L * sc, -0.5L * sc, -0.3984375L * sc, -0.1015625L * sc};
	C.structured = true;
	check_eigen(C, 4, 1);
}
static void check_eigen(SymCase& C, unsigned n, uint64_t index)
{
	set_params(mat_json(C.S, C.kind));
	hash_matrix(C.S);
	bool negative = false;
	for(ld l : C.lam)
		negative |= (l < 0);
	if(n >= 3 && (negative || C.structured))
		mark_nontrivial();
	LM W = widen(C.S);
	ld nM = fro(W);
	// reference spectrum of the matrix actually handed over (rounded entries)
	std::vector<ld> ref;
	LM V;
	jacobi(W, ref, V);
	std::sort(ref.begin(), ref.end());
	// outside the quantifier if rounding destroyed the separation in magnitude (cannot happen for ratios <= 0.8, checked anyway)
	{
		std::vector<ld> mags;
		for(ld l : ref)
			mags.push_back(fabsl(l));
		std::sort(mags.begin(), mags.end());
		for(size_t i = 0; i + 1 < mags.size(); i++)
			if(!(mags[i] <= 0.85L * mags[i + 1]) || mags[i] == 0)
			{
				count_outside("eigenvalues-match-jacobi-reference");
				return;
			}
	}
	Matrix M = to_lib(C.S);
	std::vector<double> ev;
	{
		BudgetGuard g(400);	  // the QR iteration is capped at 200 sweeps by the library; the budget turns a missing cap into a verdict
		ev = Eigenvalues(M);
	}
	require("eigenvalues-returns-n-values", ev.size() == n, [&] { return mat_json(C.S, C.kind).i("returned", (long long) ev.size()); });
	if(ev.size() != n)
		return;
	std::vector<double> evs = ev;
	std::sort(evs.begin(), evs.end());
	double worst = 0;
	for(unsigned i = 0; i < n; i++)
		worst = std::max(worst, (double) fabsl((ld) evs[i] - ref[i]));
	judge("eigenvalues-match-jacobi-reference", worst / (double) nM, 1e-11, [&] { return mat_json(C.S, C.kind).vec("Eigenvalues", ev); });
	ld tr = 0, sum = 0, prod = 1, prodref = 1, relprop = 0;
	for(unsigned i = 0; i < n; i++)
	{
		tr += W(i, i);
		sum += ev[i];
		prod *= ev[i];
		prodref *= ref[i];
		relprop += 1e-11L * nM / fabsl(ref[i]);
	}
	judge("eigenvalues-sum-to-the-trace", (double) (fabsl(sum - tr) / nM), 1e-11, [&] { return mat_json(C.S, C.kind).d("sum", (double) sum).d("trace", (double) tr); });
	ld det = det_expand(W);
	judge("eigenvalues-multiply-to-the-determinant", (double) (fabsl(prod - det) / fabsl(prodref)), (double) relprop + 64 * n * EPS * (double) (perm_abs(W) / fabsl(prodref)), [&] { return mat_json(C.S, C.kind).d("product", (double) prod).d("determinant", (double) det); });

	// Eigensystem: terminates (budget), unit vectors, defining equation
	std::pair<std::vector<double>, std::vector<Vector>> es;
	{
		BudgetGuard g(400 + 10000 * (int64_t) n);
		es = Eigensystem(M);
	}
	require("eigensystem-returns-n-pairs", es.first.size() == n && es.second.size() == n, [&] { return mat_json(C.S, C.kind); });
	if(es.first.size() != n || es.second.size() != n)
		return;
	require("eigensystem-leaves-the-matrix-unchanged", from_lib(M).a == C.S.a, [&] { return mat_json(C.S, C.kind); });
	for(unsigned k = 0; k < n; k++)
	{
		std::vector<double> v = from_lib(es.second[k]);
		double lam			  = es.first[k];
		if(v.size() != n)
		{
			require("eigenvector-has-dimension-n", false, [&] { return mat_json(C.S, C.kind).i("size", (long long) v.size()); });
			continue;
		}
		ld nv = 0;
		for(double x : v)
			nv += (ld) x * x;
		nv = sqrtl(nv);
		judge("eigenvector-has-unit-norm", (double) fabsl(nv - 1), 8 * EPS, [&] { return mat_json(C.S, C.kind).vec("v", v).d("lambda", lam); });
		ld res = 0;
		for(unsigned i = 0; i < n; i++)
		{
			ld s = 0;
			for(unsigned j = 0; j < n; j++)
				s += W(i, j) * v[j];
			s -= (ld) lam * v[i];
			res += s * s;
		}
		res = sqrtl(res);
		judge("eigenpair-satisfies-Mv=lambda-v", (double) (res / nM), 1e-12, [&] { return mat_json(C.S, C.kind).vec("v", v).d("lambda", lam).d("residual", (double) res); });
		// the returned value belongs to the spectrum
		double dmin = INFINITY;
		for(ld r : ref)
			dmin = std::min(dmin, (double) fabsl((ld) lam - r));
		judge("eigensystem-values-belong-to-the-spectrum", dmin / (double) nM, 1e-11, [&] { return mat_json(C.S, C.kind).d("lambda", lam); });
	}
	// all n eigenvalues are represented (no eigenpair returned twice)
	{
		std::vector<double> got = es.first;
		std::sort(got.begin(), got.end());
		double w2 = 0;
		for(unsigned i = 0; i < n; i++)
			w2 = std::max(w2, (double) fabsl((ld) got[i] - ref[i]));
		judge("eigensystem-covers-the-whole-spectrum", w2 / (double) nM, 1e-11, [&] { return mat_json(C.S, C.kind).vec("values", es.first); });
	}
	// Eigenvectors(M) is Eigensystem(M).second
	std::vector<Vector> evec;
	{
		BudgetGuard g(400 + 10000 * (int64_t) n);
		evec = Eigenvectors(M);
	}
	bool same = evec.size() == es.second.size();
	for(unsigned k = 0; same && k < n; k++)
	{
		std::vector<double> a = from_lib(evec[k]), b = from_lib(es.second[k]);
		same = a.size() == b.size();
		// the same direction: the overall sign of an eigenvector is arbitrary, and two valid unit eigenvectors of a simple eigenvalue differ by
		// rounding errors divided by the relative gap of the spectrum
		double dm = 0, dp = 0;
		for(unsigned i = 0; same && i < a.size(); i++)
			dm = std::max(dm, std::fabs(a[i] - b[i])), dp = std::max(dp, std::fabs(a[i] + b[i]));
		same = same && std::min(dm, dp) <= 1e-9;
	}
	require("eigenvectors-equals-eigensystem-second", same, [&] { return mat_json(C.S, C.kind); });
	if(index % 1999 == 0)
		sample(J().vec("Eigenvalues", ev).i("sweeps_so_far", (long long) ticks("Eigenvalues.sweep")).i("inverse_iterations_so_far", (long long) ticks("Eigenvector.iteration")));
}

static void setup()
{
	add_generator("qr", ctx().count(8400, 840000), case_qr);
	add_generator("witness_matrices", 3, case_eigen_witness);
	add_generator("symmetric_eigen", ctx().count(7000, 700000), case_eigen);
}
VERIF_MAIN("C15", setup)
