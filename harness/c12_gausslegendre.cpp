// C12 - Gauss-Legendre rules are valid quadrature rules of every order on every interval (DESIGN.md section 4, C12).
// Oracles are the axioms of the rule (ordering, containment, symmetry, sign and sum of the weights), exactness on the Legendre basis
// and on monomials of the mapped variable up to degree 2n-1, an independent long double Newton reference for n <= 64, bit-identity of
// the three Integrate_Gauss_Legendre overloads, rejection of mismatched lengths, and a step budget on the library's Newton loop.
#include "integ_common.hpp"
#include "special_common.hpp"

#include "libphysica/Integration.hpp"

using namespace libphysica;
using namespace vf;
using namespace ig;

// "to rounding" for sums over the rule: the routine iterates Newton until |dz| <= 1e-14 and evaluates the weight with the derivative taken at the previous
// iterate (the textbook algorithm), so sums of weights are accurate to ~100 eps |b-a| for every n up to 4000 (measured); K_SUM has 4x headroom over that.
static const double K_SUM = 512;
static double maxabs2(double a, double b) { return std::max(std::fabs(a), std::fabs(b)); }

static void gen_interval(Rng& rng, int kind, double& a, double& b)
{
	switch(kind % 6)
	{
		case 0: a = -1, b = 1; break;
		case 1:
			a = 0, b = rng.loguni(1e-3, 1e3);
			// intervals of tiny absolute width at (or next to) the origin: perfectly resolvable, just small (seeded change C12-r7m2 returned 0 for widths
			// below machine epsilon, taken as an absolute number)
			if(rng.coin(0.25))
			{
				b = rng.loguni(1e-300, 1e-12);
				if(rng.coin(0.4))
					a = b, b = a * rng.uni(1.5, 4.0);
			}
			break;
		case 2: a = rng.uni(-10, 10), b = a + rng.loguni(1e-3, 1e2); break;
		case 3: {	// far from the origin, narrow
			a = rng.sign() * rng.loguni(1.0, 1e3);
			b = a + rng.loguni(1e-3, 1.0);
			if(rng.coin(0.3))
			{
				// very far and very narrow: width 1e-12..1e-10 of |a| (still thousands of doubles wide): no relative "are the limits equal?" test may fire
				a = rng.sign() * rng.loguni(1e6, 1e12);
				b = a + std::fabs(a) * rng.loguni(1e-12, 1e-10);
			}
			break;
		}
		case 4: a = -rng.loguni(1e-3, 1e3), b = rng.loguni(1e-3, 1e3); break;
		default: a = rng.mag(1e-6, 1e6), b = a + std::fabs(a) * rng.loguni(1e-6, 10) + rng.loguni(1e-9, 1); break;
	}
}

// An n-point rule has nodes as close as 1.2 (b-a)/n^2 to each other and to the limits: on an interval that is too narrow for its position they cannot
// be distinct doubles strictly inside it.  Such requests are outside the property ("strictly increasing, strictly inside"): widen until the closest
// nodes are 64 ulps apart.
static void make_resolvable(unsigned n, double a, double& b)
{
	double need = 64 * ulp(std::max(std::fabs(a), std::fabs(b))) * (double) n * (double) n / 1.2;
	if(b - a < need)
		b = a + need;
}

static void check_rule(Rng& rng, unsigned n, double a, double b, bool reversed)
{
	double lo = a, hi = b;	 // a<b always; the library is called with (b,a) when reversed
	std::vector<std::vector<double>> rw;
	{
		BudgetGuard g(100 * (int64_t) ((n + 1) / 2) + 10);	 // bounded progress of the Newton loop: at most 100 steps per root
		rw = reversed ? Compute_Gauss_Legendre_Roots_and_Weights(n, b, a) : Compute_Gauss_Legendre_Roots_and_Weights(n, a, b);
	}
	// a rule kept by reference (ordinary C++ for a returned temporary) is still that rule after another one has been computed (seeded change C12-r7m1
	// returned a reference to one buffer shared by all calls)
	if(n <= 64)
	{
		BudgetGuard g(400 * (int64_t) (n + 2) + 40);
		const std::vector<std::vector<double>>& held = reversed ? Compute_Gauss_Legendre_Roots_and_Weights(n, b, a) : Compute_Gauss_Legendre_Roots_and_Weights(n, a, b);
		const std::vector<std::vector<double>>& other = Compute_Gauss_Legendre_Roots_and_Weights(n + 1, reversed ? a : b, reversed ? b : a);
		(void) other;
		require("a-rule-held-by-reference-is-not-changed-by-later-calls", held == rw, [&] { return J().i("n", n).d("a", a).d("b", b).i("rows_now", (long long) held.size()); });
	}
	auto pj = [&] { return J().i("n", n).d("a", a).d("b", b).i("reversed", reversed); };
	bool shape = rw.size() == n;
	for(auto& r : rw)
		shape = shape && r.size() == 2;
	require("rule-has-n-nodes-and-weights", shape, [&] { return pj().i("size", (long long) rw.size()); });
	if(!shape)
		return;
	const double L = hi - lo, mid2 = lo + hi, U = ulp(maxabs2(lo, hi));
	const double sgn = reversed ? -1.0 : 1.0;
	// ordering, containment, sign
	bool ordered = true, inside = true, signs = true;
	for(unsigned i = 0; i < n; i++)
	{
		double x = rw[i][0], w = rw[i][1];
		if(!(x > lo && x < hi))
			inside = false;
		if(!(sgn * w > 0))
			signs = false;
		if(i > 0 && !(sgn * (rw[i][0] - rw[i - 1][0]) > 0))
			ordered = false;
	}
	require(reversed ? "reversed-nodes-strictly-decreasing" : "nodes-strictly-increasing", ordered, pj);
	require("nodes-strictly-inside-interval", inside, pj);
	require(reversed ? "reversed-weights-all-negative" : "weights-positive", signs, pj);
	// symmetry
	double sym_x = 0, sym_w = 0;
	for(unsigned i = 0; i < n; i++)
	{
		sym_x = std::max(sym_x, std::fabs((rw[i][0] - lo) - (hi - rw[n - 1 - i][0])));
		sym_w = std::max(sym_w, std::fabs(rw[i][1] - rw[n - 1 - i][1]) / std::fabs(rw[i][1]));
	}
	(void) mid2;
	judge("nodes-symmetric-about-midpoint", sym_x, 8 * U, [&] { return pj().d("max_asymmetry", sym_x); });
	judge("weights-symmetric", sym_w, 8 * EPS, [&] { return pj().d("max_relative_asymmetry", sym_w); });
	// sum of weights
	ld sw = 0;
	for(unsigned i = 0; i < n; i++)
		sw += rw[i][1];
	judge("weights-sum-to-interval-length", (double) fabsl(sw - sgn * ((ld) hi - (ld) lo)), K_SUM * EPS * L + 2 * U, [&] { return pj().d("sum", (double) sw); });
	// exactness in the mapped variable t = (x-mid)/hw
	std::vector<ld> t(n), w(n);
	ld mid = ((ld) lo + (ld) hi) / 2, hw = ((ld) hi - (ld) lo) / 2;
	for(unsigned i = 0; i < n; i++)
	{
		t[i] = ((ld) rw[i][0] - mid) / hw;
		w[i] = sgn * (ld) rw[i][1];
	}
	int kmax = (int) std::min<unsigned>(2 * n - 1, 60);
	std::vector<ld> S(kmax + 1, 0.0L);
	for(unsigned i = 0; i < n; i++)
	{
		ld p0 = 1, p1 = t[i];
		S[0] += w[i];
		if(kmax >= 1)
			S[1] += w[i] * p1;
		for(int k = 2; k <= kmax; k++)
		{
			ld p2 = ((2 * k - 1) * t[i] * p1 - (k - 1) * p0) / k;
			p0	  = p1;
			p1	  = p2;
			S[k] += w[i] * p2;
		}
	}
	for(int k = 1; k <= kmax; k++)
	{
		double tol = K_SUM * EPS * L + (double) k * (k + 1) * U;
		judge("exact-on-legendre-basis-up-to-degree-2n-1", (double) fabsl(S[k]), tol, [&] { return pj().i("degree", k).d("sum_w_P_k", (double) S[k]); });
	}
	int mmax = (int) std::min<unsigned>(2 * n - 1, 20);
	for(int k = 0; k <= mmax; k++)
	{
		ld s = 0;
		for(unsigned i = 0; i < n; i++)
			s += w[i] * powl(t[i], k);
		ld exact   = (k % 2 == 0) ? 2 * hw / (k + 1) : 0.0L;
		double tol = K_SUM * EPS * L + (double) k * (k + 1) * U;
		judge("exact-on-monomials-up-to-degree-2n-1", (double) fabsl(s - exact), tol, [&] { return pj().i("degree", k).d("sum_w_t^k", (double) s).d("exact", (double) exact); });
	}
	// the rule of order n is NOT exact at degree 2n (sanity of the exactness oracle: it can tell n from n+1 points)
	if(n <= 8)
	{
		ld s = 0;
		for(unsigned i = 0; i < n; i++)
			s += w[i] * powl(t[i], 2 * (int) n);
		ld exact = 2 * hw / (2 * n + 1);
		require("oracle-sanity-degree-2n-not-integrated-exactly", fabsl(s - exact) > 1e-9 * fabsl(exact), [&] { return pj().d("sum", (double) s).d("exact", (double) exact); });
	}
	// independent long double reference
	if(n <= 64)
	{
		const sp::GLRule& R = sp::gl_rule((int) n);
		double ex = 0, ewr = 0;
		for(unsigned i = 0; i < n; i++)
		{
			unsigned ri = reversed ? n - 1 - i : i;
			ld xr = mid + hw * R.x[ri], wr = hw * R.w[ri];
			ex	= std::max(ex, (double) fabsl((ld) rw[i][0] - xr));
			ewr = std::max(ewr, (double) (fabsl(w[i] - wr) / wr));
		}
		judge("nodes-vs-long-double-reference", ex, 4 * U + 8 * EPS * (double) hw, [&] { return pj().d("max_node_error", ex); });
		judge("weights-vs-long-double-reference", ewr, 2048 * EPS * std::max(1.0, n / 8.0), [&] { return pj().d("max_relative_weight_error", ewr); });
	}
	// the three overloads give the same value for the same rule
	{
		std::vector<double> c(std::min<unsigned>(2 * n, 12));
		for(auto& v : c)
			v = rng.uni(-1, 1);
		double m = (double) mid, h = (double) hw;
		std::function<double(double)> f = [&](double x) {
			double u = (x - m) / h, v = 0;
			for(int k = (int) c.size() - 1; k >= 0; k--)
				v = v * u + c[k];
			return v + std::sin(3 * u);
		};
		Trace tr;
		double a1 = reversed ? b : a, b1 = reversed ? a : b;
		// call history: the same order on an unrelated interval (far from the origin and narrow, or wide) right before the observed call
		if(rng.coin(0.5))
		{
			double fa = rng.coin() ? rng.sign() * rng.loguni(1e3, 1e9) : rng.uni(-5, 5), fw = rng.coin() ? rng.loguni(1e-3, 1.0) : rng.loguni(1.0, 1e3);
			// ... or a rule of a neighbouring order (seeded change C07-r6m2 kept the Legendre roots of the last rule and reused those of order
			// 2m-1 for order 2m), or the 200-point rule that GammaQ computes internally
			// (one to three rules in a row: a cache keyed too coarsely is only refilled by an order that it tells apart)
			for(int hcalls = 1 + (int) rng.below(3); hcalls > 0; hcalls--)
			{
				unsigned hn = n;
				switch(rng.below(6))
				{
					case 0: hn = n + 1; break;
					case 1: hn = n > 1 ? n - 1 : 2; break;
					case 2: hn = rng.coin() ? 200 : 199; break;
					case 3: hn = 30; break;
					case 4: hn = 1 + (unsigned) rng.below(2 * n + 2); break;
					default: break;
				}
				(void) Integrate_Gauss_Legendre([](double x) { return x; }, fa, fa + fw, hn);
			}
		}
		double v1 = Integrate_Gauss_Legendre(traced(f, &tr), a1, b1, n);
		{
			// informational: an n-point rule needs n evaluations inside the interval (the property states the value, not the evaluation count)
			ClauseStat& cs = clause("integrand-evaluated-only-at-the-n-nodes(informational)");
			cs.n++;
			if(tr.n == n && tr.inside(a, b))
				cs.nontrivial++;
		}
		double v2 = Integrate_Gauss_Legendre(f, rw);
		std::vector<double> fv(n);
		for(unsigned i = 0; i < n; i++)
			fv[i] = f(rw[i][0]);
		double v3 = Integrate_Gauss_Legendre(fv, rw);
		{
			// "the same value for the same rule": equal up to the order in which the n products are summed
			double S = 0;
			for(unsigned i = 0; i < n; i++)
				S += std::fabs(rw[i][1] * fv[i]);
			judge("three-overloads-agree", std::max(std::fabs(v1 - v2), std::fabs(v2 - v3)), 4 * n * EPS * S + 1e-300, [&] { return pj().d("(f,a,b,n)", v1).d("(f,rule)", v2).d("(values,rule)", v3); });
			// the same with an integrand that no other rule integrates to the same value (neither a polynomial nor odd about the midpoint): an overload that
			// silently uses another order or other nodes than the rule of order n differs at truncation level (seeded change C12-m4: order 1 replaced by 2)
			// ... and whose evaluation itself uses a Gauss-Legendre rule of ANOTHER order (nested quadratures are the library's own idiom in Integrate_2D):
			// the rule of the outer call must not be disturbed by it
			unsigned m_inner = (n % 7) + 2 == n ? n + 1 : (n % 7) + 2;
			std::function<double(double)> g = [&, m_inner](double x) {
				double inner = Integrate_Gauss_Legendre([](double t) { return 2.0 * t; }, 0.0, 1.0, m_inner);	 // = 1 to rounding
				return std::exp(0.7 * (x - m) / h) * inner + f(x);
			};
			double w1 = Integrate_Gauss_Legendre(g, a1, b1, n), w2 = Integrate_Gauss_Legendre(g, rw);
			std::vector<double> gv(n);
			double Sg = 0;
			for(unsigned i = 0; i < n; i++)
				gv[i] = g(rw[i][0]), Sg += std::fabs(rw[i][1] * gv[i]);
			double w3 = Integrate_Gauss_Legendre(gv, rw);
			judge("three-overloads-agree", std::max(std::fabs(w1 - w2), std::fabs(w2 - w3)), 4 * n * EPS * Sg + 1e-300, [&] { return pj().d("(g,a,b,n)", w1).d("(g,rule)", w2).d("(values,rule)", w3); });
		}
		// and the value is the exact integral of the polynomial part plus that of sin(3u) (odd: 0), when the degree fits
		if(c.size() <= 2 * n)
		{
			ld exact = 0, scale = 0;
			for(size_t k = 0; k < c.size(); k++)
			{
				if(k % 2 == 0)
					exact += 2 * (ld) c[k] / (k + 1);
				scale += std::fabs(c[k]) * (1 + (double) k * (k + 1) * U / (K_SUM * EPS * L));
			}
			exact *= hw * sgn;
			// sin(3u) is odd about the midpoint: a symmetric rule integrates it to 0 up to the node asymmetry (<= 8 ulp, slope 3)
				judge("integrate-overloads-exact-on-polynomials", (double) fabsl((ld) v1 - exact), K_SUM * EPS * L * (double) (scale + 2) + 64 * U, [&] { return pj().d("got", v1).d("exact", (double) exact); });
		}
	}
}

static void case_order(Rng& rng, uint64_t index, unsigned n)
{
	double a, b;
	int kind = (int) (index % 6);
	gen_interval(rng, kind, a, b);
	make_resolvable(n, a, b);
	bool reversed = (index / 6) % 3 == 2;
	set_params(J().i("n", n).d("a", a).d("b", b).i("reversed", reversed));
	hash_param_u(n), hash_param(a), hash_param(b), hash_param_u(reversed);
	if((n & 1) || n >= 100 || !(a == -1 && b == 1))
		mark_nontrivial();
	check_rule(rng, n, a, b, reversed);
	if(index % 211 == 0)
		sample(J().i("newton_ticks_so_far", (long long) ticks("GaussLegendre.newton")));
}

static void case_small_orders(Rng& rng, uint64_t index)
{
	// every order 1..NSMALL crossed with 6 interval kinds and both orientations (cyclically over the index)
	unsigned nsmall = ctx().thorough ? 512 : 64;
	unsigned n		= 1 + (unsigned) (index % nsmall);
	case_order(rng, index / nsmall, n);
}
static void case_random_orders(Rng& rng, uint64_t index)
{
	unsigned n = (unsigned) rng.irange(65, 512);
	case_order(rng, index, n);
}
static void case_large_orders(Rng& rng, uint64_t index)
{
	unsigned n = (index % 3 == 0) ? (unsigned) rng.irange(513, 4000) : (unsigned) rng.irange(513, 1500);
	if(index == 0)
		n = 4000;
	if(index == 1)
		n = 2001;
	if(ctx().is_asan() && n > 1500)
		n = 1001;
	case_order(rng, index, n);
}

static void case_mismatch(Rng& rng, uint64_t index)
{
	unsigned n = (unsigned) rng.irange(1, 40);
	int delta  = (index % 2) ? 1 : -1;
	if(n == 1 && delta < 0)
		delta = 1;
	if(index % 5 == 4)
		delta = -(int) n;	// no values at all for a rule of order n
	set_params(J().i("n", n).i("values", (long long) n + delta));
	hash_param_u(n), hash_param_u((uint64_t) (delta + 5));
	mark_nontrivial();
	Outcome o = run_isolated([&](const std::function<void(const std::string&)>& send) {
		auto rw = Compute_Gauss_Legendre_Roots_and_Weights(n, -1.0, 2.0);
		std::vector<double> fv(n + delta, 1.0);
		double v = Integrate_Gauss_Legendre(fv, rw);
		send(hexf(v));
	});
	if(o.kind == WATCHDOG)
	{
		inconclusive("watchdog on a rejected request");
		return;
	}
	expect_reject("mismatched-lengths-terminate-with-diagnostic", o);
}

static void setup()
{
	unsigned nsmall = ctx().thorough ? 512 : 64;
	add_generator("all_small_orders", (uint64_t) nsmall * ctx().count(18, 288), case_small_orders);
	add_generator("random_orders_65_512", ctx().count(384, 16000), case_random_orders);
	add_generator("large_orders_up_to_4000", ctx().count(16, 480), case_large_orders, 600.0);
	add_generator("mismatched_lengths", ctx().count(200, 3200), case_mismatch);
}
VERIF_MAIN("C12", setup)
