// C18 - samplers are reproducible from the generator state and draw from the stated law (DESIGN.md section 4, C18).
// Monitors: (1) log comparison - every sampler is run twice from equal generator states (and in random interleavings with other samplers on one
// generator); outputs and end states (std::mt19937 operator==) must be identical, and the generator must have been advanced (a sampler that draws from a
// private copy or from another entropy source breaks one of the two); (2) counts and containment - exact number of Metropolis samples for every
// (sample, thinning, burn_in) on an exhaustive grid, all values inside the requested domain / support; (3) goodness of fit - Kolmogorov-Smirnov,
// chi-square with pooled tails and first-two-moment z-tests at significance <= 1e-9 on a PRNG stream fixed by VERIF_SEED.
#include "special_common.hpp"
#include "verif.hpp"

#include <random>

#include <boost/math/special_functions/gamma.hpp>

#include "libphysica/Statistics.hpp"

using namespace libphysica;
using namespace vf;
using namespace sp;

static const double KS_LIMIT = 3.3;	  // sqrt(N) D > 3.3 has probability 2 exp(-2*3.3^2) = 7e-10
static const double Z_LIMIT	 = 6.2;	  // two-sided normal tail 5.6e-10

// ------------------------------------------------------------------------------------------------------------------
// target laws for the generic samplers
struct Target1D
{
	std::string name;
	double lo, hi;	 // support (may be infinite)
	std::function<double(double)> pdf;	 // unnormalised is fine for rejection / Metropolis
	std::function<double(double)> cdf;	 // normalised
	double ymax;	 // max of pdf on [lo,hi]
};
static Target1D make_target(Rng& rng, int kind)
{
	Target1D T;
	switch(kind % 5)
	{
		case 0: {
			double L = rng.uni(0.5, 5), k = rng.uni(0.3, 3);
			T.name = "truncated exponential", T.lo = 0, T.hi = L, T.ymax = 1.0;
			T.pdf = [k](double x) { return std::exp(-k * x); };
			T.cdf = [k, L](double x) { return std::expm1(-k * x) / std::expm1(-k * L); };
			break;
		}
		case 1: {
			double a = rng.uni(0.5, 2), b = a + rng.uni(0.5, 4), p = rng.uni(-2.5, 2.5);
			if(std::fabs(p + 1) < 0.1)
				p = 0.5;
			T.name = "power law", T.lo = a, T.hi = b, T.ymax = std::max(std::pow(a, p), std::pow(b, p));
			T.pdf = [p](double x) { return std::pow(x, p); };
			T.cdf = [a, b, p](double x) { return (std::pow(x, p + 1) - std::pow(a, p + 1)) / (std::pow(b, p + 1) - std::pow(a, p + 1)); };
			break;
		}
		case 2: {
			T.name = "sin(x) on [0,pi]", T.lo = 0, T.hi = M_PI, T.ymax = 1.0;
			T.pdf = [](double x) { return std::sin(x); };
			T.cdf = [](double x) { return 0.5 * (1 - std::cos(x)); };
			break;
		}
		case 3: {
			double c = rng.uni(-1, 1), s = rng.uni(0.3, 1.5), lo = c - rng.uni(0.5, 3) * s, hi = c + rng.uni(0.5, 3) * s;
			T.name = "truncated normal", T.lo = lo, T.hi = hi, T.ymax = 1.0;
			T.pdf = [c, s](double x) { return std::exp(-0.5 * (x - c) * (x - c) / (s * s)); };
			double Fa = 0.5 * std::erfc(-(lo - c) / (s * std::sqrt(2.0))), Fb = 0.5 * std::erfc(-(hi - c) / (s * std::sqrt(2.0)));
			T.cdf = [c, s, Fa, Fb](double x) { return (0.5 * std::erfc(-(x - c) / (s * std::sqrt(2.0))) - Fa) / (Fb - Fa); };
			break;
		}
		default: {
			T.name = "triangular 2x on [0,1]", T.lo = 0, T.hi = 1, T.ymax = 2.0;
			T.pdf = [](double x) { return 2 * x; };
			T.cdf = [](double x) { return x * x; };
			break;
		}
	}
	return T;
}
// The same law on an affinely mapped domain x = off + w t (narrow windows, windows far from the origin, huge windows): sampling is scale-free, so a
// tolerance inside a sampler that is absolute, or relative to |x| instead of the width, shows up here (seeded changes C18-r2m1, C18-r3m3).
// The ends map exactly (cdf 0 and 1 there by construction), interior points are resolved to 1e-16 off/w <= 1e-7 of the width.
static Target1D affine_target(const Target1D& T, double off, double w)
{
	Target1D S = T;
	S.name	   = T.name + " mapped to off + w t";
	S.lo = off + w * T.lo, S.hi = off + w * T.hi;
	double lo = T.lo, hi = T.hi, slo = S.lo, shi = S.hi;
	auto back = [off, w, lo, hi](double x) { return std::min(std::max((x - off) / w, lo), hi); };
	auto pdf = T.pdf;
	auto cdf = T.cdf;
	S.pdf = [pdf, back](double x) { return pdf(back(x)); };
	S.cdf = [cdf, back, slo, shi](double x) { return x <= slo ? 0.0 : (x >= shi ? 1.0 : cdf(back(x))); };
	return S;
}
// a sigmoidal law on [0,1] (logistic with steepness 12..24, truncated): far from linear, so one or two steps of a root finder do not solve cdf(x) = xi
static Target1D steep_logistic_target(Rng& rng)
{
	Target1D T;
	double k = rng.uni(12, 24), m = rng.uni(0.3, 0.7);
	auto sg	 = [](double z) { return 1.0 / (1.0 + std::exp(-z)); };
	double F0 = sg(-k * m), F1 = sg(k * (1 - m));
	T.name = "steep truncated logistic on [0,1]", T.lo = 0, T.hi = 1, T.ymax = 0.25;
	T.pdf = [k, m, sg](double x) { double q = sg(k * (x - m)); return q * (1 - q); };
	T.cdf = [k, m, sg, F0, F1](double x) { return (sg(k * (x - m)) - F0) / (F1 - F0); };
	return T;
}
static const double AFFINE_MENU[4][2] = {{0.0, 1e-12}, {1e9, 1.0}, {-3e8, 0.5}, {0.0, 1e6}};
// Kolmogorov-Smirnov statistic sqrt(N) D against a continuous CDF
static double ks_stat(std::vector<double>& xs, const std::function<double(double)>& cdf)
{
	std::sort(xs.begin(), xs.end());
	double N = (double) xs.size(), D = 0;
	for(size_t i = 0; i < xs.size(); i++)
	{
		double F = cdf(xs[i]);
		D		 = std::max(D, std::max(std::fabs(F - i / N), std::fabs((i + 1) / N - F)));
	}
	return std::sqrt(N) * D;
}
static double z_of(double sample_value, double expected, double variance_of_estimator) { return std::fabs(sample_value - expected) / std::sqrt(variance_of_estimator); }

static size_t law_N() { return (size_t) (ctx().thorough ? 1000000 : 100000) / (ctx().is_asan() ? 10 : 1); }

// ------------------------------------------------------------------------------------------------------------------
// (1) reproducibility: a scripted sequence of sampler calls is replayed on two generators with equal state
struct Script
{
	std::vector<int> ops;
	std::vector<double> par;
};
static void run_script(const Script& S, std::mt19937& g, std::vector<double>& log, bool& advanced_every_time)
{
	advanced_every_time = true;
	size_t pi = 0;
	for(int op : S.ops)
	{
		std::mt19937 before = g;
		double a = S.par[pi++], b = S.par[pi++], c = S.par[pi++];
		switch(op)
		{
			case 0: log.push_back(Sample_Uniform(g, a, a + b)); break;
			case 1: log.push_back(Sample_Gauss(g, a, b)); break;
			case 2: log.push_back((double) Sample_Poisson(g, b * 50)); break;
			case 3: {
				std::vector<double> mus = {b, 3 * b, 600 * c + 1, 0.01};
				for(unsigned v : Sample_Poisson(g, mus))
					log.push_back((double) v);
				break;
			}
			case 4: {
				double k = 0.5 + b;
				log.push_back(Inverse_Transform_Sampling([k](double x) { return std::expm1(-k * x) / std::expm1(-k * 3.0); }, 0.0, 3.0, g));
				break;
			}
			case 5: log.push_back(Rejection_Sampling([](double x) { return std::sin(x); }, 0.0, M_PI, 1.0 + c, g)); break;
			case 6: {
				std::function<double(double, double)> f = [](double x, double y) { return x + y; };
				auto p = Rejection_Sampling_2D(g, f, 0.0, 1.0, 0.0, 1.0, 2.0 + c);
				log.push_back(p.first), log.push_back(p.second);
				break;
			}
			case 7: {
				// (burn-in 7..10: chains with an odd and with an even number of steps)
				auto v = Sample_Metropolis(g, [](double x) { return std::exp(-0.5 * x * x); }, 1.0 + b, 5, 3, 7 + (unsigned) (c * 4), c < 0.5 ? std::vector<double> {} : std::vector<double> {-3.0, 3.0});
				for(double x : v)
					log.push_back(x);
				break;
			}
			default: {
				auto v = Sample_Metropolis_2D(g, [](double x, double y) { return std::exp(-0.5 * (x * x + y * y)); }, {1.0 + b, 0.5 + b}, 4, 2, 5, c < 0.5 ? std::vector<double> {} : std::vector<double> {-3.0, 3.0, -2.0, 2.0});
				for(auto& p : v)
					log.push_back(p.first), log.push_back(p.second);
				break;
			}
		}
		if(g == before)
			advanced_every_time = false;
	}
}
static void case_reproducible(Rng& rng, uint64_t index)
{
	Script S;
	int n = (index % 9 == 8) ? rng.irange(2, 30) : 1;	// single sampler (each of the 9 in turn) or an interleaving
	for(int i = 0; i < n; i++)
	{
		S.ops.push_back(n == 1 ? (int) (index % 9) : rng.irange(0, 8));
		S.par.push_back(rng.uni(-5, 5)), S.par.push_back(rng.uni(0.1, 3)), S.par.push_back(rng.u01());
	}
	uint32_t seed = (uint32_t) rng.next();
	unsigned warm = (unsigned) rng.irange(0, 700);	 // an arbitrary state, not just a fresh seed (crosses the 624-word refill)
	std::vector<double> ops_d(S.ops.begin(), S.ops.end());
	set_params(J().i("seed", seed).i("discarded_draws", warm).vec("ops", ops_d));
	hash_param_u(seed), hash_param_u(warm), hash_param_u(S.ops.size() * 16 + S.ops[0]);
	if(n > 1)
		mark_nontrivial();
	std::mt19937 g1(seed), g2(seed);
	g1.discard(warm), g2.discard(warm);
	std::vector<double> l1, l2;
	bool adv1, adv2;
	run_script(S, g1, l1, adv1);
	// a decoy: unrelated use of the global C generator and of another mt19937 between the two replays must not matter
	std::srand((unsigned) index);
	(void) std::rand();
	std::mt19937 decoy(seed + 1);
	(void) Sample_Gauss(decoy, 0.0, 1.0);
	run_script(S, g2, l2, adv2);
	bool same = l1.size() == l2.size();
	for(size_t i = 0; same && i < l1.size(); i++)
		same = same_bits(l1[i], l2[i]);
	require("equal-generator-states-give-identical-outputs", same, [&] { return J().i("log_length", (long long) l1.size()).vec("first_log", l1).vec("second_log", l2); });
	require("equal-generator-states-leave-equal-states-behind", g1 == g2, [&] { return J().i("log_length", (long long) l1.size()); });
	require("every-sampler-call-advances-the-passed-generator", adv1 && adv2, [&] { return J().vec("ops", ops_d); });
	// a different state gives a different log (the output really depends on the generator)
	std::mt19937 g3(seed ^ 0x5bd1e995u);
	std::vector<double> l3;
	bool adv3;
	run_script(S, g3, l3, adv3);
	bool differs = l3.size() != l1.size();
	for(size_t i = 0; !differs && i < l1.size(); i++)
		differs = !same_bits(l1[i], l3[i]);
	bool all_discrete_small = true;
	for(int op : S.ops)
		if(op != 2 && op != 3)
			all_discrete_small = false;
	if(!all_discrete_small)
		require("output-depends-on-the-generator-state", differs, [&] { return J().vec("log", l1); });
	// one sampler call from equal generator states after two different histories of OTHER sampler calls (on other generators): "consumes randomness
	// only from the generator passed to it".  Replaying a whole script from its start cannot see state that one sampler leaves behind for another
	// (seeded change C18-r6m2: a normal distribution object shared by the two Metropolis samplers kept its spare variate).
	{
		Script F, B;
		F.ops.push_back(index % 3 == 0 ? 8 : rng.irange(0, 8));
		F.par = {rng.uni(-5, 5), rng.uni(0.1, 3), rng.u01()};
		int nb = rng.irange(1, 6);
		for(int i = 0; i < nb; i++)
		{
			B.ops.push_back(rng.coin(0.4) ? 7 : rng.irange(0, 8));
			B.par.push_back(rng.uni(-5, 5)), B.par.push_back(rng.uni(0.1, 3)), B.par.push_back(rng.u01());
		}
		uint32_t sf = (uint32_t) rng.next();
		std::mt19937 h1(sf), h2(sf), other((uint32_t) rng.next());
		std::vector<double> f1, f2, lb;
		bool a1, a2, ab;
		run_script(F, h1, f1, a1);
		run_script(B, other, lb, ab);
		run_script(F, h2, f2, a2);
		bool eq = f1.size() == f2.size() && h1 == h2;
		for(size_t i = 0; eq && i < f1.size(); i++)
			eq = same_bits(f1[i], f2[i]);
		std::vector<double> bops(B.ops.begin(), B.ops.end());
		require("output-independent-of-other-sampler-calls-on-other-generators", eq, [&] { return J().i("observed_op", F.ops[0]).vec("ops_in_between", bops).vec("first_output", f1).vec("second_output", f2); });
	}
	if(index % 997 == 0)
		sample(J().i("log_length", (long long) l1.size()));
}

// ------------------------------------------------------------------------------------------------------------------
// (2) counts and containment
static const unsigned G_SAMPLE[8] = {0, 1, 2, 3, 5, 10, 50, 200}, G_THIN[7] = {1, 2, 3, 7, 10, 50, 200}, G_BURN[7] = {0, 1, 2, 9, 10, 100, 200};
static void case_metropolis_grid(Rng& rng, uint64_t index)
{
	unsigned s = G_SAMPLE[index % 8], t = G_THIN[(index / 8) % 7], b = G_BURN[(index / 56) % 7];
	bool two_d = (index / 392) % 2;
	set_params(J().i("sample", s).i("thinning", t).i("burn_in", b).i("two_dimensional", two_d));
	hash_param_u(index % 784);
	if(t > 1 && b % t != 0)
		mark_nontrivial();
	std::mt19937 g((uint32_t) rng.next());
	if(!two_d)
	{
		std::vector<double> dom = {-1.5, 2.0};
		auto v = Sample_Metropolis(g, [](double x) { return std::exp(-x * x); }, 1.0, s, t, b, dom);
		require("metropolis-returns-exactly-the-requested-number-of-samples", v.size() == s, [&] { return J().i("returned", (long long) v.size()); });
		bool in = true;
		for(double x : v)
			in = in && x >= dom[0] && x <= dom[1];
		require("metropolis-samples-inside-the-bounded-domain", in, [&] { return J().vec("samples", v); });
		auto u = Sample_Metropolis(g, [](double x) { return std::exp(-x * x); }, 1.0, s, t, b);
		require("metropolis-returns-exactly-the-requested-number-of-samples", u.size() == s, [&] { return J().i("returned_unbounded", (long long) u.size()); });
	}
	else
	{
		std::vector<double> dom = {-1.0, 2.0, 0.0, 1.5};
		auto pdf = [](double x, double y) { return std::exp(-x * x - 2 * y * y); };
		auto v	 = Sample_Metropolis_2D(g, pdf, {1.0, 0.7}, s, t, b, dom);
		require("metropolis-2d-returns-exactly-the-requested-number-of-samples", v.size() == s, [&] { return J().i("returned", (long long) v.size()); });
		bool in = true;
		for(auto& p : v)
			in = in && p.first >= dom[0] && p.first <= dom[1] && p.second >= dom[2] && p.second <= dom[3];
		require("metropolis-2d-samples-inside-the-bounded-domain", in, [&] { return J().i("n", (long long) v.size()); });
		auto u = Sample_Metropolis_2D(g, pdf, {1.0, 0.7}, s, t, b);
		require("metropolis-2d-returns-exactly-the-requested-number-of-samples", u.size() == s, [&] { return J().i("returned_unbounded", (long long) u.size()); });
	}
}
static void case_containment(Rng& rng, uint64_t index)
{
	std::mt19937 g((uint32_t) rng.next());
	Target1D T = make_target(rng, (int) index);
	set_params(J().str("target", T.name).d("lo", T.lo).d("hi", T.hi));
	hash_param(T.lo), hash_param(T.hi), hash_param_u(index);
	bool in_it = true, in_rej = true, in_uni = true;
	double ymax = T.ymax * (rng.coin() ? 1.0 : rng.uni(1.0, 4.0));
	for(int i = 0; i < 200; i++)
	{
		double x = Inverse_Transform_Sampling(T.cdf, T.lo, T.hi, g);
		in_it	 = in_it && x >= T.lo && x <= T.hi;
		double y = Rejection_Sampling(T.pdf, T.lo, T.hi, ymax, g);
		in_rej	 = in_rej && y >= T.lo && y <= T.hi;
		double u = Sample_Uniform(g, T.lo, T.hi);
		in_uni	 = in_uni && u >= T.lo && u <= T.hi;
	}
	require("inverse-transform-samples-inside-[xMin,xMax]", in_it, [&] { return J().str("target", T.name); });
	require("rejection-samples-inside-[xMin,xMax]", in_rej, [&] { return J().str("target", T.name); });
	require("uniform-samples-inside-[min,max]", in_uni, [&] { return J().str("target", T.name); });
	bool in2 = true;
	double x0 = rng.uni(-2, 0), x1 = x0 + rng.uni(0.5, 2), y0 = rng.uni(-1, 1), y1 = y0 + rng.uni(0.5, 2);
	std::function<double(double, double)> f3 = [x0, y0](double x, double y) { return (x - x0) + (y - y0); };
	for(int i = 0; i < 100; i++)
	{
		auto p = Rejection_Sampling_2D(g, f3, x0, x1, y0, y1, (x1 - x0) + (y1 - y0));
		in2	   = in2 && p.first >= x0 && p.first <= x1 && p.second >= y0 && p.second <= y1;
	}
	require("rejection-2d-samples-inside-the-rectangle", in2, [&] { return J().d("x0", x0).d("x1", x1).d("y0", y0).d("y1", y1); });
	int len = rng.irange(0, 12);
	std::vector<double> mus(len);
	for(auto& m : mus)
		m = rng.loguni(1e-2, 50);
	auto pv = Sample_Poisson(g, mus);
	require("poisson-vector-overload-returns-one-count-per-mean", (int) pv.size() == len, [&] { return J().i("means", len).i("returned", (long long) pv.size()); });
}

// ------------------------------------------------------------------------------------------------------------------
// (3) laws
static void case_law(Rng& rng, uint64_t index)
{
	int which = (int) (index % 12);
	std::mt19937 g((uint32_t) rng.next());
	size_t N = law_N();
	mark_nontrivial();
	hash_param_u(index), hash_param_u(N);
	std::vector<double> xs;
	switch(which)
	{
		case 0: {
			double a = rng.mag(1e-2, 1e2), w = rng.loguni(1e-2, 1e2);
			set_params(J().str("sampler", "Sample_Uniform").d("min", a).d("max", a + w).i("N", (long long) N));
			xs.resize(N);
			ld s1 = 0, s2 = 0;
			for(auto& x : xs)
			{
				x = Sample_Uniform(g, a, a + w);
				s1 += x - a, s2 += (ld) (x - a) * (x - a);
			}
			double ks = ks_stat(xs, [a, w](double x) { return (x - a) / w; });
			judge("uniform-kolmogorov-smirnov", ks, KS_LIMIT, [&] { return J().d("sqrtN_D", ks); });
			double mean = (double) (s1 / N), var = (double) (s2 / N) - mean * mean;
			judge("uniform-mean-z-test", z_of(mean, w / 2, w * w / 12 / N), Z_LIMIT, [&] { return J().d("mean_minus_min", mean); });
			judge("uniform-variance-z-test", z_of(var, w * w / 12, (w * w * w * w / 80 - w * w * w * w / 144) / N), Z_LIMIT, [&] { return J().d("variance", var); });
			break;
		}
		case 1: {
			double mu = rng.coin() ? 0.0 : rng.mag(1e-2, 1e2), s = rng.loguni(1e-3, 1e3);
			set_params(J().str("sampler", "Sample_Gauss").d("mean", mu).d("sigma", s).i("N", (long long) N));
			xs.resize(N);
			ld s1 = 0, s2 = 0;
			for(auto& x : xs)
			{
				x = Sample_Gauss(g, mu, s);
				s1 += (x - mu), s2 += (ld) (x - mu) * (x - mu);
			}
			double ks = ks_stat(xs, [mu, s](double x) { return 0.5 * std::erfc(-(x - mu) / (s * std::sqrt(2.0))); });
			judge("gauss-kolmogorov-smirnov", ks, KS_LIMIT, [&] { return J().d("sqrtN_D", ks); });
			double mean = (double) (s1 / N), var = (double) (s2 / N) - mean * mean;
			judge("gauss-mean-z-test", z_of(mean, 0, s * s / N), Z_LIMIT, [&] { return J().d("mean_minus_mu", mean); });
			judge("gauss-variance-z-test", z_of(var, s * s, 2 * s * s * s * s / N), Z_LIMIT, [&] { return J().d("variance", var); });
			break;
		}
		case 2:
		case 3: {
			static const double special[] = {499.0, 501.0, 500.0, 1000.0, 1e-2, 0.5, 5e3, 1500.0};
			double mu = (which == 2) ? rng.loguni(1e-2, 5e3) : special[(index / 10) % 8];
			size_t Np = (size_t) std::max(2000.0, std::min((double) N, 4e7 / (mu + 10)) / (ctx().is_asan() ? 4 : 1));
			set_params(J().str("sampler", "Sample_Poisson").d("mean", mu).i("N", (long long) Np));
			std::map<unsigned, size_t> hist;
			ld s1 = 0, s2 = 0;
			for(size_t i = 0; i < Np; i++)
			{
				unsigned k = Sample_Poisson(g, mu);
				hist[k]++;
				s1 += k, s2 += (ld) k * k;
			}
			double mean = (double) (s1 / Np), var = (double) (s2 / Np) - mean * mean;
			judge("poisson-mean-z-test", z_of(mean, mu, mu / Np), Z_LIMIT, [&] { return J().d("sample_mean", mean); });
			judge("poisson-variance-z-test", z_of(var, mu, (mu + 2 * mu * mu) / Np), Z_LIMIT, [&] { return J().d("sample_variance", var); });
			// chi-square with pooled tails: cells with expectation >= 10
			int klo = (int) std::max(0.0, std::floor(mu - 8 * std::sqrt(mu) - 10)), khi = (int) std::ceil(mu + 8 * std::sqrt(mu) + 10);
			std::vector<ld> pk;
			for(int k = klo; k <= khi; k++)
				pk.push_back(expl(k * logl((ld) mu) - (ld) mu - lgammal(k + 1.0L)));
			ld plow = 0;
			for(int k = 0; k < klo; k++)
				plow += expl(k * logl((ld) mu) - (ld) mu - lgammal(k + 1.0L));
			std::vector<ld> expct;
			std::vector<size_t> obs;
			ld acc_e = plow * Np;
			size_t acc_o = 0;
			for(auto& kv : hist)
				if((int) kv.first < klo)
					acc_o += kv.second;
			for(int k = klo; k <= khi; k++)
			{
				acc_e += pk[k - klo] * Np;
				auto it = hist.find((unsigned) k);
				acc_o += (it == hist.end()) ? 0 : it->second;
				if(acc_e >= 10)
				{
					expct.push_back(acc_e), obs.push_back(acc_o);
					acc_e = 0, acc_o = 0;
				}
			}
			// upper tail: everything beyond khi plus the unfinished cell
			size_t above = 0;
			for(auto& kv : hist)
				if((int) kv.first > khi)
					above += kv.second;
			ld etot = 0;
			for(ld e : expct)
				etot += e;
			ld erest = (ld) Np - etot;
			if(!expct.empty() && erest < 10)
				expct.back() += erest, obs.back() += acc_o + above;
			else
				expct.push_back(erest), obs.push_back(acc_o + above);
			ld chi2 = 0;
			for(size_t i = 0; i < expct.size(); i++)
				if(expct[i] > 0)
					chi2 += ((ld) obs[i] - expct[i]) * ((ld) obs[i] - expct[i]) / expct[i];
			int dof = (int) expct.size() - 1;
			if(dof >= 1)
			{
				ld pval = boost::math::gamma_q((ld) dof / 2, chi2 / 2, boost_pol);
				judge("poisson-chi-square-pooled-tails", (double) (-log10l(std::max(pval, (ld) 1e-300))), 9.0, [&] { return J().d("chi2", (double) chi2).i("dof", dof).d("p_value", (double) pval); });
			}
			break;
		}
		case 4:
		case 5: {
			Target1D T = make_target(rng, (int) (index / 10));
			if((index / 12) % 2 == 1)
			{
				const double* m = AFFINE_MENU[(index / 24) % 4];
				T = affine_target(steep_logistic_target(rng), m[0], m[1]);
			}
			size_t Ng  = N / 4;
			if(which == 4 && (index / 12) % 2 == 1 && !ctx().is_asan())
				Ng = 2 * N;	  // a tolerance of a tenth of the width distorts the law by D ~ 0.01-0.02 only: needs 2e5 samples to be seen at 3.3/sqrt(N)
			xs.resize(Ng);
			if(which == 4)
			{
				set_params(J().str("sampler", "Inverse_Transform_Sampling").str("target", T.name).d("lo", T.lo).d("hi", T.hi).i("N", (long long) Ng));
				for(auto& x : xs)
					x = Inverse_Transform_Sampling(T.cdf, T.lo, T.hi, g);
				double ks = ks_stat(xs, T.cdf);
				judge("inverse-transform-kolmogorov-smirnov", ks, KS_LIMIT, [&] { return J().d("sqrtN_D", ks); });
			}
			else
			{
				double ymax = T.ymax * (rng.coin() ? 1.0 : rng.uni(1.0, 5.0));	 // tight and loose envelopes
				set_params(J().str("sampler", "Rejection_Sampling").str("target", T.name).d("lo", T.lo).d("hi", T.hi).d("yMax", ymax).i("N", (long long) Ng));
				for(auto& x : xs)
					x = Rejection_Sampling(T.pdf, T.lo, T.hi, ymax, g);
				double ks = ks_stat(xs, T.cdf);
				judge("rejection-kolmogorov-smirnov", ks, KS_LIMIT, [&] { return J().d("sqrtN_D", ks); });
			}
			break;
		}
		case 6: {
			// pdf(x,y) = x + y on the unit square: marginal CDF (t^2+t)/2, E[xy] = 1/3, Var(xy) = 1/6 - 1/9
			size_t Ng = N / 4;
			double zmax = 2.0 * (rng.coin() ? 1.0 : rng.uni(1.0, 3.0));
			set_params(J().str("sampler", "Rejection_Sampling_2D").d("zMax", zmax).i("N", (long long) Ng));
			std::function<double(double, double)> f = [](double x, double y) { return x + y; };
			std::vector<double> ys(Ng);
			xs.resize(Ng);
			ld sxy = 0;
			for(size_t i = 0; i < Ng; i++)
			{
				auto p = Rejection_Sampling_2D(g, f, 0.0, 1.0, 0.0, 1.0, zmax);
				xs[i] = p.first, ys[i] = p.second;
				sxy += (ld) p.first * p.second;
			}
			auto mc	  = [](double t) { return 0.5 * (t * t + t); };
			double k1 = ks_stat(xs, mc), k2 = ks_stat(ys, mc);
			judge("rejection-2d-marginal-kolmogorov-smirnov", std::max(k1, k2), KS_LIMIT, [&] { return J().d("sqrtN_D_x", k1).d("sqrtN_D_y", k2); });
			judge("rejection-2d-correlation-z-test", z_of((double) (sxy / Ng), 1.0 / 3, (1.0 / 6 - 1.0 / 9) / Ng), Z_LIMIT, [&] { return J().d("mean_xy", (double) (sxy / Ng)); });
			break;
		}
		case 7:
		case 8: {
			// Metropolis 1D on a thinned chain; proposal width of the order of the target width, burn-in 2000
			bool bounded = (which == 8);
			Target1D T;
			double sigma;
			if(bounded)
			{
				T	  = make_target(rng, (int) (index / 10));
				sigma = 0.6 * (T.hi - T.lo);
			}
			else
			{
				double c = rng.uni(-1, 1), s = rng.uni(0.5, 2);
				T.name = "normal", T.lo = -INFINITY, T.hi = INFINITY;
				T.pdf = [c, s](double x) { return std::exp(-0.5 * (x - c) * (x - c) / (s * s)); };
				T.cdf = [c, s](double x) { return 0.5 * std::erfc(-(x - c) / (s * std::sqrt(2.0))); };
				sigma = 2.4 * s;
			}
			unsigned thin = (unsigned) rng.irange(25, 40);
			size_t Nm	  = N / 10;
			set_params(J().str("sampler", "Sample_Metropolis").str("target", T.name).i("bounded", bounded).d("sigma", sigma).i("thinning", thin).i("N", (long long) Nm));
			std::vector<double> dom = bounded ? std::vector<double> {T.lo, T.hi} : std::vector<double> {};
			xs = Sample_Metropolis(g, T.pdf, sigma, (unsigned) Nm, thin, 2000, dom);
			require("metropolis-law-run-returns-requested-count", xs.size() == Nm, [&] { return J().i("returned", (long long) xs.size()); });
			double ks = ks_stat(xs, T.cdf);
			judge(bounded ? "metropolis-bounded-kolmogorov-smirnov" : "metropolis-unbounded-kolmogorov-smirnov", ks, KS_LIMIT, [&] { return J().d("sqrtN_D", ks); });
			break;
		}
		case 10:
		case 11: {
			// compact-support targets strictly inside a larger bounded domain: the chain usually starts where the density is exactly zero
			// (ratio 0/0) and has to walk into the support; afterwards every sample lies inside the support and follows the target law
			unsigned thin = (unsigned) rng.irange(25, 40);
			size_t Nm	  = N / 20;
			double sigma  = rng.uni(0.25, 0.5);
			if(which == 10)
			{
				set_params(J().str("sampler", "Sample_Metropolis").str("target", "(1-x^2)+ inside the domain [-3,3]").d("sigma", sigma).i("thinning", thin).i("N", (long long) Nm));
				xs = Sample_Metropolis(g, [](double x) { return x * x < 1 ? 1 - x * x : 0.0; }, sigma, (unsigned) Nm, thin, 8000, {-3.0, 3.0});
				require("metropolis-law-run-returns-requested-count", xs.size() == Nm, [&] { return J().i("returned", (long long) xs.size()); });
				size_t outside = 0;
				for(double x : xs)
					outside += !(x * x < 1);
				require("metropolis-compact-support-samples-inside-the-support", outside == 0, [&] { return J().i("outside", (long long) outside).i("N", (long long) xs.size()); });
				double ks = ks_stat(xs, [](double x) { double t = std::max(-1.0, std::min(1.0, x)); return 0.5 + 0.75 * (t - t * t * t / 3); });
				judge("metropolis-compact-support-kolmogorov-smirnov", ks, KS_LIMIT, [&] { return J().d("sqrtN_D", ks); });
			}
			else
			{
				set_params(J().str("sampler", "Sample_Metropolis_2D").str("target", "(1-x^2-y^2)+ inside the domain [-3,3]^2").d("sigma", sigma).i("thinning", thin).i("N", (long long) Nm));
				auto v = Sample_Metropolis_2D(g, [](double x, double y) { double r2 = x * x + y * y; return r2 < 1 ? 1 - r2 : 0.0; }, {sigma, sigma}, (unsigned) Nm, thin, 8000, {-3.0, 3.0, -3.0, 3.0});
				require("metropolis-law-run-returns-requested-count", v.size() == Nm, [&] { return J().i("returned", (long long) v.size()); });
				size_t outside = 0;
				for(auto& q : v)
				{
					double r2 = q.first * q.first + q.second * q.second;
					outside += !(r2 < 1);
					xs.push_back(std::sqrt(r2));
				}
				require("metropolis-compact-support-samples-inside-the-support", outside == 0, [&] { return J().i("outside", (long long) outside).i("N", (long long) v.size()); });
				double ks = ks_stat(xs, [](double r) { double t = std::min(1.0, r); return 2 * t * t - t * t * t * t; });
				judge("metropolis-compact-support-kolmogorov-smirnov", ks, KS_LIMIT, [&] { return J().d("sqrtN_D_radius", ks); });
			}
			break;
		}
		default: {
			// Metropolis 2D: bounded x+y on the unit square, or an unbounded anisotropic Gaussian; marginals by KS
			bool bounded = (index / 10) % 2;
			unsigned thin = (unsigned) rng.irange(30, 45);
			size_t Nm	  = N / 10;
			set_params(J().str("sampler", "Sample_Metropolis_2D").i("bounded", bounded).i("thinning", thin).i("N", (long long) Nm));
			std::vector<double> ys;
			std::function<double(double)> cx, cy;
			std::vector<std::pair<double, double>> v;
			if(bounded)
			{
				v  = Sample_Metropolis_2D(g, [](double x, double y) { return x + y; }, {0.5, 0.5}, (unsigned) Nm, thin, 2000, {0.0, 1.0, 0.0, 1.0});
				cx = cy = [](double t) { return 0.5 * (t * t + t); };
			}
			else
			{
				double s1 = rng.uni(0.5, 2), s2 = rng.uni(0.5, 2);
				v  = Sample_Metropolis_2D(g, [s1, s2](double x, double y) { return std::exp(-0.5 * (x * x / (s1 * s1) + y * y / (s2 * s2))); }, {1.7 * s1, 1.7 * s2}, (unsigned) Nm, thin, 2000);
				cx = [s1](double t) { return 0.5 * std::erfc(-t / (s1 * std::sqrt(2.0))); };
				cy = [s2](double t) { return 0.5 * std::erfc(-t / (s2 * std::sqrt(2.0))); };
			}
			require("metropolis-law-run-returns-requested-count", v.size() == Nm, [&] { return J().i("returned", (long long) v.size()); });
			for(auto& p : v)
				xs.push_back(p.first), ys.push_back(p.second);
			double k1 = ks_stat(xs, cx), k2 = ks_stat(ys, cy);
			judge(bounded ? "metropolis-2d-bounded-marginal-kolmogorov-smirnov" : "metropolis-2d-unbounded-marginal-kolmogorov-smirnov", std::max(k1, k2), KS_LIMIT, [&] { return J().d("sqrtN_D_x", k1).d("sqrtN_D_y", k2); });
			break;
		}
	}
	if(index % 7 == 0)
		sample();
}

// third moment of Sample_Poisson for means just above 1000: E (k-mu)^3 = mu, variance of the estimator (mu + 25 mu^2 + 15 mu^3 - mu^2)/N.  A symmetric
// stand-in for the Poisson law (seeded change C18-r7m2: rounded Gaussian above 1000) keeps mean and variance and is invisible to a chi-square test with
// 1e5 samples; with N = 1000 mu samples its missing skewness is 8 standard errors.  About 1.2e9 generator draws per case.
static void case_poisson_skewness(Rng& rng, uint64_t index)
{
	double mu = (index % 2 == 0) ? rng.uni(1001.0, 1200.0) : rng.uni(600.0, 1000.0);
	size_t Np = (size_t) (1000.0 * mu);
	set_params(J().str("sampler", "Sample_Poisson").d("mean", mu).i("N", (long long) Np));
	hash_param(mu);
	mark_nontrivial();
	std::mt19937 g((uint32_t) rng.next());
	ld m3 = 0;
	for(size_t i = 0; i < Np; i++)
	{
		ld d = (ld) Sample_Poisson(g, mu) - (ld) mu;
		m3 += d * d * d;
	}
	m3 /= Np;
	double var_est = (mu + 24 * mu * mu + 15 * mu * mu * mu) / (double) Np;
	judge("poisson-third-moment-z-test", z_of((double) m3, mu, var_est), Z_LIMIT, [&] { return J().d("third_central_moment", (double) m3).d("expected", mu); });
}

static void setup()
{
	add_generator("replayed_scripts", ctx().count(5400, 540000), case_reproducible);
	add_generator("metropolis_count_grid", 784, case_metropolis_grid);
	add_generator("containment", ctx().count(800, 60000), case_containment);
	add_generator("poisson_skewness", ctx().is_asan() ? 0 : ctx().count(2, 16), case_poisson_skewness, 1800.0);
	add_generator("laws", ctx().count(96, 2880), case_law, 1800.0);
}
VERIF_MAIN("C18", setup)
