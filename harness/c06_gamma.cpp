// C06 - the gamma-function family is accurate over its whole domain and self-consistent.
// References: lgammal / tgammal, boost::math::gamma_p / gamma_q / gamma_p_inv evaluated in long double, Pascal's triangle
// in long double.  None of them shares code with libphysica (which uses Boost only for quadrature rules and Y_lm).
#include "verif.hpp"

#include "special_common.hpp"

#include <algorithm>
#include <boost/math/special_functions/gamma.hpp>

#include "libphysica/Special_Functions.hpp"

using namespace libphysica;
using namespace vf;
using sp::ld;

static const int64_t STEP_BUDGET = 1000000;	  // ticks allowed inside one library call (series terms, continued-fraction steps)

static ld Qref(double x, double a) { return boost::math::gamma_q((ld) a, (ld) x, sp::boost_pol); }
static ld Pref(double x, double a) { return boost::math::gamma_p((ld) a, (ld) x, sp::boost_pol); }

struct Branch
{
	uint64_t ser, cf, quad;
};
static Branch tick_snapshot() { return {ticks("GammaPser.term"), ticks("GammaQcf.term"), ticks("GammaQint")}; }

static double call_Q(double x, double a)
{
	BudgetGuard g(STEP_BUDGET);
	return GammaQ(x, a);
}
static double call_P(double x, double a)
{
	BudgetGuard g(STEP_BUDGET);
	return GammaP(x, a);
}

// ------------------------------------------------------------------------------------------------------------------
// GammaLn, Gamma, recurrence
static void case_gammaln(Rng& rng, uint64_t)
{
	double x;
	int fam = (int) rng.below(10);
	switch(fam)
	{
		case 0:
		case 1:
		case 2: x = rng.loguni(1e-6, 1e6); break;
		case 3:
		case 4: x = rng.uni(0.5, 175.0); break;
		case 5: x = (rng.coin() ? 1.0 : 2.0) + rng.mag(1e-14, 0.5); break;
		case 6: x = rng.irange(1, 172) + (rng.coin() ? 0.0 : 0.5); break;
		case 7: x = rng.coin() ? rng.loguni(1e-300, 1e-6) : rng.loguni(1e6, 1e300); break;
		case 8: x = 171.6 + rng.uni(-1.0, 1.0); break;	 // around the overflow threshold of Gamma
		default: x = rng.loguni(1e-3, 1e3); break;
	}
	set_params(J().d("x", x).i("family", fam));
	hash_param(x);
	double gl = GammaLn(x);
	ld ref	  = lgammal((ld) x);
	double S  = std::max(1.0, (double) fabsl(ref));
	judge("gammaln-vs-lgammal", (double) fabsl((ld) gl - ref), 64 * EPS * S, [&] { return J().d("GammaLn", gl).d("lgammal", (double) ref); });
	ld tg = tgammal((ld) x);
	double G = Gamma(x);
	if(tg <= (ld) DBL_MAX)
		judge("gamma-vs-tgammal", (double) (fabsl((ld) G - tg) / tg), 64 * EPS * (1 + (double) fabsl(ref)), [&] { return J().d("Gamma", G).d("tgammal", (double) tg); });
	else
		require("gamma-overflows-to-inf", std::isinf(G) && G > 0, [&] { return J().d("Gamma", G).str("tgammal", hexf(tg)); });
	// recurrence at an exactly representable pair (x', x'+1)
	double xp = x + 1.0, xb = xp - 1.0;
	if(xb > 0 && xp - xb == 1.0 && xp < 1e15)
	{
		double l0 = GammaLn(xb), l1 = GammaLn(xp);
		double S2 = std::max(1.0, std::max(std::fabs(l0), std::fabs(l1)));
		ld d	  = (ld) l1 - ((ld) l0 + logl((ld) xb));
		judge("gammaln-recurrence", (double) fabsl(d), 128 * EPS * S2, [&] { return J().d("x", xb).d("GammaLn(x)", l0).d("GammaLn(x+1)", l1); });
		double g0 = Gamma(xb), g1 = Gamma(xp);
		if(std::isfinite(g1) && std::isfinite(g0) && g1 > 0)
		{
			ld rel = fabsl((ld) g1 - (ld) xb * (ld) g0) / (ld) g1;
			judge("gamma-recurrence", (double) rel, 128 * EPS * (1 + S2), [&] { return J().d("x", xb).d("Gamma(x)", g0).d("Gamma(x+1)", g1); });
		}
	}
	if(std::fabs(x - 171.62) <= 1.0)
		mark_nontrivial();	 // within 1 of the point where Gamma leaves the double range
	sample(J().d("GammaLn", gl));
}

// ------------------------------------------------------------------------------------------------------------------
// Factorial in every call order; each order in a fresh child (FactorialList is a process global)
static std::vector<unsigned> make_order(Rng& rng, uint64_t index, std::string& kind)
{
	std::vector<unsigned> o;
	if(index == 0)
	{
		kind = "ascending";
		for(unsigned n = 0; n <= 170; n++)
			o.push_back(n);
	}
	else if(index == 1)
	{
		kind = "descending";
		for(int n = 170; n >= 0; n--)
			o.push_back((unsigned) n);
	}
	else if(index == 2)
	{
		kind = "outside-in";
		for(unsigned k = 0; k <= 85; k++)
		{
			o.push_back(k);
			if(170 - k != k)
				o.push_back(170 - k);
		}
	}
	else if(index == 3)
	{
		kind = "ascending-with-repeats";
		for(unsigned n = 0; n <= 170; n++)
		{
			o.push_back(n);
			o.push_back(n);
			if(n > 0)
				o.push_back(n - 1);
		}
	}
	else
	{
		kind = "random-permutation-with-repeats";
		for(unsigned n = 0; n <= 170; n++)
			o.push_back(n);
		for(size_t i = o.size() - 1; i > 0; i--)
			std::swap(o[i], o[rng.below(i + 1)]);
		int extra = rng.irange(0, 120);
		for(int i = 0; i < extra; i++)
			o.insert(o.begin() + rng.below(o.size() + 1), (unsigned) rng.irange(0, 170));
	}
	return o;
}
static void case_factorial(Rng& rng, uint64_t index)
{
	std::string kind;
	std::vector<unsigned> order = make_order(rng, index, kind);
	std::vector<double> ov(order.begin(), order.end());
	set_params(J().str("order", kind).i("calls", (long long) order.size()).vec("first_calls", std::vector<double>(ov.begin(), ov.begin() + std::min<size_t>(ov.size(), 24))));
	hash_param_u(index);
	for(unsigned n : order)
		hash_param_u(n);
	Outcome o = run_isolated([&](const std::function<void(const std::string&)>& send) {
		std::vector<double> v(order.size());
		for(size_t i = 0; i < order.size(); i++)
			v[i] = Factorial(order[i]);
		send(std::string((const char*) v.data(), v.size() * sizeof(double)));
	});
	if(o.kind == WATCHDOG)
	{
		inconclusive("watchdog on a Factorial order");
		return;
	}
	if(!expect_return("factorial-order-returns", o))
		return;
	if(o.payload.size() != order.size() * sizeof(double))
	{
		require("factorial-order-returns", false, [&] { return J().i("payload_bytes", (long long) o.payload.size()); }, "factorial-payload-size");
		return;
	}
	std::vector<double> v(order.size());
	memcpy(v.data(), o.payload.data(), o.payload.size());
	// model of the memo table: how many calls were answered from the table, how many grew it by more than one entry
	size_t table = 1, lookups = 0, jumps = 0;
	std::vector<double> first(171, -1.0);
	for(size_t i = 0; i < order.size(); i++)
	{
		unsigned n = order[i];
		if(n < table)
			lookups++;
		else
		{
			if(n + 1 - table > 1)
				jumps++;
			table = n + 1;
		}
		ld ref = tgammal((ld) n + 1);
		judge("factorial-vs-tgammal", (double) (fabsl((ld) v[i] - ref) / ref), 170 * EPS, [&] { return J().i("n", n).i("call", (long long) i).d("Factorial", v[i]).d("tgammal", (double) ref); });
		if(first[n] < 0)
			first[n] = v[i];
		else
			require("factorial-repeat-same-bits", same_bits(first[n], v[i]), [&] { return J().i("n", n).d("first", first[n]).d("later", v[i]); });
	}
	require("factorial-zero-and-one", first[0] == 1.0 && first[1] == 1.0, [&] { return J().d("0!", first[0]).d("1!", first[1]); });
	for(unsigned n = 1; n <= 170; n++)
	{
		double prod = (double) n * first[n - 1];   // one rounding, as n!=n*(n-1)! demands
		require("factorial-recurrence-to-4-ulp", near_ulps(prod, first[n], 4), [&] { return J().i("n", n).d("n!", first[n]).d("n*(n-1)!", prod); });
	}
	if(lookups > 0 && jumps > 0)
		mark_nontrivial();
	// the same history followed by a request beyond the table limit must stop the program
	unsigned big = (index % 4 == 0) ? 171u : (index % 4 == 1) ? 172u : (index % 4 == 2) ? (unsigned) rng.irange(173, 100000) : 4294967295u;
	size_t upto = rng.below(order.size());
	Outcome r = run_isolated([&](const std::function<void(const std::string&)>&) {
		double s = 0;
		for(size_t i = 0; i < upto; i++)
			s += Factorial(order[i]);
		s += Factorial(big);
		printf("%g", s);
	});
	if(r.kind == WATCHDOG)
		inconclusive("watchdog on Factorial(>170)");
	else
		expect_reject("factorial-above-170-exits", r);
	sample(J().i("lookups", (long long) lookups).i("jumps", (long long) jumps).d("170!", first[170]));
}

// ------------------------------------------------------------------------------------------------------------------
// Binomial coefficients: one case = one row n (all k), reference = Pascal's triangle in long double
static const int NBIN = 400;
static std::vector<std::vector<ld>>& pascal()
{
	static std::vector<std::vector<ld>> T;
	if(T.empty())
	{
		T.assign(NBIN + 1, std::vector<ld>());
		for(int n = 0; n <= NBIN; n++)
		{
			T[n].assign(n + 1, 1.0L);
			for(int k = 1; k < n; k++)
				T[n][k] = T[n - 1][k - 1] + T[n - 1][k];
		}
	}
	return T;
}
static void case_binomial(Rng& rng, uint64_t index)
{
	int n = (int) index;
	set_params(J().i("n", n));
	hash_param_u(index);
	auto& T = pascal();
	std::vector<double> row(n + 1), prev(n > 0 ? n : 0);
	// call order inside a row varies with the seed so that the Factorial memo table is met in different states
	std::vector<int> ks(n + 1);
	for(int k = 0; k <= n; k++)
		ks[k] = k;
	if(rng.coin())
		std::reverse(ks.begin(), ks.end());
	else if(rng.coin())
		for(size_t i = ks.size() - 1; i > 0; i--)
			std::swap(ks[i], ks[rng.below(i + 1)]);
	for(int k : ks)
		row[k] = Binomial_Coefficient(n, k);
	for(int k = 0; k < n; k++)
		prev[k] = Binomial_Coefficient(n - 1, k);
	const double two53 = 9007199254740992.0;
	for(int k = 0; k <= n; k++)
	{
		double v = row[k];
		ld ref	 = T[n][k];
		double L = (double) logl(ref);
		require("binomial-integer-valued", std::isfinite(v) && std::floor(v) == v && v >= 1, [&] { return J().i("n", n).i("k", k).d("C", v); });
		// n<=170: ratio of tabulated factorials, a few ulp.  n>170: exp(lnG(n+1)-lnG(k+1)-lnG(n-k+1)); the GammaLn clause allows each
		// logarithm 64*eps*|lnG|, which is an absolute error of the exponent, so the propagated relative tolerance of the value is
		// 64*eps*(sum of the three |lnG|) -- the same "few ulp of the logarithm" scale as the Gamma clause (DESIGN 5.4).
		// (n<=170: 32 eps, the quotient of three table entries that each carry the few-ulp error of their recurrence; the unchanged code
		// reaches 4.4 eps.  Seeded change C06-r6m2 answered from the log-gamma formula, 3e-13, whenever the memo table was still short.)
		double tol = 32 * EPS;
		(void) L;
		if(n > 170)
			tol = 64 * EPS * (1 + std::lgamma(n + 1.0) + std::lgamma(k + 1.0) + std::lgamma(n - k + 1.0));
		judge("binomial-vs-pascal-triangle", (double) (fabsl((ld) v - ref) / ref), tol, [&] { return J().i("n", n).i("k", k).d("C", v).d("ref", (double) ref); });
		// small values (below 2^40 the rounding of n!/k!/(n-k)! stays far below 1/2): the exact integer, hence exactly symmetric;
		// larger values: symmetric to the same few ulp as the value itself
		double w = row[n - k];
		if(ref < (ld) two53 / 8192)
		{
			require("binomial-exact-below-2^40", (ld) v == ref, [&] { return J().i("n", n).i("k", k).d("C", v).d("ref", (double) ref); });
			require("binomial-symmetry", v == w, [&] { return J().i("n", n).i("k", k).d("C(n,k)", v).d("C(n,n-k)", w); });
		}
		else
			judge("binomial-symmetry-large", std::fabs(v - w) / (double) ref, tol, [&] { return J().i("n", n).i("k", k).d("C(n,k)", v).d("C(n,n-k)", w); });
		if(n >= 1 && k >= 1 && k <= n - 1)
		{
			ld sum = (ld) prev[k - 1] + (ld) prev[k];
			judge("binomial-pascal-rule", (double) (fabsl((ld) v - sum) / ref), 3 * tol, [&] { return J().i("n", n).i("k", k).d("C(n,k)", v).d("C(n-1,k-1)", prev[k - 1]).d("C(n-1,k)", prev[k]); });
		}
	}
	for(int extra : {1, 2, 17})
	{
		double z = Binomial_Coefficient(n, n + extra);
		require("binomial-k-above-n-is-zero", z == 0.0, [&] { return J().i("n", n).i("k", n + extra).d("C", z); });
	}
	if(n >= 169 && n <= 172)
		mark_nontrivial();	 // within 1 of the factorial / log-gamma switch at n=170
	if(n % 80 == 0)
		sample(J().d("C(n,n/2)", row[n / 2]));
}

// Binomial coefficients asked for in a process whose Factorial memo table is in another state: nothing called before, only small
// factorials, other binomials, or Gamma/GammaLn.  The value may not depend on that history beyond a few ulp (seeded change C06-r6m2).
static void case_binomial_history(Rng& rng, uint64_t index)
{
	auto& T = pascal();
	int hist = (int) (index % 5);
	static const char* HN[] = {"nothing before", "Factorial of smaller arguments", "Binomial_Coefficient of smaller n", "Gamma and GammaLn", "Factorial(170) first"};
	std::vector<std::pair<int, int>> q;
	int nq = 4 + (int) rng.below(12);
	for(int i = 0; i < nq; i++)
	{
		int n = rng.coin(0.8) ? (int) rng.irange(40, 170) : (int) rng.irange(0, 40);
		if(index < 5 && i == 0)
			n = 168;
		int k = rng.coin(0.5) ? (int) rng.irange(std::max(0, n / 2 - 10), std::min(n, n / 2 + 10)) : (int) rng.irange(0, n);
		if(index < 5 && i == 0)
			k = 13;
		q.push_back({n, k});
	}
	int nmin = 170;
	for(auto& e : q)
		nmin = std::min(nmin, e.first);
	std::vector<double> pre;
	for(int i = 0, m = (int) rng.below(6); i < m; i++)
		pre.push_back(nmin > 0 ? (double) rng.below(nmin) : 0.0);
	set_params(J().str("history", HN[hist]).vec("history_arguments", pre).i("n0", q[0].first).i("k0", q[0].second).i("requests", nq));
	hash_param_u(index);
	for(auto& e : q)
		hash_param_u(e.first * 1000 + e.second);
	Outcome o = run_isolated([&](const std::function<void(const std::string&)>& send) {
		double sink = 0;
		if(hist == 1)
			for(double m : pre)
				sink += Factorial((unsigned) m);
		else if(hist == 2)
			for(double m : pre)
				sink += Binomial_Coefficient((int) m, (int) m / 2);
		else if(hist == 3)
			for(double m : pre)
				sink += Gamma(m + 1.5) + GammaLn(m + 2.0);
		else if(hist == 4)
			sink += Factorial(170);
		std::vector<double> v;
		for(auto& e : q)
			v.push_back(Binomial_Coefficient(e.first, e.second));
		v.push_back(sink);
		send(std::string((const char*) v.data(), v.size() * sizeof(double)));
	});
	if(o.kind == WATCHDOG)
	{
		inconclusive("watchdog on a Binomial_Coefficient history");
		return;
	}
	if(!expect_return("binomial-history-returns", o))
		return;
	if(o.payload.size() != (q.size() + 1) * sizeof(double))
	{
		require("binomial-history-returns", false, [&] { return J().i("payload_bytes", (long long) o.payload.size()); }, "binomial-payload-size");
		return;
	}
	std::vector<double> v(q.size() + 1);
	memcpy(v.data(), o.payload.data(), o.payload.size());
	for(size_t i = 0; i < q.size(); i++)
	{
		int n = q[i].first, k = q[i].second;
		ld ref = T[n][k];
		auto det = [&] { return J().str("history", HN[hist]).vec("history_arguments", pre).i("n", n).i("k", k).d("C", v[i]).d("ref", (double) ref); };
		judge("binomial-vs-pascal-triangle-after-another-history", (double) (fabsl((ld) v[i] - ref) / ref), 32 * EPS, det);
		require("binomial-integer-valued", std::isfinite(v[i]) && std::floor(v[i]) == v[i] && v[i] >= 1, det);
	}
	if(hist != 4)
		mark_nontrivial();
}

// ------------------------------------------------------------------------------------------------------------------
// Regularised incomplete gamma functions
static double x_max(double a) { return a + 40 * std::sqrt(a) + 40; }

static void judge_pq(double x, double a, double x2, const char* fam)
{
	set_params(J().d("x", x).d("a", a).d("x2", x2).str("family", fam));
	hash_param(x);
	hash_param(a);
	Branch b0 = tick_snapshot();
	double Q  = call_Q(x, a);
	Branch b1 = tick_snapshot();
	double P  = call_P(x, a);
	bool ser = b1.ser > b0.ser, cf = b1.cf > b0.cf, quad = b1.quad > b0.quad;
	const bool big = a > 100.0;
	const double tol = big ? 1e-3 : 1e-12;
	ld qr = Qref(x, a), pr = Pref(x, a);
	auto det = [&] { return J().d("Q", Q).d("P", P).d("Qref", (double) qr).d("Pref", (double) pr).str("branch", quad ? "quadrature" : cf ? "continued-fraction" : ser ? "series" : "x==0"); };
	require("pq-range-0-1", Q >= 0 && Q <= 1 && P >= 0 && P <= 1, det);
	judge("pq-sum-to-one", std::fabs((P + Q) - 1.0), 4 * EPS, det);
	if(big)
	{
		judge("q-accuracy-1e-3-a>100", (double) fabsl((ld) Q - qr), tol, det);
		judge("p-accuracy-1e-3-a>100", (double) fabsl((ld) P - pr), tol, det);
	}
	else
	{
		judge("q-accuracy-1e-12-a<=100", (double) fabsl((ld) Q - qr), tol, det);
		judge("p-accuracy-1e-12-a<=100", (double) fabsl((ld) P - pr), tol, det);
	}
	if(x2 > x && x2 <= x_max(a))
	{
		double Q2 = call_Q(x2, a), P2 = call_P(x2, a);
		auto det2 = [&] { return J().d("Q(x)", Q).d("Q(x2)", Q2).d("P(x)", P).d("P(x2)", P2); };
		judge("pq-monotone-in-x", std::max(Q2 - Q, P - P2), 2 * tol, det2);
		require("pq-range-0-1", Q2 >= 0 && Q2 <= 1 && P2 >= 0 && P2 <= 1, det2);
	}
	ld lg = lgammal((ld) a);
	if(lg < 700 && a > 1e-300)
	{
		double U, L, G;
		{
			BudgetGuard g(STEP_BUDGET);
			U = Upper_Incomplete_Gamma(x, a);
			L = Lower_Incomplete_Gamma(x, a);
			G = Gamma(a);
		}
		double S = 64 * EPS * (1 + (double) fabsl(lg));
		auto det3 = [&] { return J().d("Upper", U).d("Lower", L).d("Gamma", G); };
		judge("upper-plus-lower-equals-gamma", std::fabs((U + L) - G) / G, S, det3);
		ld tg = tgammal((ld) a);
		judge("upper-lower-vs-reference", (double) (std::max(fabsl((ld) U - tg * qr), fabsl((ld) L - tg * pr)) / tg), tol + S, det3);
	}
	if(cf || quad || std::fabs(x - (a + 1)) <= 1 || std::fabs(a - 100) <= 1)
		mark_nontrivial();
	sample(det());
}

static void case_pq_random(Rng& rng, uint64_t)
{
	double a, x;
	const char* fam;
	int f = (int) rng.below(20);
	auto central = [&](double aa, double width) { return std::max(0.0, aa + rng.normal() * width * std::sqrt(aa)); };
	if(f < 4)
	{
		fam = "whole-range a<=100";
		a	= rng.loguni(1e-6, 100.0);
		x	= rng.uni(0, x_max(a));
	}
	else if(f < 6)
	{
		fam = "central a<=100";
		a	= rng.loguni(1e-3, 100.0);
		x	= central(a, 3);
	}
	else if(f < 8)
	{
		fam = "switch x=a+1";
		a	= rng.coin() ? rng.loguni(1e-3, 100.0) : rng.uni(0, 100.0);
		if(a <= 0)
			a = 1;
		std::vector<double> ds = {0, 1e-15, 1e-12, 1e-9, 1e-6, 1e-3, 0.3, 1.0};
		double d = rng.pick(ds) * rng.sign() * (rng.coin() ? 1.0 : rng.u01());
		x		 = a + 1.0 + d;
		if(rng.coin(0.15))
			x = rng.coin() ? sp::next_up(a + 1.0) : sp::next_down(a + 1.0);
	}
	else if(f == 8)
	{
		fam = "switch a=100";
		std::vector<double> ds = {0, 1e-13, 1e-9, 1e-6, 1e-3, 1.0};
		a = 100.0 + rng.pick(ds) * rng.sign() * (rng.coin() ? 1.0 : rng.u01());
		if(rng.coin(0.2))
			a = rng.coin() ? sp::next_up(100.0) : sp::next_down(100.0);
		x = rng.coin(0.7) ? central(a, 2.5) : (rng.coin() ? a + 1 + rng.mag(1e-9, 1) : rng.uni(0, x_max(a)));
	}
	else if(f == 9)
	{
		fam = "x to zero";
		a	= rng.loguni(1e-6, 1e4);
		x	= rng.coin(0.7) ? a * std::pow(10.0, -rng.uni(0, 12)) : rng.loguni(1e-300, 1e-3);
		if(rng.coin(0.03))
			x = 0.0;
	}
	else if(f < 14)
	{
		fam = "central a>100";
		a	= rng.loguni(100.0, 1e4);
		if(a <= 100)
			a = 100.5;
		x = central(a - 1, 3);
		if(rng.coin(0.1))
			x = (a - 1) + rng.mag(1e-12, 1e-2);	  // both sides of the peak, where the quadrature changes the integration interval
	}
	else if(f < 16)
	{
		fam = "whole-range a>100";
		a	= rng.uni(100.0, 1e4);
		if(a <= 100)
			a = 100.5;
		x = rng.uni(0, x_max(a));
	}
	else if(f == 16)
	{
		fam = "quadrature window ends a>100";
		a	= rng.loguni(100.0, 1e4);
		if(a <= 100)
			a = 100.5;
		x = std::max(0.0, (a - 1) + rng.sign() * 10 * std::sqrt(a) + rng.mag(1e-9, 3.0));
		// exactly at an end of the window, where the remaining quadrature interval has no length (seeded change C06-r6m1: 0/0 in the weights
		// there); hit on round grids whenever sqrt(a) is exact
		if(rng.coin(0.35))
		{
			if(rng.coin())
			{
				double r = (double) rng.irange(11, 100) * (rng.coin() ? 1.0 : 0.5);
				a		 = r * r;
			}
			double sg = rng.sign();
			x		  = std::max(0.0, (a - 1.0) + sg * 10 * std::sqrt(a));
			if(rng.coin(0.3))
				x = (rng.coin() || x == 0) ? sp::next_up(x) : sp::next_down(x);
		}
	}
	else if(f == 17)
	{
		fam = "integer and half-integer a";
		a	= rng.irange(1, 501) + (rng.coin() ? 0.0 : 0.5);
		if(rng.coin(0.2))
			a = 0.5;
		x = rng.coin(0.8) ? central(a, 3) : rng.uni(0, x_max(a));
	}
	else if(f == 18)
	{
		fam = "tiny a";
		a	= rng.coin() ? rng.loguni(1e-6, 1e-2) : rng.loguni(1e-300, 1e-6);	  // "all a in (0, 1e4]": P is 1 - O(a), Q = O(a) (defect D30: P > 1, Q < 0)
		x	= rng.coin(0.2) ? rng.loguni(1e-300, 1e-12) : rng.loguni(1e-12, 40.0);
		// subnormal x: P(x,a) ~ x^a is far from 0 for small a (seeded change C06-r6m3 treated them as x = 0)
		if(rng.coin(0.15))
		{
			a = rng.loguni(1e-7, 0.05);
			x = rng.coin(0.2) ? 4.9406564584124654e-324 * (double) rng.irange(1, 1000) : rng.loguni(1e-323, 2.2250738585072014e-308);
		}
	}
	else
	{
		fam = "a in (99,101)";
		a	= rng.uni(99.0, 101.0);
		x	= central(a, 3);
	}
	if(x > x_max(a))
		x = x_max(a);
	std::vector<double> steps = {0, 1e-12, 1e-6, 1e-3, 0.1, 1.0};
	double st  = rng.pick(steps);
	double x2  = (st == 0) ? sp::next_up(x) : x + st * rng.u01() * (1 + std::sqrt(a));
	if(x2 <= x)
		x2 = sp::next_up(x);
	judge_pq(x, a, x2, fam);
}

// P and Q asked for in a fresh process whose FIRST incomplete-gamma call sits exactly at an end of the a > 100 quadrature window (or at x = 0, or is an
// ordinary one): whatever that first call leaves behind - a rule cached while the interval had no length - the following calls must not see it (seeded
// change C06-r7m1; at most seeds the long-lived workers meet an ordinary a > 100 argument first, which hides it)
static void case_pq_fresh_process(Rng& rng, uint64_t index)
{
	static const double AS[] = {121.0, 144.0, 400.0, 900.0, 2500.0, 10000.0, 110.25};
	double a  = (index % 3 == 2) ? rng.uni(100.5, 5000.0) : AS[(index / 3) % 7];
	int first = (int) (index % 4);	 // 0 upper window end, 1 lower window end, 2 x = 0, 3 an ordinary argument
	double xf = first == 0 ? (a - 1.0) + 10 * std::sqrt(a) : first == 1 ? std::max(0.0, (a - 1.0) - 10 * std::sqrt(a)) : first == 2 ? 0.0 : a;
	std::vector<std::pair<double, double>> q;
	q.push_back({xf, a});
	for(int i = 0; i < 6; i++)
	{
		double a2 = rng.coin(0.6) ? a : rng.uni(100.5, 5000.0);
		q.push_back({std::max(0.0, a2 - 1 + rng.normal() * 2 * std::sqrt(a2)), a2});
	}
	set_params(J().d("first_x", xf).d("a", a).i("first_call_kind", first));
	hash_param(xf), hash_param(a), hash_param_u(index);
	mark_nontrivial();
	Outcome o = run_isolated([&](const std::function<void(const std::string&)>& send) {
		std::vector<double> v;
		for(auto& e : q)
			v.push_back(GammaQ(e.first, e.second)), v.push_back(GammaP(e.first, e.second));
		send(std::string((const char*) v.data(), v.size() * sizeof(double)));
	});
	if(o.kind == WATCHDOG)
	{
		inconclusive("watchdog on a fresh-process incomplete gamma history");
		return;
	}
	if(!expect_return("pq-fresh-process-returns", o))
		return;
	if(o.payload.size() != 2 * q.size() * sizeof(double))
	{
		require("pq-fresh-process-returns", false, [&] { return J().i("payload_bytes", (long long) o.payload.size()); }, "pq-payload-size");
		return;
	}
	std::vector<double> v(2 * q.size());
	memcpy(v.data(), o.payload.data(), o.payload.size());
	for(size_t i = 0; i < q.size(); i++)
	{
		ld qr = Qref(q[i].first, q[i].second), pr = Pref(q[i].first, q[i].second);
		auto det = [&] { return J().i("call", (long long) i).d("x", q[i].first).d("a", q[i].second).d("Q", v[2 * i]).d("P", v[2 * i + 1]).d("Qref", (double) qr).d("Pref", (double) pr).d("first_x", xf); };
		judge("q-accuracy-1e-3-a>100", (double) fabsl((ld) v[2 * i] - qr), 1e-3, det);
		judge("p-accuracy-1e-3-a>100", (double) fabsl((ld) v[2 * i + 1] - pr), 1e-3, det);
	}
}

// deterministic lattice + the witnesses of the defects repaired in the gamma family
static std::vector<std::pair<double, double>> grid_points()
{
	std::vector<std::pair<double, double>> g;
	// witnesses (x,a): D19 (quadrature accepted a crude estimate), D10 (continued fraction), D11 (negative Q)
	g.push_back({208.89, 196.92});
	g.push_back({1e-5, 1e-300});   // D30: P = 1.0000000000000488, Q = -4.9e-14 before the fix
	g.push_back({0.5, 1e-15});
	g.push_back({0.1, 1e-30});
	g.push_back({2780.4, 2488.1});
	g.push_back({3.0, 2.0});
	g.push_back({12.0, 3.5});
	g.push_back({101.5, 100.0});
	g.push_back({60.0, 40.0});
	g.push_back({150.0, 120.0});
	g.push_back({300.0, 120.0});
	std::vector<double> as = {1e-6, 1e-3, 0.1, 0.5, 1.0, 1.5, 2.0, 3.0, 5.0, 10.0, 20.0, 30.0, 50.0, 75.0, 99.0, sp::next_down(100.0), 100.0, sp::next_up(100.0), 100.000001, 101.0, 120.0, 150.0, 200.0, 300.0, 500.0, 700.0, 1000.0, 2000.0, 3000.0, 5000.0, 7000.0, 1e4};
	for(double a : as)
	{
		double s = std::sqrt(a);
		for(double t : {-12.0, -9.0, -7.0, -5.0, -4.0, -3.0, -2.5, -2.0, -1.5, -1.0, -0.75, -0.5, -0.25, 0.0, 0.25, 0.5, 0.75, 1.0, 1.5, 2.0, 2.5, 3.0, 4.0, 5.0, 7.0, 9.0, 12.0, 20.0, 39.0})
		{
			double x = a + t * s;
			if(x >= 0)
				g.push_back({x, a});
		}
		g.push_back({0.0, a});
		g.push_back({a + 1.0, a});
		g.push_back({sp::next_down(a + 1.0), a});
		g.push_back({sp::next_up(a + 1.0), a});
		g.push_back({a + 1.0 - 1e-3, a});
		g.push_back({a + 1.0 + 1e-3, a});
		g.push_back({a + 1.0 - 1e-9, a});
		g.push_back({a + 1.0 + 1e-9, a});
		g.push_back({x_max(a), a});
		g.push_back({1e-300, a});
		g.push_back({1e-310, a});
		g.push_back({4.9406564584124654e-324, a});
		g.push_back({a * 1e-6, a});
		if(a > 100)
		{
			g.push_back({(a - 1.0) + 10 * s, a});
			g.push_back({std::max(0.0, (a - 1.0) - 10 * s), a});
			g.push_back({a - 1.0, a});
		}
	}
	return g;
}
static std::vector<std::pair<double, double>> GRID;
static void case_pq_grid(Rng&, uint64_t index)
{
	double x = GRID[index].first, a = GRID[index].second;
	judge_pq(x, a, x + 1e-3 * (1 + std::sqrt(a)), index < 8 ? "witness" : "lattice");
}

// ------------------------------------------------------------------------------------------------------------------
// Inverses, judged with the reference P so that an error of P cannot hide an equal error of its inverse
static void case_inverse(Rng& rng, uint64_t)
{
	double a, p;
	int fa = (int) rng.below(12);
	if(fa < 4)
		a = rng.loguni(1e-3, 100.0);
	else if(fa < 6)
		a = rng.loguni(100.0, 1e4);
	else if(fa == 6)
		a = 1.0 + rng.mag(1e-12, 0.5) * (rng.coin() ? 1 : 1e-3);	 // both sides of the initial-guess switch a=1
	else if(fa == 7)
		a = 100.0 + rng.mag(1e-9, 1.0);
	else if(fa == 8)
		a = rng.irange(1, 501) + (rng.coin() ? 0.0 : 0.5);
	else if(fa == 9)
		a = rng.loguni(1e-6, 1.0);
	else if(fa == 10)
		a = rng.uni(0.0, 100.0);
	else
		a = rng.uni(100.0, 1e4);
	if(!(a > 0))
		a = 0.5;
	if(a > 1e4)
		a = 1e4;
	int fp = (int) rng.below(8);
	if(fp < 3)
		p = rng.u01();
	else if(fp == 3)
		p = std::pow(10.0, -rng.uni(0, 12));
	else if(fp == 4)
		p = 1.0 - std::pow(10.0, -rng.uni(0, 12));
	else if(fp == 5)
		p = 0.5 + rng.mag(1e-16, 1e-2);
	else if(fp == 6 && a < 1)
		p = (1.0 - a * (0.253 + a * 0.12)) * (1 + rng.mag(1e-15, 1e-2));	// the switch inside initial guess 2
	else
		p = rng.uni(0.01, 0.99);
	const double lo = 1e-12, hi = 1.0 - 1e-12;
	bool useQ = rng.coin(0.3);
	set_params(J().d("p", p).d("a", a).str("function", useQ ? "Inv_GammaQ" : "Inv_GammaP"));
	hash_param(p);
	hash_param(a);
	hash_param_u(useQ);
	const bool big = a > 100.0;
	const char* cl = useQ ? (big ? "inv-gammaq-residual-1e-3-a>100" : "inv-gammaq-residual-1e-7-a<=100") : (big ? "inv-gammap-residual-1e-3-a>100" : "inv-gammap-residual-1e-7-a<=100");
	if(!(p > lo && p < hi))
	{
		count_outside(cl);
		return;
	}
	// exact solution (long double); if it is not representable as a normal double the request has no answer to give
	ld xr = useQ ? boost::math::gamma_q_inv((ld) a, (ld) p, sp::boost_pol) : boost::math::gamma_p_inv((ld) a, (ld) p, sp::boost_pol);
	if(!(xr > 1e-290L))
	{
		count_outside(cl);
		return;
	}
	Branch b0 = tick_snapshot();
	double x;
	{
		BudgetGuard g(12 * STEP_BUDGET);
		x = useQ ? Inv_GammaQ(p, a) : Inv_GammaP(p, a);
	}
	Branch b1 = tick_snapshot();
	const double tol = big ? 1e-3 : 1e-7;
	ld back = (x >= 0) ? (useQ ? Qref(x, a) : Pref(x, a)) : (ld) NAN;
	judge(cl, (double) fabsl(back - (ld) p), tol, [&] { return J().d("x", x).d("reference_P_or_Q_at_x", (double) back).d("exact_x", (double) xr); });
	require("inverse-is-finite-nonnegative", std::isfinite(x) && x >= 0, [&] { return J().d("x", x); });
	if(b1.cf > b0.cf || b1.quad > b0.quad || std::fabs(a - 1) <= 1 || std::fabs(a - 100) <= 1)
		mark_nontrivial();
	sample(J().d("x", x).d("exact_x", (double) xr));
}

static void setup()
{
	GRID = grid_points();
	add_generator("gammaln", ctx().count(40000, 2000000), case_gammaln);
	add_generator("factorial_orders", ctx().thorough ? 240 : 24, case_factorial);
	add_generator("binomial_rows", NBIN + 1, case_binomial);
	add_generator("binomial_histories", ctx().count(150, 3000), case_binomial_history);
	add_generator("pq_fresh_processes", ctx().count(84, 2000), case_pq_fresh_process);
	add_generator("pq_grid", GRID.size(), case_pq_grid);
	add_generator("pq_random", ctx().count(200000, 6000000), case_pq_random);
	add_generator("inverse", ctx().count(40000, 1000000), case_inverse);
}
VERIF_MAIN("C06", setup)
