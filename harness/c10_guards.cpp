// C10 - meaningless requests stop the program with a diagnostic; valid ones never do.
// Every request runs alone in a forked child (run_isolated).  Rejected side: exit status EXIT_FAILURE,
// non-empty diagnostic, nothing returned, no sanitizer report.  Accepted side: returns normally.
#include "verif.hpp"

#include <fstream>
#include <limits>
#include <random>

#include "libphysica/Integration.hpp"
#include "libphysica/Linear_Algebra.hpp"
#include "libphysica/Utilities.hpp"
#include "libphysica/List_Manipulations.hpp"
#include "libphysica/Natural_Units.hpp"
#include "libphysica/Numerics.hpp"
#include "libphysica/Special_Functions.hpp"
#include "libphysica/Statistics.hpp"

using namespace libphysica;
using namespace vf;

struct Req
{
	std::string name;
	bool accept;
	std::function<double()> fn;
};
static std::vector<Req> cat;
static void A(const std::string& n, std::function<double()> f) { cat.push_back({n, true, f}); }
static void R(const std::string& n, std::function<double()> f) { cat.push_back({n, false, f}); }

static Vector vec(unsigned n)
{
	std::vector<double> c(n);
	for(unsigned i = 0; i < n; i++)
		c[i] = 1.0 + 0.5 * i;
	return Vector(c);
}
static Matrix mat(unsigned r, unsigned c)
{
	std::vector<std::vector<double>> e(r, std::vector<double>(c));
	for(unsigned i = 0; i < r; i++)
		for(unsigned j = 0; j < c; j++)
			e[i][j] = 1.0 + i * 0.75 - j * 0.5 + ((i == j) ? 3.0 : 0.0);
	return Matrix(e);
}
static double msum(const Matrix& M)
{
	double s = 0;
	for(unsigned i = 0; i < M.Rows(); i++)
		for(unsigned j = 0; j < M.Columns(); j++)
			s += M[i][j];
	return s;
}
static double vsum(const Vector& v)
{
	double s = 0;
	for(unsigned i = 0; i < v.Size(); i++)
		s += v[i];
	return s;
}
static std::vector<double> xs(int n, double x0 = 1.0, double h = 0.5)
{
	std::vector<double> x(n);
	for(int i = 0; i < n; i++)
		x[i] = x0 + h * i * (1.0 + 0.1 * i);
	return x;
}
static std::vector<double> ys(int n)
{
	std::vector<double> y(n);
	for(int i = 0; i < n; i++)
		y[i] = std::sin(1.3 * i) + 0.1 * i;
	return y;
}
static std::string tmpdir;

static void shape_pair_requests(const std::string& what, std::function<double(Matrix&, Matrix&)> op)
{
	struct S
	{
		unsigned r, c, r2, c2;
		bool ok;
		const char* tag;
	};
	std::vector<S> shapes = {{2, 3, 2, 3, true, "equal-nonsquare"}, {3, 3, 3, 3, true, "equal-square"}, {1, 4, 1, 4, true, "equal-row"}, {4, 1, 4, 1, true, "equal-column"}, {2, 3, 3, 2, false, "transposed"}, {2, 3, 2, 4, false, "columns+1"}, {2, 3, 2, 2, false, "columns-1"}, {2, 3, 3, 3, false, "rows+1"}, {2, 3, 1, 3, false, "rows-1"}, {3, 3, 2, 2, false, "square-smaller"}, {1, 4, 4, 1, false, "row-vs-column"}};
	for(auto s : shapes)
	{
		auto f = [=]() {
			Matrix a = mat(s.r, s.c), b = mat(s.r2, s.c2);
			return op(a, b);
		};
		(s.ok ? A : R)("Matrix::" + what + " " + s.tag, f);
	}
}

static void build_catalogue()
{
	const unsigned UMAX = std::numeric_limits<unsigned>::max();
	// --- Vector index
	for(unsigned n : {1u, 3u, 7u})
	{
		A("Vector[] size-1 n=" + std::to_string(n), [=] { Vector v = vec(n); return v[n - 1]; });
		A("Vector[] const size-1 n=" + std::to_string(n), [=] { const Vector v = vec(n); return v[n - 1]; });
		for(unsigned idx : {n, n + 1, UMAX})
		{
			R("Vector[] idx=" + std::to_string(idx) + " n=" + std::to_string(n), [=] { Vector v = vec(n); return v[idx]; });
			R("Vector[] const idx=" + std::to_string(idx) + " n=" + std::to_string(n), [=] { const Vector v = vec(n); return v[idx]; });
			R("Vector[] write idx=" + std::to_string(idx) + " n=" + std::to_string(n), [=] { Vector v = vec(n); v[idx] = 1.0; return v[0]; });
		}
	}
	R("Vector[] on empty vector", [] { Vector v(0); return v[0]; });
	// --- Matrix row index and row/column helpers
	for(auto rc : std::vector<std::pair<unsigned, unsigned>> {{2, 3}, {3, 2}, {1, 1}})
	{
		unsigned r = rc.first, c = rc.second;
		std::string tag = " " + std::to_string(r) + "x" + std::to_string(c);
		A("Matrix[] rows-1" + tag, [=] { Matrix M = mat(r, c); return M[r - 1][c - 1]; });
		A("Matrix[] const rows-1" + tag, [=] { const Matrix M = mat(r, c); return M[r - 1][0]; });
		A("Return_Row rows-1" + tag, [=] { return vsum(mat(r, c).Return_Row(r - 1)); });
		A("Return_Column columns-1" + tag, [=] { return vsum(mat(r, c).Return_Column(c - 1)); });
		A("Delete_Row rows-1" + tag, [=] { Matrix M = mat(r, c); M.Delete_Row(r - 1); return (double) M.Rows(); });
		A("Delete_Column columns-1" + tag, [=] { Matrix M = mat(r, c); M.Delete_Column(c - 1); return (double) M.Columns(); });
		for(unsigned d : {0u, 1u, UMAX})
		{
			unsigned ir = (d == UMAX) ? UMAX : r + d, ic = (d == UMAX) ? UMAX : c + d;
			std::string t2 = tag + " idx=" + std::to_string(ir) + "/" + std::to_string(ic);
			R("Matrix[] row" + t2, [=] { Matrix M = mat(r, c); return M[ir][0]; });
			R("Matrix[] const row" + t2, [=] { const Matrix M = mat(r, c); return M[ir][0]; });
			R("Return_Row" + t2, [=] { return vsum(mat(r, c).Return_Row(ir)); });
			R("Return_Column" + t2, [=] { return vsum(mat(r, c).Return_Column(ic)); });
			R("Delete_Row" + t2, [=] { Matrix M = mat(r, c); M.Delete_Row(ir); return (double) M.Rows(); });
			R("Delete_Column" + t2, [=] { Matrix M = mat(r, c); M.Delete_Column(ic); return (double) M.Columns(); });
		}
		R("Sub_Matrix row=-1" + tag, [=] { return msum(mat(r, c).Sub_Matrix(-1, 0)); });
		R("Sub_Matrix column=columns" + tag, [=] { return msum(mat(r, c).Sub_Matrix(0, (int) c)); });
	}
	A("Sub_Matrix valid", [] { return msum(mat(3, 4).Sub_Matrix(2, 3)); });
	// --- Vector binary / compound
	for(auto ab : std::vector<std::pair<unsigned, unsigned>> {{3, 3}, {1, 1}, {5, 5}, {3, 4}, {4, 3}, {3, 2}, {1, 2}, {0, 1}})
	{
		unsigned a = ab.first, b = ab.second;
		bool ok			= (a == b);
		std::string tag = " " + std::to_string(a) + "," + std::to_string(b);
		auto reg		= ok ? A : R;
		reg("Vector +" + tag, [=] { return vsum(vec(a) + vec(b)); });
		reg("Vector -" + tag, [=] { return vsum(vec(a) - vec(b)); });
		reg("Vector +=" + tag, [=] { Vector v = vec(a); v += vec(b); return vsum(v); });
		reg("Vector -=" + tag, [=] { Vector v = vec(a); v -= vec(b); return vsum(v); });
		reg("Vector Dot" + tag, [=] { return vec(a).Dot(vec(b)); });
		reg("Vector *" + tag, [=] { return vec(a) * vec(b); });
	}
	for(auto ab : std::vector<std::pair<unsigned, unsigned>> {{3, 3}, {2, 2}, {3, 4}, {4, 3}, {3, 2}, {2, 3}, {4, 4}, {1, 3}})
	{
		unsigned a = ab.first, b = ab.second;
		(a == 3 && b == 3 ? A : R)("Vector Cross " + std::to_string(a) + "," + std::to_string(b), [=] { return vsum(vec(a).Cross(vec(b))); });
	}
	// --- Matrix binary / compound
	shape_pair_requests("Plus", [](Matrix& a, Matrix& b) { return msum(a.Plus(b)); });
	shape_pair_requests("Minus", [](Matrix& a, Matrix& b) { return msum(a.Minus(b)); });
	shape_pair_requests("operator+", [](Matrix& a, Matrix& b) { return msum(a + b); });
	shape_pair_requests("operator-", [](Matrix& a, Matrix& b) { return msum(a - b); });
	shape_pair_requests("operator+=", [](Matrix& a, Matrix& b) { a += b; return msum(a); });
	shape_pair_requests("operator-=", [](Matrix& a, Matrix& b) { a -= b; return msum(a); });
	struct P3
	{
		unsigned m, n, k, l;
	};
	for(P3 p : std::vector<P3> {{2, 3, 3, 4}, {3, 3, 3, 3}, {1, 5, 5, 1}, {4, 1, 1, 4}, {2, 3, 2, 3}, {2, 3, 4, 2}, {2, 3, 2, 2}, {3, 2, 3, 2}, {2, 2, 3, 3}})
	{
		bool ok			= (p.n == p.k);
		std::string tag = " (" + std::to_string(p.m) + "x" + std::to_string(p.n) + ")(" + std::to_string(p.k) + "x" + std::to_string(p.l) + ")";
		(ok ? A : R)("Matrix::Product" + tag, [=] { return msum(mat(p.m, p.n).Product(mat(p.k, p.l))); });
		(ok ? A : R)("Matrix::operator*" + tag, [=] { Matrix a = mat(p.m, p.n); return msum(a * mat(p.k, p.l)); });
	}
	for(auto t : std::vector<std::tuple<unsigned, unsigned, unsigned>> {{2, 3, 3}, {3, 2, 2}, {1, 1, 1}, {2, 3, 2}, {2, 3, 4}, {3, 2, 3}, {3, 3, 2}})
	{
		unsigned r = std::get<0>(t), c = std::get<1>(t), n = std::get<2>(t);
		std::string tag = " (" + std::to_string(r) + "x" + std::to_string(c) + ")," + std::to_string(n);
		(n == c ? A : R)("Matrix*Vector" + tag, [=] { return vsum(mat(r, c).Product(vec(n))); });
		(n == c ? A : R)("Matrix operator* Vector" + tag, [=] { Matrix M = mat(r, c); return vsum(M * vec(n)); });
		(n == r ? A : R)("Vector*Matrix" + tag, [=] { return vsum(vec(n) * mat(r, c)); });
	}
	A("Outer_Vector_Product 2,5", [] { return msum(Outer_Vector_Product(vec(2), vec(5))); });
	// guards after a modifier changed the shape: what Rows()/Columns() report and what the storage holds must agree (Resize, Assign, Delete_Row/Column),
	// for the accepted side (every entry of the new shape is readable and writable - the sanitizer build sees an overrun) and the rejected side
	for(int nr : {1, 2, 4})
		for(int nc : {1, 3, 6})
		{
			std::string tg = " after Resize(3x3 -> " + std::to_string(nr) + "x" + std::to_string(nc) + ")";
			A("Matrix[] last entry" + tg, [=] { Matrix M = mat(3, 3); M.Resize(nr, nc); M[nr - 1][nc - 1] = 2.5; return msum(M) + M[nr - 1][nc - 1] + M[0][nc - 1]; });
			A("Matrix * Vector(columns)" + tg, [=] { Matrix M = mat(3, 3); M.Resize(nr, nc); Vector v(nc, 1.0); return (M * v)[nr - 1]; });
			A("Return_Row + Vector(columns)" + tg, [=] { Matrix M = mat(3, 3); M.Resize(nr, nc); Vector v(nc, 1.0); return (M.Return_Row(0) + v)[nc - 1]; });
			A("Return_Column + Vector(rows)" + tg, [=] { Matrix M = mat(3, 3); M.Resize(nr, nc); Vector v(nr, 1.0); return (M.Return_Column(nc - 1) + v)[nr - 1]; });
			A("Transpose" + tg, [=] { Matrix M = mat(3, 3); M.Resize(nr, nc); Matrix T = M.Transpose(); return T[nc - 1][nr - 1] + msum(T); });
			A("M + same shape" + tg, [=] { Matrix M = mat(3, 3); M.Resize(nr, nc); return msum(M + mat(nr, nc)); });
			if(nc != 3)
			{
				R("Return_Row + Vector(old columns)" + tg, [=] { Matrix M = mat(3, 3); M.Resize(nr, nc); Vector v(3, 1.0); return (M.Return_Row(0) + v)[0]; });
				R("Matrix * Vector(old columns)" + tg, [=] { Matrix M = mat(3, 3); M.Resize(nr, nc); Vector v(3, 1.0); return (M * v)[0]; });
			}
			if(nr != 3 || nc != 3)
				R("M + old shape" + tg, [=] { Matrix M = mat(3, 3); M.Resize(nr, nc); return msum(M + mat(3, 3)); });
			R("Matrix[] row index rows" + tg, [=] { Matrix M = mat(3, 3); M.Resize(nr, nc); return M[nr][0]; });
			if(nr == nc && nr > 1)
				A("Determinant / Trace" + tg, [=] { Matrix M = mat(3, 3); M.Resize(nr, nc); for(int i = 0; i < nr; i++) M[i][i] += 7.0; return M.Determinant() + M.Trace(); });
			else if(nr != nc)
				R("Trace of non-square" + tg, [=] { Matrix M = mat(3, 3); M.Resize(nr, nc); return M.Trace(); });
		}
	// matrices without rows or columns (defects D32/D33, found by the fuzzing step): the index guard must hold for them too
	A("Matrix from an empty list is the 0x0 matrix", [] { Matrix M(std::vector<std::vector<double>> {}); return (double) (M.Rows() + M.Columns()); });
	R("Matrix(0,3)[0]", [] { Matrix M(0, 3); return M[0][0]; });
	R("Matrix(0,3)[0] const", [] { const Matrix M(0, 3); return M[0].size() ? M[0][0] : 1.0; });
	R("Matrix[] after Resize(0,2)", [] { Matrix M = mat(3, 3); M.Resize(0, 2); M[0][0] = 1.0; return M[0][0]; });
	R("Matrix[] after deleting the only row", [] { Matrix M = mat(1, 3); M.Delete_Row(0); return M[0][0]; });
	R("Matrix from an empty list [0]", [] { Matrix M(std::vector<std::vector<double>> {}); return M[0][0]; });
	A("Vector(0) has size 0", [] { Vector v(0); return (double) v.Size(); });
	R("Vector(0)[0]", [] { Vector v(0); return v[0]; });
	// valid tables and matrices at the edge of the double format: abscissae that are neighbouring doubles or a subnormal distance apart are strictly
	// increasing; a matrix that is regular by one unit in the last place is regular
	A("Interpolation with abscissae one ulp apart", [] { Interpolation I(std::vector<double> {1.0, 1.0 + 0x1p-52, 2.0, 3.0}, std::vector<double> {1.0, 1.5, 2.0, 1.0}); return I(2.5); });
	A("Interpolation with abscissae around 2^53", [] { Interpolation I(std::vector<double> {0x1p53, 0x1p53 + 2, 0x1p53 + 4, 0x1p53 + 8}, std::vector<double> {1.0, 1.5, 2.0, 1.0}); return I(0x1p53 + 6); });
	A("Interpolation with a subnormal first spacing", [] { Interpolation I(std::vector<double> {0.0, 4.9406564584124654e-324, 1.0, 2.0, 3.0}, std::vector<double> {1.0, 1.0, 2.0, 1.0, 0.5}); return I(2.5); });
	A("Interpolation with spacing 1e-310", [] { Interpolation I(std::vector<double> {-2.0, -1.0, 0.0, 1e-310, 1.0, 2.0}, std::vector<double> {1.0, 1.0, 2.0, 2.0, 0.5, 0.1}); return I(1.5); });
	A("Interpolation_2D with grid lines one ulp apart", [] {
		std::vector<double> x = {1.0, 1.0 + 0x1p-52, 2.0}, y = {0.0, 1.0, 2.0};
		Interpolation_2D I(x, y, std::vector<std::vector<double>>(3, std::vector<double> {1.0, 2.0, 3.0}));
		return I(1.5, 1.5);
	});
	A("Inverse of a matrix that is regular by one ulp", [] { Matrix M(std::vector<std::vector<double>> {{1.0, 1.0}, {1.0, 1.0 + 0x1p-52}}); return msum(M.Inverse()); });
	A("Inverse of a scaled, row-permuted matrix that is regular by one ulp", [] { Matrix M(std::vector<std::vector<double>> {{3e5, 3e5 * (1.0 + 0x1p-52)}, {3e-7, 3e-7}}); return msum(M.Inverse()); });
	A("Inverse of a matrix with a subnormal determinant", [] { Matrix M(std::vector<std::vector<double>> {{2e-160, 1e-160}, {1e-160, 3e-160}}); return msum(M.Inverse()); });
	A("Determinant after Resize(5x5 -> 4x4)", [] { Matrix M = mat(5, 5); for(int i = 0; i < 5; i++) M[i][i] += 9.0; M.Resize(4, 4); return M.Determinant(); });
	A("Inverse after Resize(5x5 -> 3x3)", [] { Matrix M = mat(5, 5); for(int i = 0; i < 5; i++) M[i][i] += 9.0; M.Resize(3, 3); return msum(M.Inverse()); });
	A("Vector ops after Resize(3 -> 5)", [] { Vector v(3, 1.0); v.Resize(5); v[4] = 2.0; Vector w(5, 1.0); return (v + w)[4] + v.Dot(w); });
	R("Vector + old size after Resize(3 -> 5)", [] { Vector v(3, 1.0); v.Resize(5); Vector w(3, 1.0); return (v + w)[0]; });
	// an object that was the source of std::move is still a Vector / Matrix the caller may use: the classes copy, so it keeps its contents - and whatever a
	// class does with moves, the guards must go on agreeing with the storage (seeded change C10-r7m1: a move constructor that left the size behind)
	A("Vector used after being the source of a move construction", [] { Vector a(4, 1.0); Vector b(std::move(a)); Vector c(a.Size(), 2.0); double r = b[3]; if(a.Size() > 0) r += a[a.Size() - 1] + a.Dot(c) + (a + c)[a.Size() - 1]; a += c; return r; });
	A("Vector used after being the source of a move assignment", [] { Vector a(5, 1.0), b; b = std::move(a); Vector c(a.Size(), 2.0); double r = b[4]; if(a.Size() > 0) r += a[a.Size() - 1] + a.Dot(c) + (a - c).Norm(); return r; });
	A("Matrix used after being the source of a move construction", [] { Matrix a = mat(3, 3); Matrix b(std::move(a)); double r = msum(b); if(a.Rows() > 0 && a.Columns() > 0) r += a[a.Rows() - 1][a.Columns() - 1] + msum(a.Transpose()) + a.Trace(); return r; });
	A("Matrix used after being the source of a move assignment", [] { Matrix a = mat(2, 3), b; b = std::move(a); double r = msum(b); if(a.Rows() > 0 && a.Columns() > 0) r += a[a.Rows() - 1][a.Columns() - 1] + msum(a.Transpose()); return r; });
	A("Vector assignment of another size", [] { Vector v; v = Vector(5, 1.0); Vector w(5, 2.0); return (v + w)[4] + (double) v.Size(); });
	R("Vector index size after assignment of a smaller vector", [] { Vector v(5, 1.0); v = Vector(2, 1.0); return v[2]; });
	A("Matrix ctor regular rows", [] { return msum(Matrix(std::vector<std::vector<double>> {{1, 2, 3}, {4, 5, 6}})); });
	R("Matrix ctor ragged rows (short)", [] { return msum(Matrix(std::vector<std::vector<double>> {{1, 2, 3}, {4, 5}})); });
	R("Matrix ctor ragged rows (long)", [] { return msum(Matrix(std::vector<std::vector<double>> {{1, 2}, {4, 5, 6}})); });
	A("Matrix block ctor valid", [] { return msum(Matrix(std::vector<std::vector<Matrix>> {{mat(2, 2), mat(2, 3)}, {mat(1, 2), mat(1, 3)}})); });
	R("Matrix block ctor column mismatch", [] { return msum(Matrix(std::vector<std::vector<Matrix>> {{mat(2, 2), mat(2, 3)}, {mat(1, 3), mat(1, 3)}})); });
	R("Matrix block ctor row mismatch", [] { return msum(Matrix(std::vector<std::vector<Matrix>> {{mat(2, 2), mat(3, 3)}, {mat(1, 2), mat(1, 3)}})); });
	// --- square-only operations
	for(auto rc : std::vector<std::pair<unsigned, unsigned>> {{1, 1}, {2, 2}, {3, 3}, {4, 4}, {2, 3}, {3, 2}, {1, 4}, {4, 1}})
	{
		unsigned r = rc.first, c = rc.second;
		std::string tag = " " + std::to_string(r) + "x" + std::to_string(c);
		(r == c ? A : R)("Trace" + tag, [=] { return mat(r, c).Trace(); });
		(r == c ? A : R)("Determinant" + tag, [=] { return mat(r, c).Determinant(); });
		(r == c ? A : R)("Inverse" + tag, [=] { return msum(mat(r, c).Inverse()); });
	}
	R("Inverse singular (duplicate rows)", [] { return msum(Matrix(std::vector<std::vector<double>> {{1, 2, 3}, {1, 2, 3}, {0, 1, 5}}).Inverse()); });
	R("Inverse singular (zero matrix)", [] { return msum(Matrix(2, 2, 0.0).Inverse()); });
	R("Inverse singular (rank 1, 2x2)", [] { return msum(Matrix(std::vector<std::vector<double>> {{2, 4}, {1, 2}}).Inverse()); });
	A("Inverse permutation matrix", [] { return msum(Matrix(std::vector<std::vector<double>> {{0, 1}, {1, 0}}).Inverse()); });
	A("Inverse cyclic permutation 3x3", [] { return msum(Matrix(std::vector<std::vector<double>> {{0, 0, 1}, {1, 0, 0}, {0, 1, 0}}).Inverse()); });
	A("Inverse zero leading entry", [] { return msum(Matrix(std::vector<std::vector<double>> {{0, 2, 1}, {1, 1, 0}, {3, 0, 1}}).Inverse()); });
	// --- Rotation_Matrix
	A("Rotation_Matrix dim=2", [] { return msum(Rotation_Matrix(0.3, 2)); });
	A("Rotation_Matrix dim=3 default axis", [] { return msum(Rotation_Matrix(0.3, 3)); });
	A("Rotation_Matrix dim=3 axis size 3", [] { return msum(Rotation_Matrix(0.3, 3, vec(3))); });
	for(unsigned n : {0u, 1u, 2u, 4u})
		R("Rotation_Matrix dim=3 axis size " + std::to_string(n), [=] { return msum(Rotation_Matrix(0.3, 3, vec(n))); });
	for(int d : {-1, 0, 1, 4, 5})
		R("Rotation_Matrix dim=" + std::to_string(d), [=] { return msum(Rotation_Matrix(0.3, d, vec(3))); });
	// --- Interpolation constructors
	for(int n : {0, 1, 2})
	{
		R("Interpolation ctor N=" + std::to_string(n), [=] { Interpolation I(xs(n), ys(n)); return I.domain.size() * 1.0; });
		R("Interpolation table ctor N=" + std::to_string(n), [=] {
			std::vector<std::vector<double>> t;
			for(int i = 0; i < n; i++)
				t.push_back({xs(n)[i], ys(n)[i]});
			Interpolation I(t);
			return I.domain.size() * 1.0;
		});
	}
	for(int n : {3, 4, 10})
	{
		A("Interpolation ctor N=" + std::to_string(n), [=] { Interpolation I(xs(n), ys(n)); return I(xs(n)[1]); });
		A("Interpolation ctor with units N=" + std::to_string(n), [=] { Interpolation I(xs(n), ys(n), 2.0, 3.0); return I(2.0 * xs(n)[1]); });
	}
	A("Interpolation default ctor", [] { Interpolation I; return I(0.5); });
	R("Interpolation ctor lengths 4 vs 3", [] { Interpolation I(xs(4), ys(3)); return I(1.1); });
	R("Interpolation ctor lengths 3 vs 4", [] { Interpolation I(xs(3), ys(4)); return I(1.1); });
	R("Interpolation ctor equal abscissae", [] { Interpolation I(std::vector<double> {1, 2, 2, 3}, ys(4)); return I(1.5); });
	R("Interpolation ctor decreasing abscissae", [] { Interpolation I(std::vector<double> {4, 3, 2, 1}, ys(4)); return I(1.5); });
	R("Interpolation ctor last pair not increasing", [] { Interpolation I(std::vector<double> {1, 2, 3, 3}, ys(4)); return I(1.5); });
	R("Interpolation ctor first pair not increasing", [] { Interpolation I(std::vector<double> {1, 1, 3, 4}, ys(4)); return I(1.5); });
	A("Interpolation table ctor valid", [] { Interpolation I(std::vector<std::vector<double>> {{1, 2}, {2, 3}, {4, 1}, {5, 0}}); return I(3.0); });
	R("Interpolation table ctor row of 3", [] { Interpolation I(std::vector<std::vector<double>> {{1, 2}, {2, 3, 9}, {4, 1}, {5, 0}}); return I(3.0); });
	R("Interpolation table ctor row of 1", [] { Interpolation I(std::vector<std::vector<double>> {{1, 2}, {2, 3}, {4}, {5, 0}}); return I(3.0); });
	// --- Interpolation argument range: edge interval widths differ left/right
	{
		std::vector<double> X = {1.0, 1.5, 2.5, 4.5, 8.5};	 // left edge interval 0.5, right 4.0
		std::vector<double> Y = {0.3, -1.0, 2.0, 2.5, -0.5};
		struct Q
		{
			const char* tag;
			double x;
			bool ok;
		};
		std::vector<Q> qs = {{"at left end", 1.0, true}, {"at right end", 8.5, true}, {"left 0.999%", 1.0 - 0.00999 * 0.5, true}, {"left 1.001%", 1.0 - 0.01001 * 0.5, false}, {"right 0.999%", 8.5 + 0.00999 * 4.0, true}, {"right 1.001%", 8.5 + 0.01001 * 4.0, false}, {"left by right tolerance", 1.0 - 0.0099 * 4.0, false}, {"far left", -100.0, false}, {"far right", 1e6, false}, {"NaN", std::nan(""), false}, {"interior", 3.0, true}};
		for(auto q : qs)
		{
			if(std::isnan(q.x))
				continue;	// NaN compares false with both domain tests: handled in the random generator notes
			(q.ok ? A : R)(std::string("Interpolate x ") + q.tag, [=] { Interpolation I(X, Y); return I(q.x); });
			(q.ok ? A : R)(std::string("Derivative x ") + q.tag, [=] { Interpolation I(X, Y); return I.Derivative(q.x, 1); });
			(q.ok ? A : R)(std::string("Locate x ") + q.tag, [=] { Interpolation I(X, Y); return (double) I.Locate(q.x); });
			(q.ok ? A : R)(std::string("Integrate upper limit ") + q.tag, [=] { Interpolation I(X, Y); return I.Integrate(2.0, q.x); });
			(q.ok ? A : R)(std::string("Integrate lower limit ") + q.tag, [=] { Interpolation I(X, Y); return I.Integrate(q.x, 2.0); });
			(q.ok ? A : R)(std::string("Local_Maximum limit ") + q.tag, [=] { Interpolation I(X, Y); return q.x < 2.0 ? I.Local_Maximum(q.x, 2.0) : I.Local_Maximum(2.0, q.x); });
			(q.ok ? A : R)(std::string("used object Interpolate x ") + q.tag, [=] {
				Interpolation I(X, Y);
				for(double x = 1.0; x < 8.4; x += 0.05)
					I(x);
				return I(q.x);
			});
			(q.ok ? A : R)(std::string("2D Interpolate x ") + q.tag, [=] {
				std::vector<std::vector<double>> F(5, std::vector<double>(5, 1.0));
				Interpolation_2D I(X, X, F);
				return I(q.x, 3.0);
			});
			(q.ok ? A : R)(std::string("2D Interpolate y ") + q.tag, [=] {
				std::vector<std::vector<double>> F(5, std::vector<double>(5, 1.0));
				Interpolation_2D I(X, X, F);
				return I(3.0, q.x);
			});
		}
		A("Local_Minimum x1==x2", [=] { Interpolation I(X, Y); return I.Local_Minimum(2.0, 2.0); });
		A("Local_Minimum x1<x2", [=] { Interpolation I(X, Y); return I.Local_Minimum(1.2, 7.0); });
		R("Local_Minimum x2<x1", [=] { Interpolation I(X, Y); return I.Local_Minimum(7.0, 1.2); });
		R("Local_Maximum x2<x1", [=] { Interpolation I(X, Y); return I.Local_Maximum(7.0, 1.2); });
	}
	// --- Interpolation_2D constructors
	{
		auto F = [](unsigned nx, unsigned ny) { return std::vector<std::vector<double>>(nx, std::vector<double>(ny, 0.5)); };
		A("Interpolation_2D ctor 3x4", [=] { Interpolation_2D I(xs(3), xs(4), F(3, 4)); return I(1.2, 1.3); });
		A("Interpolation_2D default ctor", [] { Interpolation_2D I; return I(0.1, 0.2); });
		R("Interpolation_2D ctor transposed values", [=] { Interpolation_2D I(xs(3), xs(4), F(4, 3)); return I(1.2, 1.3); });
		R("Interpolation_2D ctor missing row", [=] { Interpolation_2D I(xs(4), xs(4), F(3, 4)); return I(1.2, 1.3); });
		R("Interpolation_2D ctor extra row", [=] { Interpolation_2D I(xs(3), xs(4), F(4, 4)); return I(1.2, 1.3); });
		R("Interpolation_2D ctor short column", [=] { Interpolation_2D I(xs(3), xs(4), F(3, 3)); return I(1.2, 1.3); });
		R("Interpolation_2D ctor ragged", [=] { auto f = F(3, 4); f[1].pop_back(); Interpolation_2D I(xs(3), xs(4), f); return I(1.2, 1.3); });
		R("Interpolation_2D ctor empty values", [=] { Interpolation_2D I(xs(3), xs(4), F(0, 0)); return I(1.2, 1.3); });
		R("Interpolation_2D ctor two x points", [=] { Interpolation_2D I(xs(2), xs(4), F(2, 4)); return I(1.2, 1.3); });
		R("Interpolation_2D ctor x not increasing", [=] { Interpolation_2D I(std::vector<double> {1, 3, 2}, xs(4), F(3, 4)); return I(1.2, 1.3); });
		auto table = [](unsigned nx, unsigned ny) {
			std::vector<std::vector<double>> t;
			for(unsigned i = 0; i < nx; i++)
				for(unsigned j = 0; j < ny; j++)
					t.push_back({1.0 + i, 2.0 + 2 * j, 0.1 * i + j});
			return t;
		};
		A("Interpolation_2D table ctor valid", [=] { Interpolation_2D I(table(3, 4)); return I(1.5, 3.0); });
		R("Interpolation_2D table ctor row of 2", [=] { auto t = table(3, 4); t[5].pop_back(); Interpolation_2D I(t); return I(1.5, 3.0); });
		R("Interpolation_2D table ctor missing entry", [=] { auto t = table(3, 4); t.pop_back(); Interpolation_2D I(t); return I(1.5, 3.0); });
		R("Interpolation_2D table ctor wrong order", [=] { auto t = table(3, 4); std::swap(t[1], t[2]); Interpolation_2D I(t); return I(1.5, 3.0); });
		R("Interpolation_2D table ctor empty", [=] { Interpolation_2D I(std::vector<std::vector<double>> {}); return I(1.5, 3.0); });
	}
	// --- Find_Root
	A("Find_Root sign change", [] { return Find_Root([](double x) { return x * x - 2; }, 0, 2, 1e-8); });
	A("Find_Root reversed bracket", [] { return Find_Root([](double x) { return x * x - 2; }, 2, 0, 1e-8); });
	A("Find_Root zero at left end", [] { return Find_Root([](double x) { return x - 1; }, 1, 2, 1e-8); });
	A("Find_Root zero at right end", [] { return Find_Root([](double x) { return x - 2; }, 1, 2, 1e-8); });
	R("Find_Root no sign change (both positive)", [] { return Find_Root([](double x) { return x * x + 1; }, 0, 2, 1e-8); });
	// brackets that are not wider than the requested accuracy are still checked (seeded change C10-r7m2 returned their midpoint before looking at the function)
	R("Find_Root no sign change on a bracket narrower than the accuracy", [] { return Find_Root([](double x) { return x * x + 1; }, 2.0, 2.0 + 1e-9, 1e-6); });
	R("Find_Root no sign change on a tiny bracket near zero", [] { return Find_Root([](double x) { return x - 5; }, 1e-12, 3e-12, 1e-10); });
	R("Find_Root equal ends without a zero", [] { return Find_Root([](double x) { return x * x + 1; }, 2.0, 2.0, 1e-6); });
	R("Find_Root NaN ends on a bracket narrower than the accuracy", [] { return Find_Root([](double x) { return std::log(x); }, -1.0, -1.0 + 1e-9, 1e-6); });
	A("Find_Root sign change on a bracket narrower than the accuracy", [] { return Find_Root([](double x) { return x - 2.0000000005; }, 2.0, 2.0 + 1e-9, 1e-6); });
	R("Find_Root no sign change (both negative)", [] { return Find_Root([](double x) { return -x * x - 1; }, 0, 2, 1e-8); });
	R("Find_Root NaN at left end", [] { return Find_Root([](double x) { return std::log(x); }, -1, 2, 1e-8); });
	R("Find_Root NaN at right end", [] { return Find_Root([](double x) { return std::sqrt(1 - x) - 0.5; }, 0, 2, 1e-8); });
	R("Find_Root NaN at both ends", [] { return Find_Root([](double x) { return std::nan(""); }, 0, 2, 1e-8); });
	// --- integration method names
	{
		std::vector<std::string> good1 = {"Trapezoidal", "Gauss-Legendre", "Gauss-Kronrod", "Tanh-Sinh", "Gauss-Legendre_2", "Adaptive-Simpson"};
		std::vector<std::string> goodmc = {"Monte-Carlo", "Vegas", "Miser"};
		std::vector<std::string> bad = {"", "trapezoidal", "Gauss-Legendre ", "Gauss-Legendre_3", "GaussKronrod", "Tanh-Sinh.", "Adaptive-Simpsons", "Simpson", "Vega"};
		auto f1 = [](double x) { return std::exp(-x); };
		auto f2 = [](double x, double y) { return std::exp(-x - y); };
		auto f3 = [](double x, double y, double z) { return std::exp(-x - y - z); };
		auto fv = [](Vector v) { return std::exp(-v.Norm()); };
		auto fmc = [](std::vector<double>& a, const double) { return a[0] + a[1]; };
		for(auto m : good1)
		{
			A("Integrate method " + m, [=] { return Integrate(f1, 0.0, 1.0, m); });
			A("Integrate_2D method " + m, [=] { return Integrate_2D(f2, 0, 1, 0, 1, m); });
			if(m != "Trapezoidal" && m != "Tanh-Sinh")	// nested three times these two need minutes under ASan; their dispatch is the same code path as in 2D
				A("Integrate_3D method " + m, [=] { return Integrate_3D(f3, 0, 1, 0, 1, 0, 1, m); });
		}
		A("Integrate_3D spherical method Gauss-Legendre", [=] { return Integrate_3D(fv, 0.0, 1.0); });
		for(auto m : goodmc)
		{
			R("Integrate (1D) method " + m, [=] { return Integrate(f1, 0.0, 1.0, m); });
			A("Integrate_2D method " + m, [=] { return Integrate_2D(f2, 0, 1, 0, 1, m, 2000); });
			A("Integrate_3D method " + m, [=] { return Integrate_3D(f3, 0, 1, 0, 1, 0, 1, m, 2000); });
			A("Integrate_MC method " + m, [=] { std::vector<double> reg = {0, 0, 1, 2}; return Integrate_MC(fmc, reg, 2000, m); });
		}
		for(auto m : bad)
		{
			R("Integrate method '" + m + "'", [=] { return Integrate(f1, 0.0, 1.0, m); });
			R("Integrate_2D method '" + m + "'", [=] { return Integrate_2D(f2, 0, 1, 0, 1, m); });
			R("Integrate_3D method '" + m + "'", [=] { return Integrate_3D(f3, 0, 1, 0, 1, 0, 1, m); });
			// the name is meaningless whatever the limits are - also when a pair of limits coincides (the integral would be zero for a valid name)
			R("Integrate method '" + m + "' with equal limits", [=] { return Integrate(f1, 0.5, 0.5, m); });
			R("Integrate_2D method '" + m + "' with x1 == x2", [=] { return Integrate_2D(f2, 0.5, 0.5, 0, 1, m); });
			R("Integrate_2D method '" + m + "' with y1 == y2", [=] { return Integrate_2D(f2, 0, 1, 0.25, 0.25, m); });
			R("Integrate_3D method '" + m + "' with x1 == x2", [=] { return Integrate_3D(f3, 1.0, 1.0, 0, 1, 0, 1, m); });
			R("Integrate_3D method '" + m + "' with z1 == z2", [=] { return Integrate_3D(f3, 0, 1, 0, 1, 2.0, 2.0, m); });
			R("Integrate_3D spherical method '" + m + "'", [=] { return Integrate_3D(fv, 0.0, 1.0, -1.0, 1.0, 0.0, 1.0, m); });
			R("Integrate_MC method '" + m + "'", [=] { std::vector<double> reg = {0, 0, 1, 2}; return Integrate_MC(fmc, reg, 2000, m); });
		}
		for(auto nm : std::vector<std::pair<unsigned, unsigned>> {{4, 4}, {1, 1}, {4, 3}, {3, 4}, {0, 4}, {4, 0}})
		{
			(nm.first == nm.second ? A : R)("Integrate_Gauss_Legendre values " + std::to_string(nm.first) + " rule " + std::to_string(nm.second), [=] {
				auto rw = Compute_Gauss_Legendre_Roots_and_Weights(nm.second, 0.0, 1.0);
				return Integrate_Gauss_Legendre(std::vector<double>(nm.first, 1.0), rw);
			});
		}
	}
	// --- distributions
	for(double p : {0.0, 1.0, 0.5})
	{
		A("PMF_Binomial p=" + std::to_string(p), [=] { return PMF_Binomial(10, p, 3); });
		A("CDF_Binomial p=" + std::to_string(p), [=] { return CDF_Binomial(10, p, 3); });
	}
	for(double p : {-1e-9, 1.0 + 1e-9, -1.0, 2.0})
	{
		R("PMF_Binomial p=" + hexf(p), [=] { return PMF_Binomial(10, p, 3); });
		R("CDF_Binomial p=" + hexf(p), [=] { return CDF_Binomial(10, p, 3); });
	}
	A("PMF_Poisson mean 0", [] { return PMF_Poisson(0.0, 0) + PMF_Poisson(0.0, 3); });
	A("PMF_Poisson mean 2.5", [] { return PMF_Poisson(2.5, 3); });
	A("CDF_Poisson mean 0", [] { return CDF_Poisson(0.0, 3); });
	A("CDF_Poisson mean 2.5", [] { return CDF_Poisson(2.5, 3); });
	A("CDF_Poisson large count (quadrature branch)", [] { return CDF_Poisson(150.0, 140); });
	for(double m : {-1e-12, -1.0})
	{
		R("PMF_Poisson mean " + hexf(m), [=] { return PMF_Poisson(m, 3); });
		R("CDF_Poisson mean " + hexf(m), [=] { return CDF_Poisson(m, 3); });
	}
	for(double c : {0.25, 1.0, 1e-12})
	{
		A("Inv_CDF_Poisson cdf=" + hexf(c), [=] { return Inv_CDF_Poisson(3, c); });
		A("Inv_CDF_Poisson n=0 cdf=" + hexf(c), [=] { return Inv_CDF_Poisson(0, c); });
	}
	for(double c : {-1e-9, 1.0 + 1e-9, -2.0, 3.0})
		R("Inv_CDF_Poisson cdf=" + hexf(c), [=] { return Inv_CDF_Poisson(3, c); });
	for(double m : {1e-300, 1.0, 1e300})
	{
		A("PDF_Exponential mean " + hexf(m), [=] { return PDF_Exponential(1.0, m); });
		A("CDF_Exponential mean " + hexf(m), [=] { return CDF_Exponential(1.0, m); });
		A("PDF_Maxwell_Boltzmann a " + hexf(m), [=] { return PDF_Maxwell_Boltzmann(1.0, m); });
		A("CDF_Maxwell_Boltzmann a " + hexf(m), [=] { return CDF_Maxwell_Boltzmann(1.0, m); });
	}
	for(double m : {0.0, -0.0, -1e-300, -1.0})
	{
		R("PDF_Exponential mean " + hexf(m), [=] { return PDF_Exponential(1.0, m); });
		R("CDF_Exponential mean " + hexf(m), [=] { return CDF_Exponential(1.0, m); });
		R("PDF_Maxwell_Boltzmann a " + hexf(m), [=] { return PDF_Maxwell_Boltzmann(1.0, m); });
		R("CDF_Maxwell_Boltzmann a " + hexf(m), [=] { return CDF_Maxwell_Boltzmann(1.0, m); });
	}
	// --- likelihoods and list lengths
	{
		typedef std::vector<unsigned long int> UL;
		A("Log_Likelihood_Poisson_Binned equal lengths", [] { return Log_Likelihood_Poisson_Binned({1.0, 2.0}, UL {1, 2}, {0.5, 0.5}); });
		A("Log_Likelihood_Poisson_Binned no background", [] { return Log_Likelihood_Poisson_Binned({1.0, 2.0}, UL {1, 2}); });
		A("Likelihood_Poisson_Binned equal lengths", [] { return Likelihood_Poisson_Binned({1.0, 2.0}, UL {1, 2}, {0.5, 0.5}); });
		R("Log_Likelihood_Poisson_Binned observed shorter", [] { return Log_Likelihood_Poisson_Binned({1.0, 2.0}, UL {1}, {0.5, 0.5}); });
		R("Log_Likelihood_Poisson_Binned observed longer", [] { return Log_Likelihood_Poisson_Binned({1.0, 2.0}, UL {1, 2, 3}, {0.5, 0.5}); });
		R("Log_Likelihood_Poisson_Binned background shorter", [] { return Log_Likelihood_Poisson_Binned({1.0, 2.0}, UL {1, 2}, {0.5}); });
		R("Log_Likelihood_Poisson_Binned background longer", [] { return Log_Likelihood_Poisson_Binned({1.0, 2.0}, UL {1, 2}, {0.5, 0.5, 0.5}); });
		R("Likelihood_Poisson_Binned observed shorter", [] { return Likelihood_Poisson_Binned({1.0, 2.0}, UL {1}, {0.5, 0.5}); });
		R("Likelihood_Poisson_Binned background longer", [] { return Likelihood_Poisson_Binned({1.0, 2.0}, UL {1, 2}, {0.5, 0.5, 0.5}); });
	}
	// --- samplers
	{
		auto pdf  = [](double x) { return std::exp(-x * x / 2); };
		auto pdf2 = [](double x, double y) { return std::exp(-(x * x + y * y) / 2); };
		for(unsigned n : {0u, 2u})
			A("Sample_Metropolis domain size " + std::to_string(n), [=] { std::mt19937 g(5); std::vector<double> d(n); if(n == 2) { d[0] = -3; d[1] = 3; } return Sample_Metropolis(g, pdf, 1.0, 10, 2, 5, d).size() * 1.0; });
		for(unsigned n : {1u, 3u, 4u})
			R("Sample_Metropolis domain size " + std::to_string(n), [=] { std::mt19937 g(5); std::vector<double> d(n, 1.0); return Sample_Metropolis(g, pdf, 1.0, 10, 2, 5, d).size() * 1.0; });
		for(unsigned n : {0u, 4u})
			A("Sample_Metropolis_2D domain size " + std::to_string(n), [=] { std::mt19937 g(5); std::vector<double> d; if(n == 4) d = {-3, 3, -2, 2}; return Sample_Metropolis_2D(g, pdf2, {1.0, 1.0}, 10, 2, 5, d).size() * 1.0; });
		for(unsigned n : {1u, 2u, 3u, 5u})
			R("Sample_Metropolis_2D domain size " + std::to_string(n), [=] { std::mt19937 g(5); std::vector<double> d(n, 1.0); return Sample_Metropolis_2D(g, pdf2, {1.0, 1.0}, 10, 2, 5, d).size() * 1.0; });
		A("Rejection_Sampling valid envelope", [=] { std::mt19937 g(5); return Rejection_Sampling(pdf, -3, 3, 1.0, g); });
		A("Rejection_Sampling envelope exceeded by <1%", [=] { std::mt19937 g(5); return Rejection_Sampling(pdf, -3, 3, 0.995, g); });
		R("Rejection_Sampling envelope too low", [=] { std::mt19937 g(5); double s = 0; for(int i = 0; i < 200; i++) s += Rejection_Sampling(pdf, -3, 3, 0.5, g); return s; });
		R("Rejection_Sampling negative density", [=] { std::mt19937 g(5); return Rejection_Sampling([](double x) { return -1.0; }, -3, 3, 1.0, g); });
		R("Rejection_Sampling NaN density", [=] { std::mt19937 g(5); return Rejection_Sampling([](double x) { return std::nan(""); }, -3, 3, 1.0, g); });
		R("Rejection_Sampling hopeless envelope", [=] { std::mt19937 g(5); return Rejection_Sampling([](double x) { return 1e-9; }, -3, 3, 1.0, g); });
		A("Rejection_Sampling_2D valid", [=] { std::mt19937 g(5); std::function<double(double, double)> f = pdf2; return Rejection_Sampling_2D(g, f, -2, 2, -2, 2, 1.0).first; });
		R("Rejection_Sampling_2D envelope too low", [=] { std::mt19937 g(5); std::function<double(double, double)> f = pdf2; double s = 0; for(int i = 0; i < 200; i++) s += Rejection_Sampling_2D(g, f, -2, 2, -2, 2, 0.3).first; return s; });
	}
	// --- special functions
	for(unsigned d : {1u, 3u, 7u})
		A("Round digits " + std::to_string(d), [=] { return Round(3.14159265358979, d); });
	for(unsigned d : {8u, 9u, 100u})
	{
		R("Round digits " + std::to_string(d), [=] { return Round(3.14159265358979, d); });
		R("Round(Vector) digits " + std::to_string(d), [=] { return vsum(Round(vec(3), d)); });
		R("Round(Matrix) digits " + std::to_string(d), [=] { return msum(Round(mat(2, 2), d)); });
	}
	A("Round(0) digits 9 (zero shortcut)", [] { return Round(0.0, 9); });
	for(unsigned n : {0u, 1u, 169u, 170u})
		A("Factorial " + std::to_string(n), [=] { return Factorial(n); });
	for(unsigned n : {171u, 172u, 1000u, UMAX})
		R("Factorial " + std::to_string(n), [=] { return Factorial(n); });
	A("Factorial 170 after 171 is refused elsewhere", [] { return Factorial(170) / Factorial(169); });
	// the guard must not depend on what the memo table already holds: invalid requests after valid call histories
	for(unsigned k : {0u, 5u, 100u, 160u, 165u, 170u})
		for(unsigned n : {171u, 175u, 191u, 192u, 300u})
			R("Factorial " + std::to_string(n) + " after Factorial(" + std::to_string(k) + ")", [=] { double a = Factorial(k); return a + Factorial(n); });
	R("Factorial 180 after Binomial_Coefficient(168,3)", [] { double a = Binomial_Coefficient(168, 3); return a + Factorial(180); });
	R("Factorial 171 after ascending sweep 0..170", [] { double a = 0; for(unsigned k = 0; k <= 170; k++) a += Factorial(k); return a + Factorial(171); });
	A("Factorial 170 after descending requests", [] { return Factorial(170) + Factorial(3) + Factorial(169); });
	// parameter guards crossed with the other arguments (a shortcut placed in front of the range check must not bypass it)
	for(auto tx : std::vector<std::pair<unsigned, unsigned>> {{10, 3}, {10, 10}, {10, 11}, {0, 0}, {0, 5}, {170, 170}, {1, 0}})
	{
		for(double p : {0.0, 1.0, 0.3})
		{
			A("PMF_Binomial trials=" + std::to_string(tx.first) + " x=" + std::to_string(tx.second) + " p=" + hexf(p), [=] { return PMF_Binomial(tx.first, p, tx.second); });
			A("CDF_Binomial trials=" + std::to_string(tx.first) + " x=" + std::to_string(tx.second) + " p=" + hexf(p), [=] { return CDF_Binomial(tx.first, p, tx.second); });
		}
		for(double p : {-1e-9, 1.0 + 1e-9, 2.0, -3.0})
		{
			R("PMF_Binomial trials=" + std::to_string(tx.first) + " x=" + std::to_string(tx.second) + " p=" + hexf(p), [=] { return PMF_Binomial(tx.first, p, tx.second); });
			R("CDF_Binomial trials=" + std::to_string(tx.first) + " x=" + std::to_string(tx.second) + " p=" + hexf(p), [=] { return CDF_Binomial(tx.first, p, tx.second); });
		}
	}
	for(double x : {-5.0, 0.0, 1e-300, 1e300})
		for(double m : {0.0, -1.0, -1e-300})
		{
			R("PDF_Exponential x=" + hexf(x) + " mean=" + hexf(m), [=] { return PDF_Exponential(x, m); });
			R("CDF_Exponential x=" + hexf(x) + " mean=" + hexf(m), [=] { return CDF_Exponential(x, m); });
			R("PDF_Maxwell_Boltzmann x=" + hexf(x) + " a=" + hexf(m), [=] { return PDF_Maxwell_Boltzmann(x, m); });
			R("CDF_Maxwell_Boltzmann x=" + hexf(x) + " a=" + hexf(m), [=] { return CDF_Maxwell_Boltzmann(x, m); });
		}
	// the 1% edge tolerance probed within 1e-6 and 1e-9 (relative) of its boundary, on a table whose ends are 0 and 1 so that the distance
	// to the edge is represented without rounding of the query point beyond 1e-16
	{
		std::vector<double> X = {0.0, 0.125, 0.5, 0.75, 1.0};	// left edge interval 0.125, right 0.25
		std::vector<double> Y = {1.0, 2.0, 0.5, 3.0, 2.5};
		double tl = 1e-2 * (X[1] - X[0]), tr = 1e-2 * (X[4] - X[3]);
		for(double m : {1e-6, 1e-9})
		{
			A("Interpolate left edge, inside tolerance by " + hexf(m), [=] { Interpolation I(X, Y); return I(-tl * (1 - m)); });
			R("Interpolate left edge, outside tolerance by " + hexf(m), [=] { Interpolation I(X, Y); return I(-tl * (1 + m)); });
			A("Interpolate right edge, inside tolerance by " + hexf(m), [=] { Interpolation I(X, Y); return I(1.0 + tr * (1 - m)); });
			R("Interpolate right edge, outside tolerance by " + hexf(m), [=] { Interpolation I(X, Y); return I(1.0 + tr * (1 + m)); });
			A("Interpolate_2D left/right edges, inside tolerance by " + hexf(m), [=] {
				Interpolation_2D I(X, X, std::vector<std::vector<double>>(5, Y));
				return I(-tl * (1 - m), 1.0 + tr * (1 - m));
			});
			R("Interpolate_2D y beyond tolerance by " + hexf(m), [=] {
				Interpolation_2D I(X, X, std::vector<std::vector<double>>(5, Y));
				return I(0.3, 1.0 + tr * (1 + m));
			});
		}
	}
	// the same probes on tables whose abscissae are scaled by exact powers of two from 2^-43 (1e-13) to 2^43 (1e13): the tolerance is 1% of the edge
	// interval at every scale, there is no absolute length in it (seeded change C10-r3m3 added an absolute floor of 1e-10)
	for(int k : {-43, -33, -27, -20, 20, 43})
	{
		double sc = std::ldexp(1.0, k);
		std::vector<double> X = {0.0, 0.125 * sc, 0.5 * sc, 0.75 * sc, 1.0 * sc};
		std::vector<double> Y = {1.0, 2.0, 0.5, 3.0, 2.5};
		double tl = 1e-2 * (X[1] - X[0]), tr = 1e-2 * (X[4] - X[3]);
		std::string tag = " (abscissae scaled by 2^" + std::to_string(k) + ")";
		for(double m : {1e-3, 1e-6})
		{
			A("Interpolate left edge, inside tolerance by " + hexf(m) + tag, [=] { Interpolation I(X, Y); return I(-tl * (1 - m)); });
			R("Interpolate left edge, outside tolerance by " + hexf(m) + tag, [=] { Interpolation I(X, Y); return I(-tl * (1 + m)); });
			A("Interpolate right edge, inside tolerance by " + hexf(m) + tag, [=] { Interpolation I(X, Y); return I(X[4] + tr * (1 - m)); });
			R("Interpolate right edge, outside tolerance by " + hexf(m) + tag, [=] { Interpolation I(X, Y); return I(X[4] + tr * (1 + m)); });
		}
		R("Interpolate three edge intervals left of the domain" + tag, [=] { Interpolation I(X, Y); return I(-3 * (X[1] - X[0])); });
		R("Derivative two edge intervals right of the domain" + tag, [=] { Interpolation I(X, Y); return I.Derivative(X[4] + 2 * (X[4] - X[3]), 1); });
		R("Integrate up to 5% beyond the right edge" + tag, [=] { Interpolation I(X, Y); return I.Integrate(X[1], X[4] + 5 * tr); });
		R("Interpolate_2D y beyond tolerance" + tag, [=] {
			Interpolation_2D I(X, X, std::vector<std::vector<double>>(5, Y));
			return I(0.3 * sc, X[4] + tr * 1.001);
		});
		A("Interpolate_2D both inside tolerance" + tag, [=] {
			Interpolation_2D I(X, X, std::vector<std::vector<double>>(5, Y));
			return I(-tl * 0.999, X[4] + tr * 0.999);
		});
	}
	// the shape-parameter guard of the incomplete gamma functions crossed with x (every branch: series x < a+1, continued fraction, x = 0)
	for(double a : {0.0, -1e-300, -1e-9, -0.25, -0.5, -0.999, -1.0, -2.5})
		for(double x : {1e-3, 0.2, 0.6, 1.0, 5.0})
		{
			R("GammaP(" + hexf(x) + "," + hexf(a) + ")", [=] { return GammaP(x, a); });
			R("GammaQ(" + hexf(x) + "," + hexf(a) + ")", [=] { return GammaQ(x, a); });
			R("Lower_Incomplete_Gamma(" + hexf(x) + "," + hexf(a) + ")", [=] { return Lower_Incomplete_Gamma(x, a); });
		}
	for(double dof : {-1e-3, -0.5, -1.0, -1.5, -1.999, -4.0})
		for(double x : {1e-3, 0.3, 0.9, 3.0})
			R("CDF_Chi_Square(" + hexf(x) + "," + hexf(dof) + ")", [=] { return CDF_Chi_Square(x, dof); });
	for(unsigned k : {0u, 1u, 50u, 500u})
		for(double m : {-1e-300, -1.0})
		{
			R("PMF_Poisson mean=" + hexf(m) + " k=" + std::to_string(k), [=] { return PMF_Poisson(m, k); });
			R("CDF_Poisson mean=" + hexf(m) + " k=" + std::to_string(k), [=] { return CDF_Poisson(m, k); });
		}
	for(unsigned k : {0u, 1u, 200u})
		for(double c : {-1e-9, 1.0 + 1e-9})
			R("Inv_CDF_Poisson k=" + std::to_string(k) + " cdf=" + hexf(c), [=] { return Inv_CDF_Poisson(k, c); });
	A("Binomial_Coefficient(5,2)", [] { return Binomial_Coefficient(5, 2); });
	A("Binomial_Coefficient(3,5)", [] { return Binomial_Coefficient(3, 5); });
	A("Binomial_Coefficient(0,0)", [] { return Binomial_Coefficient(0, 0); });
	A("Binomial_Coefficient(171,85)", [] { return Binomial_Coefficient(171, 85); });
	R("Binomial_Coefficient(-1,0)", [] { return Binomial_Coefficient(-1, 0); });
	R("Binomial_Coefficient(5,-1)", [] { return Binomial_Coefficient(5, -1); });
	R("Binomial_Coefficient(-3,-1)", [] { return Binomial_Coefficient(-3, -1); });
	for(double x : {1e-300, 1.0, 1e300})
		A("GammaLn " + hexf(x), [=] { return GammaLn(x); });
	for(double x : {0.0, -0.0, -1e-300, -1.5})
	{
		R("GammaLn " + hexf(x), [=] { return GammaLn(x); });
		R("Gamma " + hexf(x), [=] { return Gamma(x); });
	}
	A("GammaQ(0,1)", [] { return GammaQ(0.0, 1.0); });
	A("GammaQ(1,1e-300)", [] { return GammaQ(1.0, 1e-300); });
	A("GammaP(2,3)", [] { return GammaP(2.0, 3.0); });
	A("GammaQ(150,120) quadrature", [] { return GammaQ(150.0, 120.0); });
	for(auto xa : std::vector<std::pair<double, double>> {{-1e-300, 1.0}, {-1.0, 1.0}, {1.0, 0.0}, {1.0, -1.0}, {-1.0, -1.0}})
	{
		R("GammaQ(" + hexf(xa.first) + "," + hexf(xa.second) + ")", [=] { return GammaQ(xa.first, xa.second); });
		R("GammaP(" + hexf(xa.first) + "," + hexf(xa.second) + ")", [=] { return GammaP(xa.first, xa.second); });
	}
	A("Inv_GammaP(0.3,2)", [] { return Inv_GammaP(0.3, 2.0); });
	A("Inv_GammaP(0,2)", [] { return Inv_GammaP(0.0, 2.0); });
	A("Inv_GammaP(1,2)", [] { return Inv_GammaP(1.0, 2.0); });
	R("Inv_GammaP(0.3,0)", [] { return Inv_GammaP(0.3, 0.0); });
	R("Inv_GammaP(0.3,-1)", [] { return Inv_GammaP(0.3, -1.0); });
	R("Inv_GammaQ(0.3,0)", [] { return Inv_GammaQ(0.3, 0.0); });
	for(int comp : {0, 1, 2})
	{
		A("VSH_Y_Component " + std::to_string(comp), [=] { return std::abs(VSH_Y_Component(comp, 2, 1, 3, 1 + (comp < 2))); });
		A("VSH_Psi_Component " + std::to_string(comp), [=] { return std::abs(VSH_Psi_Component(comp, 2, 1, 3, 1 + (comp < 2))); });
	}
	for(int comp : {-1, 3, 4, 100})
	{
		R("VSH_Y_Component " + std::to_string(comp), [=] { return std::abs(VSH_Y_Component(comp, 2, 1, 3, 2)); });
		R("VSH_Psi_Component " + std::to_string(comp), [=] { return std::abs(VSH_Psi_Component(comp, 2, 1, 3, 2)); });
	}
	A("Inv_Erf(0.5)", [] { return Inv_Erf(0.5); });
	A("Inv_Erf(-0.999999)", [] { return Inv_Erf(-0.999999); });
	for(double p : {-1.0, 1.5, -1.5, 1.0 + 1e-12})
		R("Inv_Erf(" + hexf(p) + ")", [=] { return Inv_Erf(p); });
	// --- list helpers
	A("Transpose_Lists equal lengths", [] { return (double) Transpose_Lists(std::vector<std::vector<double>> {{1, 2, 3}, {4, 5, 6}}).size(); });
	A("Transpose_Lists two lists", [] { return (double) Transpose_Lists(std::vector<double> {1, 2, 3}, std::vector<double> {4, 5, 6}).size(); });
	R("Transpose_Lists second shorter", [] { return (double) Transpose_Lists(std::vector<std::vector<double>> {{1, 2, 3}, {4, 5}}).size(); });
	R("Transpose_Lists second longer", [] { return (double) Transpose_Lists(std::vector<std::vector<double>> {{1, 2}, {4, 5, 6}}).size(); });
	R("Transpose_Lists two lists unequal", [] { return (double) Transpose_Lists(std::vector<double> {1, 2, 3}, std::vector<double> {4, 5}).size(); });
	for(int n : {1, 5})
		for(int i1 : {-2, 0, n - 1, n, n + 5})
			for(unsigned i2 : {0u, (unsigned) (n - 1), (unsigned) n, (unsigned) (n + 5), UMAX})
				A("Sub_List n=" + std::to_string(n) + " i1=" + std::to_string(i1) + " i2=" + std::to_string(i2), [=] { return (double) Sub_List(xs(n), i1, i2).size(); });
	A("Sub_List empty list", [] { return (double) Sub_List(std::vector<double> {}, 0, 0).size(); });
	// the 1% edge tolerance on a table far from the origin (1.5*2^30, not next to a power of two) whose edge intervals are 256 ulp of the knots: the tolerance is 2.56 ulp, so arguments one and
	// two ulp outside are accepted, three and four are not - an argument test rewritten with thresholds that carry an ulp of cancellation error moves
	// that (seeded change C10-r7m3); and a table that ends next to the largest double, where such thresholds overflow
	for(int u = 1; u <= 4; u++)
		for(int side = 0; side < 2; side++)
		{
			std::string nm = std::string("Interpolation ") + std::to_string(u) + " ulp " + (side ? "above" : "below") + " a table at 1.5*2^30 with 256-ulp edge intervals";
			auto fn = [u, side] {
				double x0 = 0x1.8p30, h = 0x1p-14;
				Interpolation I(std::vector<double> {x0, x0 + h, x0 + 2 * h, x0 + 3 * h}, std::vector<double> {1.0, 2.0, 4.0, 3.0});
				double x = side ? x0 + 3 * h : x0;
				for(int i = 0; i < u; i++)
					x = std::nextafter(x, side ? INFINITY : -INFINITY);
				return I(x);
			};
			(u <= 2 ? A : R)(nm, fn);
		}
	R("Interpolation at the largest double, 80 edge intervals above a table that ends at 1.79e308", [] {
		Interpolation I(std::vector<double> {1.70e308, 1.75e308, 1.79e308, 1.7901e308}, std::vector<double> {1.0, 2.0, 4.0, 3.0});
		return I(1.7976931348623157e308);
	});
	A("Interpolation inside a table that ends at 1.79e308", [] {
		Interpolation I(std::vector<double> {1.70e308, 1.75e308, 1.79e308, 1.7901e308}, std::vector<double> {1.0, 2.0, 4.0, 3.0});
		return I(1.76e308);
	});
	A("Locate_Closest_Location sorted", [] { return (double) Locate_Closest_Location({1, 2, 2, 5}, 3.4); });
	R("Locate_Closest_Location unsorted", [] { return (double) Locate_Closest_Location({1, 3, 2, 5}, 3.4); });
	R("Locate_Closest_Location descending", [] { return (double) Locate_Closest_Location({5, 3, 1}, 3.4); });
	A("Check_For_Error false", [] { Check_For_Error(false, "f", "m"); return 1.0; });
	R("Check_For_Error true", [] { Check_For_Error(true, "f", "m"); return 1.0; });
	// --- files and units
	{
		using namespace libphysica::natural_units;
		A("Export/Import_Table matching units", [] {
			std::string p = tmpdir + "/t_ok.txt";
			Export_Table(p, {{1, 2}, {3, 4}}, {2.0, 3.0}, "# h");
			return Import_Table(p, {2.0, 3.0}, 1)[1][1];
		});
		A("Export/Import_List", [] {
			std::string p = tmpdir + "/l_ok.txt";
			Export_List(p, {1, 2, 3}, 2.0);
			return Import_List(p, 2.0)[2];
		});
		R("Export_Table units shorter than columns", [] { Export_Table(tmpdir + "/t_bad1.txt", {{1, 2}, {3, 4}}, {2.0}); return 1.0; });
		R("Export_Table units longer than columns", [] { Export_Table(tmpdir + "/t_bad2.txt", {{1, 2}, {3, 4}}, {2.0, 3.0, 4.0}); return 1.0; });
		R("Import_Table units shorter than columns", [] {
			std::string p = tmpdir + "/t_ok2.txt";
			Export_Table(p, {{1, 2}, {3, 4}});
			return Import_Table(p, {2.0})[0][0];
		});
		R("Import_Table units longer than columns", [] {
			std::string p = tmpdir + "/t_ok3.txt";
			Export_Table(p, {{1, 2}, {3, 4}});
			return Import_Table(p, {2.0, 1.0, 1.0})[0][0];
		});
		R("Import_Table missing file", [] { return Import_Table(tmpdir + "/does_not_exist.txt")[0][0]; });
		R("Import_List missing file", [] { return Import_List(tmpdir + "/does_not_exist.txt")[0]; });
		A("In_Units table matching units", [] { return In_Units(std::vector<std::vector<double>> {{1, 2}, {3, 4}}, std::vector<double> {2.0, 4.0})[1][1]; });
		R("In_Units table units shorter", [] { return In_Units(std::vector<std::vector<double>> {{1, 2}, {3, 4}}, std::vector<double> {2.0})[1][0]; });
		R("In_Units table units longer", [] { return In_Units(std::vector<std::vector<double>> {{1, 2}, {3, 4}}, std::vector<double> {2.0, 1.0, 1.0})[1][0]; });
		R("In_Units ragged table", [] { return In_Units(std::vector<std::vector<double>> {{1, 2}, {3}}, std::vector<double> {2.0, 1.0})[1][0]; });
	}
}

static void run_request(const Req& q)
{
	Outcome o = run_isolated([&](const std::function<void(const std::string&)>& send) {
		double r = q.fn();
		send(hexf(r));
	}, 120.0);
	J p;
	p.str("request", q.name).str("side", q.accept ? "accept" : "reject");
	set_params(p);
	mark_nontrivial();
	hash_param_u(hash_str(q.name.c_str()));
	if(o.kind == WATCHDOG)
	{
		inconclusive("watchdog on request " + q.name);
		return;
	}
	if(q.accept)
		expect_return("accepted-side-returns", o, ("accept:" + q.name).c_str());
	else
		expect_reject("rejected-side-exits-with-diagnostic", o, ("reject:" + q.name).c_str());
	J ob;
	ob.str("outcome", outcome_name(o.kind)).i("diagnostic_bytes", (long long) o.output_bytes);
	sample(ob);
}

// Random requests around parametrised guards (the accepted side is decided by the request's own parameters).
static void random_guard(Rng& rng, uint64_t)
{
	int family = rng.irange(0, 12);
	Req q;
	switch(family)
	{
		case 0: {
			unsigned n = rng.irange(0, 24);
			unsigned idx = rng.coin(0.5) ? (unsigned) rng.irange(0, 30) : (rng.coin() ? n : (unsigned) rng.next());
			q = {"Vector[] n=" + std::to_string(n) + " idx=" + std::to_string(idx), idx < n, [=] { Vector v = vec(n); return v[idx]; }};
			break;
		}
		case 1: {
			unsigned r = rng.irange(1, 6), c = rng.irange(1, 6), r2 = rng.coin(0.4) ? r : rng.irange(1, 6), c2 = rng.coin(0.4) ? c : rng.irange(1, 6);
			if(rng.coin(0.2))
			{
				r2 = c;
				c2 = r;
			}
			int op = rng.irange(0, 5);
			q = {"Matrix sum op" + std::to_string(op) + " (" + std::to_string(r) + "x" + std::to_string(c) + ")(" + std::to_string(r2) + "x" + std::to_string(c2) + ")", r == r2 && c == c2, [=] {
					 Matrix a = mat(r, c), b = mat(r2, c2);
					 switch(op)
					 {
						 case 0: return msum(a.Plus(b));
						 case 1: return msum(a.Minus(b));
						 case 2: return msum(a + b);
						 case 3: return msum(a - b);
						 case 4: a += b; return msum(a);
						 default: a -= b; return msum(a);
					 }
				 }};
			break;
		}
		case 2: {
			unsigned m = rng.irange(1, 6), n = rng.irange(1, 6), k = rng.coin(0.5) ? n : rng.irange(1, 6), l = rng.irange(1, 6);
			q = {"Matrix product (" + std::to_string(m) + "x" + std::to_string(n) + ")(" + std::to_string(k) + "x" + std::to_string(l) + ")", n == k, [=] { return msum(mat(m, n).Product(mat(k, l))); }};
			break;
		}
		case 3: {
			unsigned r = rng.irange(1, 6), c = rng.irange(1, 6), n = rng.coin(0.5) ? (rng.coin() ? r : c) : rng.irange(1, 7);
			bool left = rng.coin();
			q = {std::string(left ? "Vector*Matrix" : "Matrix*Vector") + " (" + std::to_string(r) + "x" + std::to_string(c) + ")," + std::to_string(n), left ? n == r : n == c, [=] { return left ? vsum(vec(n) * mat(r, c)) : vsum(mat(r, c).Product(vec(n))); }};
			break;
		}
		case 4: {
			unsigned a = rng.irange(0, 6), b = rng.coin(0.5) ? a : rng.irange(0, 6);
			int op = rng.irange(0, 4);
			q = {"Vector op" + std::to_string(op) + " " + std::to_string(a) + "," + std::to_string(b), a == b, [=] {
					 Vector u = vec(a), w = vec(b);
					 switch(op)
					 {
						 case 0: return vsum(u + w);
						 case 1: return vsum(u - w);
						 case 2: u += w; return vsum(u);
						 case 3: u -= w; return vsum(u);
						 default: return u.Dot(w);
					 }
				 }};
			break;
		}
		case 5: {
			// interpolation argument relative to the edge tolerance
			int n = rng.irange(3, 40);
			std::vector<double> X(n), Y(n);
			double x = rng.mag(1e-3, 1e3);
			for(int i = 0; i < n; i++)
			{
				X[i] = x;
				x += rng.loguni(1e-3, 1e2) * (1 + std::fabs(x) * 1e-3);
				Y[i] = rng.mag(1e-3, 1e3);
			}
			if(rng.coin(0.4))
			{
				double sc = std::ldexp(1.0, rng.irange(-45, 45));	// exact rescaling: same decisions at every scale
				for(auto& v : X)
					v *= sc;
			}
			bool left	= rng.coin();
			double edge = left ? X[1] - X[0] : X[n - 1] - X[n - 2];
			std::vector<double> fr = {0.0, 0.003, 0.0097, 0.0103, 0.02, 0.5, 3.0};
			double f  = rng.pick(fr);
			double xq = left ? X[0] - f * edge : X[n - 1] + f * edge;
			bool ok	  = (xq >= X[0] && xq <= X[n - 1]) || std::fabs(xq - (left ? X[0] : X[n - 1])) < 1e-2 * edge;
			int what  = rng.irange(0, 3);
			q = {"Interpolation query kind " + std::to_string(what) + " at " + (left ? "left" : "right") + " end + " + std::to_string(f) + " edge intervals, N=" + std::to_string(n), ok, [=] {
					 Interpolation I(X, Y);
					 double mid = 0.5 * (X[0] + X[n - 1]);
					 for(int k = 0; k < 30; k++)
						 I(left ? X[0] + (X[1] - X[0]) * k / 40.0 : X[n - 1] - (X[n - 1] - X[n - 2]) * k / 40.0);	  // engage the hunt near the edge
					 switch(what)
					 {
						 case 0: return I(xq);
						 case 1: return I.Derivative(xq, 2);
						 case 2: return I.Integrate(mid, xq);
						 default: return left ? I.Local_Minimum(xq, mid) : I.Local_Minimum(mid, xq);
					 }
				 }};
			break;
		}
		case 6: {
			int n = rng.irange(0, 12);
			int i1 = rng.irange(-3, n + 3);
			unsigned i2 = rng.coin(0.15) ? (unsigned) rng.next() : (unsigned) rng.irange(0, n + 4);
			q = {"Sub_List n=" + std::to_string(n) + " i1=" + std::to_string(i1) + " i2=" + std::to_string(i2), true, [=] { return (double) Sub_List(xs(n), i1, i2).size(); }};
			break;
		}
		case 7: {
			unsigned n = rng.irange(150, 200);
			int hist   = rng.irange(0, 3);
			unsigned h1 = rng.irange(0, 170), h2 = rng.irange(150, 170);
			q = {"Factorial " + std::to_string(n) + " after history " + std::to_string(hist) + ":" + std::to_string(h1) + "," + std::to_string(h2), n <= 170, [=] {
					 double a = 0;
					 if(hist >= 1)
						 a += Factorial(h1);
					 if(hist >= 2)
						 a += Factorial(h2);
					 if(hist >= 3)
						 a += Binomial_Coefficient((int) h2, 2);
					 return a + Factorial(n);
				 }};
			break;
		}
		case 12: {
			int which	 = rng.irange(0, 5);
			bool valid	 = rng.coin(0.4);
			unsigned tr	 = rng.irange(0, 170), x = rng.coin(0.5) ? (unsigned) rng.irange(0, (int) tr) : tr + (unsigned) rng.irange(0, 4);
			double p	 = valid ? (rng.coin(0.3) ? (rng.coin() ? 0.0 : 1.0) : rng.u01()) : (rng.coin() ? -rng.loguni(1e-12, 10) : 1.0 + rng.loguni(1e-12, 10));
			double pos	 = valid ? rng.loguni(1e-6, 1e6) : (rng.coin(0.3) ? 0.0 : -rng.loguni(1e-300, 1e6));
			double arg	 = rng.coin(0.2) ? 0.0 : rng.mag(1e-6, 1e6);
			unsigned k	 = rng.irange(0, 300);
			switch(which)
			{
				case 0: q = {"PMF_Binomial(" + std::to_string(tr) + "," + hexf(p) + "," + std::to_string(x) + ")", valid, [=] { return PMF_Binomial(tr, p, x); }}; break;
				case 1: q = {"CDF_Binomial(" + std::to_string(tr) + "," + hexf(p) + "," + std::to_string(x) + ")", valid, [=] { return CDF_Binomial(tr, p, x); }}; break;
				case 2: q = {"Exponential(" + hexf(arg) + "," + hexf(pos) + ")", valid, [=] { return PDF_Exponential(arg, pos) + CDF_Exponential(arg, pos); }}; break;
				case 3: q = {"Maxwell_Boltzmann(" + hexf(arg) + "," + hexf(pos) + ")", valid, [=] { return PDF_Maxwell_Boltzmann(arg, pos) + CDF_Maxwell_Boltzmann(arg, pos); }}; break;
				case 4: q = {"Poisson(" + hexf(valid ? pos : -std::fabs(pos) - 1e-300) + "," + std::to_string(k) + ")", valid, [=] { double m = valid ? std::min(pos, 1e3) : -std::fabs(pos) - 1e-300; return PMF_Poisson(m, k) + CDF_Poisson(m, k); }}; break;
				default: q = {"Inv_CDF_Poisson(" + std::to_string(k) + "," + hexf(valid ? rng.uni(1e-6, 1 - 1e-6) : p) + ")", valid, [=, c = valid ? rng.uni(1e-6, 1 - 1e-6) : p] { return Inv_CDF_Poisson(k, c); }}; break;
			}
			break;
		}
		case 8: {
			unsigned d = rng.irange(1, 14);
			double x   = rng.mag(1e-200, 1e200);
			q = {"Round(" + hexf(x) + "," + std::to_string(d) + ")", d <= 7, [=] { return Round(x, d); }};
			break;
		}
		case 9: {
			int n = rng.irange(0, 5);
			// table lengths incl. too short
			q = {"Interpolation ctor N=" + std::to_string(n), n >= 3, [=] { Interpolation I(xs(n), ys(n)); return I(xs(n)[n / 2]); }};
			break;
		}
		case 10: {
			unsigned nx = rng.irange(3, 6), ny = rng.irange(3, 6), fx = rng.coin(0.5) ? nx : rng.irange(0, 7), fy = rng.coin(0.5) ? ny : rng.irange(0, 7);
			q = {"Interpolation_2D ctor grid " + std::to_string(nx) + "x" + std::to_string(ny) + " values " + std::to_string(fx) + "x" + std::to_string(fy), nx == fx && ny == fy, [=] {
					 Interpolation_2D I(xs(nx), xs(ny), std::vector<std::vector<double>>(fx, std::vector<double>(fy, 1.5)));
					 return I(xs(nx)[1], xs(ny)[1]);
				 }};
			break;
		}
		default: {
			unsigned r = rng.irange(1, 5), c = rng.coin(0.5) ? r : rng.irange(1, 5);
			int op = rng.irange(0, 2);
			q = {"square-only op" + std::to_string(op) + " " + std::to_string(r) + "x" + std::to_string(c), r == c, [=] { return op == 0 ? mat(r, c).Trace() : op == 1 ? mat(r, c).Determinant() : msum(mat(r, c).Inverse()); }};
			break;
		}
	}
	run_request(q);
}

static void setup()
{
	char tmpl[] = "/tmp/verif-c10-XXXXXX";
	tmpdir		= mkdtemp(tmpl) ? tmpl : "/tmp";
	build_catalogue();
	add_generator("catalogue", cat.size(), [](Rng&, uint64_t i) { run_request(cat[i]); });
	add_generator("random_guards", ctx().count(3000, 100000), random_guard);
	static pid_t owner = getpid();
	atexit([] {
		if(getpid() != owner)
			return;	  // a request child leaving through std::exit() must not remove the directory
		std::string cmd = "rm -rf '" + tmpdir + "'";
		if(tmpdir.find("/tmp/verif-c10-") == 0 && system(cmd.c_str()) != 0)
			(void) 0;
	});
}
VERIF_MAIN("C10", setup)
