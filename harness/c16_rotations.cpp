// C16 - rotations and spherical coordinates are geometrically correct for every axis (DESIGN.md section 4, C16).
// All oracles are geometric identities evaluated in long double on the returned matrix / vector; nothing from the library is used as reference.
#include "linalg_common.hpp"

using namespace libphysica;
using namespace vf;
using namespace la;

struct V3
{
	ld x, y, z;
};
static V3 cross(const V3& a, const V3& b) { return {a.y * b.z - a.z * b.y, a.z * b.x - a.x * b.z, a.x * b.y - a.y * b.x}; }
static ld dot(const V3& a, const V3& b) { return a.x * b.x + a.y * b.y + a.z * b.z; }
static ld norm(const V3& a) { return sqrtl(dot(a, a)); }
static V3 scale(const V3& a, ld s) { return {a.x * s, a.y * s, a.z * s}; }
static V3 unit(const V3& a) { return scale(a, 1 / norm(a)); }
static V3 apply(const LM& R, const V3& v) { return {R(0, 0) * v.x + R(0, 1) * v.y + R(0, 2) * v.z, R(1, 0) * v.x + R(1, 1) * v.y + R(1, 2) * v.z, R(2, 0) * v.x + R(2, 1) * v.y + R(2, 2) * v.z}; }
static const ld PIl = 3.14159265358979323846264338327950288L;
static ld wrap(ld a)   // to (-pi, pi]
{
	a = fmodl(a, 2 * PIl);
	if(a > PIl)
		a -= 2 * PIl;
	if(a <= -PIl)
		a += 2 * PIl;
	return a;
}

// axes: Gaussian directions, the six coordinate directions, directions within 1e-12 / 1e-7 / 1e-3 of +-z, lengths 1e-6..1e6
static std::vector<double> gen_axis(Rng& rng, int kind, bool& special)
{
	V3 d;
	special = false;
	switch(kind % 8)
	{
		case 0: {
			int c = rng.irange(0, 5);
			d	  = {c == 0 ? 1.0L : c == 1 ? -1.0L : 0.0L, c == 2 ? 1.0L : c == 3 ? -1.0L : 0.0L, c == 4 ? 1.0L : c == 5 ? -1.0L : 0.0L};
			break;
		}
		case 1:
		case 2: {
			double tilt = (kind % 8 == 1) ? rng.loguni(1e-13, 1e-11) : rng.loguni(1e-9, 1e-6);
			// transverse components whose squares underflow, down to subnormal numbers (seeded change C16-r6m3: sin(theta)/hypot overflowed)
			if(kind % 8 == 1 && rng.coin(0.3))
				tilt = rng.coin() ? rng.loguni(1e-323, 1e-300) : rng.loguni(1e-300, 1e-150);
			double ang	= rng.uni(0, 2 * M_PI);
			ld sz		= rng.coin() ? 1 : -1;
			d			= {(ld) tilt * cosl(ang), (ld) tilt * sinl(ang), sz};
			special		= true;
			break;
		}
		case 3: {
			double tilt = rng.loguni(1e-5, 1e-2);
			double ang	= rng.uni(0, 2 * M_PI);
			d			= {(ld) tilt * cosl(ang), (ld) tilt * sinl(ang), rng.coin() ? 1.0L : -1.0L};
			special		= true;
			break;
		}
		case 4:	  // in the xy plane or with one zero component
			d = {(ld) rng.normal(), (ld) rng.normal(), 0.0L};
			if(rng.coin())
				std::swap(d.y, d.z);
			special = true;
			break;
		default:
			d		= {(ld) rng.normal(), (ld) rng.normal(), (ld) rng.normal()};
			special = true;
			break;
	}
	double len = rng.coin(0.4) ? 1.0 : rng.loguni(1e-6, 1e6);
	// lengths that are almost, but not exactly, 1 (seeded change C16-r7m2 skipped the normalisation for axes that "are unit vectors already")
	if(rng.coin(0.08))
		len = 1.0 + rng.sign() * rng.loguni(1e-15, 1e-5);
	ld n	   = norm(d);
	std::vector<double> a = {(double) (d.x / n * len), (double) (d.y / n * len), (double) (d.z / n * len)};
	if(kind % 8 == 0 && len == 1.0)
		for(auto& c : a)
			c = std::round(c);	 // exact coordinate direction (keeps signed zeros out)
	for(auto& c : a)
		if(c == 0)
			c = 0.0;
	return a;
}
static double gen_angle(Rng& rng)
{
	switch(rng.irange(0, 5))
	{
		case 0: return 0.0;
		case 1: return rng.pick(std::vector<double> {M_PI, -M_PI, M_PI / 2, -M_PI / 2, 2 * M_PI, -2 * M_PI, 4 * M_PI, -4 * M_PI, 3 * M_PI});
		case 2: return rng.sign() * rng.loguni(1e-12, 1e-3);
		default: return rng.uni(-4 * M_PI, 4 * M_PI);
	}
}

// ------------------------------------------------------------------------------------------------------------------
static void case_rotation3(Rng& rng, uint64_t index)
{
	bool special;
	std::vector<double> ax = gen_axis(rng, (int) (index % 8), special);
	double alpha = gen_angle(rng), beta = gen_angle(rng);
	set_params(J().d("alpha", alpha).d("beta", beta).vec("axis", ax));
	hash_param(alpha), hash_param(beta), hash_param(ax[0]), hash_param(ax[1]), hash_param(ax[2]);
	if(special)
		mark_nontrivial();
	Vector axis(ax);
	Matrix Rm = Rotation_Matrix(alpha, 3, axis);
	require("rotation-matrix-is-3x3", Rm.Rows() == 3 && Rm.Columns() == 3, [&] { return J().i("rows", Rm.Rows()).i("columns", Rm.Columns()); });
	if(Rm.Rows() != 3 || Rm.Columns() != 3)
		return;
	require("axis-argument-left-unchanged", axis[0] == ax[0] && axis[1] == ax[1] && axis[2] == ax[2], [&] { return J().vec("axis_after", from_lib(axis)); });
	LM R = widen(from_lib(Rm));
	auto det3 = [](const LM& A) { return A(0, 0) * (A(1, 1) * A(2, 2) - A(1, 2) * A(2, 1)) - A(0, 1) * (A(1, 0) * A(2, 2) - A(1, 2) * A(2, 0)) + A(0, 2) * (A(1, 0) * A(2, 1) - A(1, 1) * A(2, 0)); };
	auto rj	  = [&] { return J().vec("R_row_major", from_lib(Rm).a); };
	judge("rotation-transpose-is-inverse", (double) std::max(fro_diff(mul(R, transpose(R)), identity(3)), fro_diff(mul(transpose(R), R), identity(3))), 64 * EPS, rj);
	judge("rotation-determinant-is-one", (double) fabsl(det3(R) - 1), 64 * EPS, rj);
	V3 n	= unit({(ld) ax[0], (ld) ax[1], (ld) ax[2]});
	V3 Rn	= apply(R, n);
	judge("rotation-leaves-the-axis-fixed", (double) norm({Rn.x - n.x, Rn.y - n.y, Rn.z - n.z}), 64 * EPS, [&] { return rj().d("Rn_x", (double) Rn.x).d("Rn_y", (double) Rn.y).d("Rn_z", (double) Rn.z); });
	// perpendicular vectors turn by alpha in the right-handed sense
	for(int m = 0; m < 3; m++)
	{
		V3 g = {(ld) rng.normal(), (ld) rng.normal(), (ld) rng.normal()};
		V3 v = cross(n, g);
		if(norm(v) < 1e-3L)
			continue;
		v	   = scale(unit(v), (ld) rng.loguni(1e-3, 1e3));
		V3 Rv  = apply(R, v);
		ld ang = atan2l(dot(cross(v, Rv), n), dot(v, Rv));
		judge("perpendicular-vectors-turn-by-alpha-right-handed", (double) fabsl(wrap(ang - (ld) alpha)), 1e-13, [&] { return rj().d("measured_angle", (double) ang); });
		judge("rotation-preserves-length", (double) (fabsl(norm(Rv) - norm(v)) / norm(v)), 64 * EPS, rj);
	}
	// composition about the same axis adds angles
	Matrix Rb = Rotation_Matrix(beta, 3, axis), Rab = Rotation_Matrix(alpha + beta, 3, axis);
	LM P	  = mul(R, widen(from_lib(Rb)));
	judge("rotations-about-one-axis-compose-by-adding-angles", (double) fro_diff(P, widen(from_lib(Rab))), 256 * EPS, [&] { return rj().vec("R(alpha+beta)", from_lib(Rab).a); });
	// independence of the axis length: the same direction with another length gives the same matrix (to rounding)
	double s2 = rng.loguni(1e-6, 1e6);
	Vector axis2(std::vector<double> {ax[0] * s2, ax[1] * s2, ax[2] * s2});
	Matrix R2 = Rotation_Matrix(alpha, 3, axis2);
	judge("rotation-independent-of-axis-length", (double) fro_diff(R, widen(from_lib(R2))), 64 * EPS, [&] { return rj().d("length_factor", s2); });
	// default axis is +z; the 3D rotation about z embeds the 2D one
	if(index % 16 == 0)
	{
		Matrix Rz = Rotation_Matrix(alpha, 3);
		double c = std::cos(alpha), s = std::sin(alpha);
		double dev = std::max({std::fabs(Rz[0][0] - c), std::fabs(Rz[0][1] + s), std::fabs(Rz[1][0] - s), std::fabs(Rz[1][1] - c), std::fabs(Rz[2][2] - 1.0), std::fabs(Rz[0][2]), std::fabs(Rz[1][2]), std::fabs(Rz[2][0]), std::fabs(Rz[2][1])});
		judge("default-axis-is-z", dev, 8 * EPS, [&] { return J().vec("R_row_major", from_lib(Rz).a); });
	}
	if(index % 4999 == 0)
		sample();
}
static void case_rotation2(Rng& rng, uint64_t index)
{
	double alpha = gen_angle(rng);
	set_params(J().d("alpha", alpha));
	hash_param(alpha);
	Matrix R = Rotation_Matrix(alpha, 2);
	double c = std::cos(alpha), s = std::sin(alpha);
	bool ok	 = R.Rows() == 2 && R.Columns() == 2 && std::fabs(R[0][0] - c) <= 4 * EPS && std::fabs(R[1][1] - c) <= 4 * EPS && std::fabs(R[1][0] - s) <= 4 * EPS && std::fabs(R[0][1] + s) <= 4 * EPS;
	require("2d-rotation-is-cos-sin-matrix", ok, [&] { return J().vec("R_row_major", from_lib(R).a); });
	(void) index;
}

// ------------------------------------------------------------------------------------------------------------------
static void case_spherical_axis(Rng& rng, uint64_t index)
{
	bool special;
	std::vector<double> ax = gen_axis(rng, (int) (index % 8), special);
	double r = rng.loguni(1e-6, 1e6);
	// "all r > 0": up to the ends of the format (seeded change C16-r7m3 rescaled the result to length r through r^2)
	if(rng.coin(0.12))
		r = rng.loguni(1e-300, 1e300);
	double theta, phi;
	switch(rng.irange(0, 5))
	{
		case 0: theta = 0; break;
		case 1: theta = M_PI; break;
		case 2: theta = rng.loguni(1e-9, 1e-2); break;
		case 3: theta = M_PI - rng.loguni(1e-9, 1e-2); break;
		default: theta = rng.uni(0, M_PI); break;
	}
	phi = rng.coin(0.15) ? 0.0 : rng.uni(0, 2 * M_PI);
	if(!(phi < 2 * M_PI))
		phi = 0;
	// witnesses of defect D36 (squares of the transverse axis components underflow: norm r(1+1.3e-6) before the fix), and its subnormal neighbours
	if(index < 4)
	{
		static const double W[4][3] = {{1.5795784385789043e-158, 2.002465914548687e-158, -39.467653416498443}, {1.2183466264839495e-157, 1.4942049358646938e-157, -1.0}, {1e-310, 0.0, -1.0}, {3e-162, -4e-162, -2.0}};
		ax	  = {W[index][0], W[index][1], W[index][2]};
		r	  = 1.0;
		theta = 1.1, phi = 0.7;
		special = true;
	}
	set_params(J().d("r", r).d("theta", theta).d("phi", phi).vec("axis", ax));
	hash_param(r), hash_param(theta), hash_param(phi), hash_param(ax[0]), hash_param(ax[1]), hash_param(ax[2]);
	if(special)
		mark_nontrivial();
	Vector axis(ax);
	Vector v = Spherical_Coordinates(r, theta, phi, axis);
	require("spherical-returns-3-vector", v.Size() == 3, [&] { return J().i("size", (long long) v.Size()); });
	if(v.Size() != 3)
		return;
	std::vector<double> vc = from_lib(v);
	auto vj = [&] { return J().vec("v", vc); };
	bool finite = std::isfinite(vc[0]) && std::isfinite(vc[1]) && std::isfinite(vc[2]);
	require("spherical-components-finite", finite, vj);
	if(!finite)
		return;
	V3 w = {(ld) vc[0], (ld) vc[1], (ld) vc[2]};
	V3 n = unit({(ld) ax[0], (ld) ax[1], (ld) ax[2]});
	judge("spherical-norm-is-r", (double) (fabsl(norm(w) - (ld) r) / (ld) r), 8 * EPS, vj);
	ld polar = atan2l(norm(cross(n, w)), dot(n, w));
	judge("spherical-polar-angle-to-axis-is-theta", (double) fabsl(polar - (ld) theta), 1e-7, [&] { return vj().d("measured_polar_angle", (double) polar); });
	// right-handed azimuth: in a fixed right-handed frame (e1, e2, n) the azimuth advances by exactly dphi
	if(std::sin(theta) > 1e-3)
	{
		V3 g  = fabsl(n.z) < 0.9L ? V3 {0, 0, 1} : V3 {1, 0, 0};
		V3 e1 = unit(cross(g, n)), e2 = cross(n, e1);
		ld psi0 = atan2l(dot(w, e2), dot(w, e1));
		double dphi = rng.coin(0.3) ? rng.loguni(1e-6, 1e-2) : rng.uni(0.05, 3.0);
		double phi2 = phi + dphi;
		Vector v2	= Spherical_Coordinates(r, theta, phi2, axis);
		V3 w2		= {(ld) v2[0], (ld) v2[1], (ld) v2[2]};
		ld psi1		= atan2l(dot(w2, e2), dot(w2, e1));
		// phi2 = fl(phi + dphi): compare with the increment actually applied
		ld applied = (ld) phi2 - (ld) phi;
		// the library snaps axes within 1.5e-8 of +z onto z (the same effect that sets the 1e-7 polar tolerance); seen from the true axis this shifts
		// the azimuth of a point at polar angle theta by up to snap/sin(theta)
		double snap = (ax[2] > 0 && std::hypot(ax[0], ax[1]) < 1e-7 * ax[2]) ? 4e-8 / std::sin(theta) : 0.0;
		judge("azimuth-advances-right-handed-by-dphi", (double) fabsl(wrap(psi1 - psi0 - applied)), 1e-9 + snap, [&] { return vj().d("dphi", dphi).d("azimuth_before", (double) psi0).d("azimuth_after", (double) psi1); });
	}
	// length of the axis is irrelevant
	double s2 = rng.loguni(1e-6, 1e6);
	Vector axis2(std::vector<double> {ax[0] * s2, ax[1] * s2, ax[2] * s2});
	Vector v3 = Spherical_Coordinates(r, theta, phi, axis2);
	V3 w3	  = {(ld) v3[0], (ld) v3[1], (ld) v3[2]};
	// near the poles of the construction (axis within 1e-7 of +-z) the frame itself is ill-conditioned in the axis components: compare polar angle only
	ld polar3 = atan2l(norm(cross(n, w3)), dot(n, w3));
	judge("spherical-independent-of-axis-length", (double) fabsl(polar3 - polar), 2e-7, [&] { return vj().d("length_factor", s2).vec("v_other_length", from_lib(v3)); });
	if(index % 4999 == 0)
		sample(J().d("measured_polar_angle", (double) polar));
}
static void case_spherical_plain(Rng& rng, uint64_t index)
{
	double r = rng.loguni(1e-6, 1e6), theta = rng.coin(0.2) ? (rng.coin() ? 0.0 : M_PI) : rng.uni(0, M_PI), phi = rng.uni(0, 2 * M_PI);
	set_params(J().d("r", r).d("theta", theta).d("phi", phi));
	hash_param(r), hash_param(theta), hash_param(phi);
	Vector v = Spherical_Coordinates(r, theta, phi);
	double x = r * std::sin(theta) * std::cos(phi), y = r * std::sin(theta) * std::sin(phi), z = r * std::cos(theta);
	bool ok	 = v.Size() == 3 && std::fabs(v[0] - x) <= 8 * EPS * r && std::fabs(v[1] - y) <= 8 * EPS * r && std::fabs(v[2] - z) <= 8 * EPS * r;
	require("plain-spherical-coordinates-closed-form", ok, [&] { return J().vec("v", from_lib(v)).d("x", x).d("y", y).d("z", z); });
	// the axis overload with the z axis (any length) is the plain overload
	if(index % 3 == 0)
	{
		Vector az(std::vector<double> {0.0, 0.0, rng.loguni(1e-6, 1e6)});
		Vector vz = Spherical_Coordinates(r, theta, phi, az);
		bool same = vz.Size() == 3 && std::fabs(vz[0] - x) <= 8 * EPS * r && std::fabs(vz[1] - y) <= 8 * EPS * r && std::fabs(vz[2] - z) <= 8 * EPS * r;
		require("axis-overload-with-z-axis-equals-plain-overload", same, [&] { return J().vec("v", from_lib(vz)); });
	}
}
static void case_angle(Rng& rng, uint64_t index)
{
	int n = rng.irange(2, 5);
	std::vector<double> a(n), b(n);
	for(auto& c : a)
		c = rng.normal();
	double mode = rng.u01();
	if(mode < 0.2)
		b = a, b[0] += rng.loguni(1e-6, 1e-2);	 // nearly parallel
	else if(mode < 0.4)
	{
		b = a;
		for(auto& c : b)
			c = -c;
		b[1] += rng.loguni(1e-6, 1e-2);	  // nearly anti-parallel
	}
	else
		for(auto& c : b)
			c = rng.normal();
	double sa = rng.loguni(1e-6, 1e6), sb = rng.loguni(1e-6, 1e6);
	for(auto& c : a)
		c *= sa;
	for(auto& c : b)
		c *= sb;
	set_params(J().vec("a", a).vec("b", b));
	hash_param(a[0]), hash_param(b[0]), hash_param(a[1]), hash_param(b[1]);
	double got = Angle(Vector(a), Vector(b));
	// reference: atan2(|a|b| - b|a||, |a|b| + b|a||) * 2 (Kahan), well conditioned everywhere
	ld na = 0, nb = 0;
	for(int i = 0; i < n; i++)
		na += (ld) a[i] * a[i], nb += (ld) b[i] * b[i];
	na = sqrtl(na), nb = sqrtl(nb);
	ld d1 = 0, d2 = 0;
	for(int i = 0; i < n; i++)
	{
		ld u = (ld) a[i] * nb, w = (ld) b[i] * na;
		d1 += (u - w) * (u - w);
		d2 += (u + w) * (u + w);
	}
	ld ref = 2 * atan2l(sqrtl(d1), sqrtl(d2));
	judge("angle-between-vectors", (double) fabsl((ld) got - ref), 1e-7, [&] { return J().d("Angle", got).d("reference", (double) ref); });
	require("angle-symmetric", std::fabs(got - Angle(Vector(b), Vector(a))) <= 1e-7, [&] { return J().d("Angle(a,b)", got); });
	(void) index;
}

// ------------------------------------------------------------------------------------------------------------------
// Call histories: the same few angles and (bitwise identical) axes recur in 2D calls, 3D calls with and without an explicit axis, and spherical-coordinate
// calls, in random order.  Every result is compared with a long double reference, so a result that depends on an earlier call (a cache keyed on too little)
// is seen.  (The property does not mention histories because the functions are stateless; that is exactly what this generator observes.)
static void case_history(Rng& rng, uint64_t index)
{
	int n_angles = rng.irange(1, 3), n_axes = rng.irange(1, 2), steps = rng.irange(6, 16);
	std::vector<double> angles;
	std::vector<std::vector<double>> axes;
	for(int i = 0; i < n_angles; i++)
		angles.push_back(gen_angle(rng));
	for(int i = 0; i < n_axes; i++)
	{
		bool special;
		axes.push_back(gen_axis(rng, rng.irange(0, 7), special));
	}
	if(rng.coin(0.3))
		axes[0] = {0.0, 0.0, 1.0};	 // the default axis, bit for bit
	std::vector<int> script;
	for(int i = 0; i < steps; i++)
		script.push_back(rng.irange(0, 4) * 100 + rng.irange(0, n_angles - 1) * 10 + rng.irange(0, n_axes - 1));
	set_params(J().vec("angles", angles).vec("axis0", axes[0]).vec("axis1", axes.back()).i("steps", steps));
	for(double a : angles)
		hash_param(a);
	hash_param(axes[0][0]), hash_param(axes[0][2]), hash_param((double) script[0]), hash_param((double) script.back());
	mark_nontrivial();
	// the axes live in Vector objects that the caller keeps and changes in place between the calls (+=, -=, writes through operator[]): what is handed to
	// the library is the object as it is now (seeded change C16-r7m1 remembered the norm inside the Vector and missed the compound assignments)
	std::vector<Vector> axobj;
	for(auto& a : axes)
		axobj.push_back(Vector(a));
	for(int st = 0; st < steps; st++)
	{
		int kind = script[st] / 100;
		double alpha = angles[(script[st] / 10) % 10];
		if(st > 0 && rng.coin(0.3))
		{
			int k = script[st] % 10;
			std::vector<double> d = {rng.normal(), rng.normal(), rng.normal()}, was = axes[k];
			double sc = rng.coin() ? rng.loguni(1e-3, 1e3) : 1.0;
			for(auto& c : d)
				c *= sc;
			int how = rng.irange(0, 2);
			(void) axobj[k].Norm();
			for(int i = 0; i < 3; i++)
				axes[k][i] = how == 0 ? was[i] + d[i] : how == 1 ? was[i] - d[i] : (i == 1 ? d[i] : was[i]);
			if(how == 0)
				axobj[k] += Vector(d);
			else if(how == 1)
				axobj[k] -= Vector(d);
			else
				axobj[k][1] = d[1];
			if(axes[k][0] == 0 && axes[k][1] == 0 && axes[k][2] == 0)
				axes[k] = was, axobj[k] = Vector(was);
		}
		const std::vector<double>& ax = axes[script[st] % 10];
		const Vector& axv			   = axobj[script[st] % 10];
		auto sj = [&] { return J().i("step", st).i("kind", kind).d("alpha", alpha).vec("axis", ax); };
		if(kind == 0)
		{
			Matrix R = Rotation_Matrix(alpha, 2);
			double c = std::cos(alpha), s = std::sin(alpha);
			bool ok	 = R.Rows() == 2 && R.Columns() == 2 && std::fabs(R[0][0] - c) <= 4 * EPS && std::fabs(R[1][1] - c) <= 4 * EPS && std::fabs(R[1][0] - s) <= 4 * EPS && std::fabs(R[0][1] + s) <= 4 * EPS;
			require("history-2d-rotation-is-cos-sin-matrix", ok, [&] { return sj().vec("R_row_major", from_lib(R).a); });
		}
		else if(kind == 1 || kind == 2)
		{
			bool dflt = kind == 2;
			Matrix Rm = dflt ? Rotation_Matrix(alpha, 3) : Rotation_Matrix(alpha, 3, axv);
			if(!require("history-rotation-matrix-is-3x3", Rm.Rows() == 3 && Rm.Columns() == 3, sj))
				continue;
			V3 n = dflt ? V3 {0, 0, 1} : unit({(ld) ax[0], (ld) ax[1], (ld) ax[2]});
			ld c = cosl((ld) alpha), s = sinl((ld) alpha), C = 1 - c;
			ld ref[3][3] = {{c + n.x * n.x * C, n.x * n.y * C - n.z * s, n.x * n.z * C + n.y * s},
							{n.x * n.y * C + n.z * s, c + n.y * n.y * C, n.y * n.z * C - n.x * s},
							{n.x * n.z * C - n.y * s, n.y * n.z * C + n.x * s, c + n.z * n.z * C}};
			ld dev = 0;
			for(int i = 0; i < 3; i++)
				for(int j = 0; j < 3; j++)
					dev = std::max(dev, fabsl((ld) Rm[i][j] - ref[i][j]));
			judge("history-3d-rotation-vs-rodrigues-reference", (double) dev, 16 * EPS, [&] { return sj().vec("R_row_major", from_lib(Rm).a); });
		}
		else
		{
			double r = rng.loguni(1e-3, 1e3), theta = rng.uni(0.01, M_PI - 0.01), phi = rng.uni(0, 2 * M_PI);
			if(rng.coin(0.15))
				r = rng.loguni(1e-300, 1e300);	 // "all r > 0"
			bool plain = kind == 4;
			Vector v   = plain ? Spherical_Coordinates(r, theta, phi) : Spherical_Coordinates(r, theta, phi, axv);
			if(!require("history-spherical-returns-3-vector", v.Size() == 3, sj))
				continue;
			V3 w = {(ld) v[0], (ld) v[1], (ld) v[2]};
			V3 n = plain ? V3 {0, 0, 1} : unit({(ld) ax[0], (ld) ax[1], (ld) ax[2]});
			judge("history-spherical-norm-is-r", (double) (fabsl(norm(w) - (ld) r) / (ld) r), 8 * EPS, [&] { return sj().vec("v", from_lib(v)); });
			ld polar = atan2l(norm(cross(n, w)), dot(n, w));
			judge("history-spherical-polar-angle-to-axis-is-theta", (double) fabsl(polar - (ld) theta), 1e-7, [&] { return sj().vec("v", from_lib(v)).d("theta", theta); });
			if(plain)
			{
				double x = r * std::sin(theta) * std::cos(phi), y = r * std::sin(theta) * std::sin(phi), z = r * std::cos(theta);
				require("history-plain-spherical-closed-form", std::fabs(v[0] - x) <= 8 * EPS * r && std::fabs(v[1] - y) <= 8 * EPS * r && std::fabs(v[2] - z) <= 8 * EPS * r, [&] { return sj().vec("v", from_lib(v)); });
			}
		}
	}
	if(index % 4999 == 0)
		sample();
}

static void setup()
{
	add_generator("rotation_3d", ctx().count(600000, 96000000), case_rotation3);
	add_generator("rotation_2d", ctx().count(100000, 16000000), case_rotation2);
	add_generator("spherical_with_axis", ctx().count(600000, 96000000), case_spherical_axis);
	add_generator("spherical_plain", ctx().count(100000, 16000000), case_spherical_plain);
	add_generator("angle", ctx().count(100000, 16000000), case_angle);
	add_generator("call_histories", ctx().count(60000, 9600000), case_history);
}
VERIF_MAIN("C16", setup)
