// C20 (file and unit-conversion part) - exported data read back unchanged; In_Units undoes multiplication; derived unit constants
// equal their defining products in this build.  The four-configuration comparison of the unit table is done by bin/propdefs/C20.py
// with harness/c20_units_table.cpp (DESIGN.md section 4, C20).
// Files are written into a private scratch directory created at start-up and removed case by case.
#include "verif.hpp"

#include <cerrno>
#include <dirent.h>
#include <fstream>
#include <sys/stat.h>

#include "libphysica/Natural_Units.hpp"
#include "libphysica/Special_Functions.hpp"
#include "libphysica/Utilities.hpp"

using namespace libphysica;
using namespace libphysica::natural_units;
using namespace vf;

static std::string& scratch_dir()
{
	static std::string d;
	return d;
}
static std::string scratch_file(uint64_t index, const char* tag)
{
	char b[256];
	snprintf(b, sizeof b, "%s/%s_%d_%llu.txt", scratch_dir().c_str(), tag, (int) getpid(), (unsigned long long) index);
	return b;
}

// a value v such that v/unit is 0, an integer, a fraction, or of magnitude spread over ~600 decades (normal doubles only)
static double gen_value(Rng& rng, double unit)
{
	double q;	// the number that will be printed
	switch(rng.irange(0, 8))
	{
		case 0: q = 0.0; break;
		case 8: {
			// exact powers of two and their neighbours, in particular the limits of the integer types (seeded change C20-r6m3 wrote integer-valued
			// entries through long long: +2^63 came back with the opposite sign)
			static const int E[] = {15, 16, 31, 32, 52, 53, 62, 63, 64, 127, 128, -1, -10};
			int e = rng.coin(0.7) ? E[rng.below(13)] : rng.irange(-60, 200);
			q	  = rng.sign() * std::ldexp(1.0, e);
			if(rng.coin(0.25))
				q = rng.coin() ? std::nextafter(q, 0.0) : std::nextafter(q, q * 2);
			break;
		}
		case 1: q = (double) rng.irange(-1000, 1000); break;
		case 2: q = rng.irange(-99999, 99999) / 100.0; break;
		case 3: q = rng.mag(1e-290, 1e290); break;
		case 4: q = rng.sign() * (1.0 + rng.loguni(1e-9, 1e-3)); break;			 // just above a power of ten: 1.00000x
		case 5: q = rng.sign() * 9.999995 * std::pow(10.0, rng.irange(-30, 30)); break;	 // rounds up to the next decade
		default: q = rng.normal() * std::pow(10.0, rng.irange(-12, 12)); break;
	}
	double v = q * unit;
	if(v != 0 && (!std::isfinite(v) || std::fabs(v) < 1e-300 || std::fabs(v) > 1e300 || std::fabs(v / unit) < 1e-300 || std::fabs(v / unit) > 1e300))
		v = rng.normal() * unit;
	return v;
}
static std::string gen_header(Rng& rng, int lines)
{
	static const char* frag[] = {"# x [cm]  y [GeV]", "// table 12 with 3 columns", "1 2 3", "energy=4.5e-3 GeV, 17 points", "%% generated"};
	std::string h;
	for(int i = 0; i < lines; i++)
	{
		if(i)
			h += "\n";
		if(i > 0 && i < lines - 1 && rng.coin(0.4))
			continue;	// a blank line inside a multi-line header
		h += frag[rng.below(5)];
	}
	return h;
}
static bool close6(double got, double want)
{
	if(want == 0)
		return got == 0;
	return std::fabs(got - want) <= 5.1e-6 * std::fabs(want);
}

// In a third of the cases the target file already exists: left by an earlier export of another shape (with or without header) or holding unrelated text.
// An export replaces the file; what was there before must not show up in what is read back (seeded change C20-r2m2 appended when the header was empty).
static void maybe_preexisting(Rng& rng, const std::string& path)
{
	if(!rng.coin(0.34))
		return;
	int kind = rng.irange(0, 2);
	if(kind == 0)
	{
		std::vector<std::vector<double>> old(rng.irange(1, 6), std::vector<double>(rng.irange(1, 5), 0.0));
		for(auto& r : old)
			for(auto& v : r)
				v = rng.uni(-9, 9);
		Export_Table(path, old, {}, rng.coin() ? std::string("") : std::string("# old table"));
	}
	else if(kind == 1)
	{
		std::vector<double> old(rng.irange(1, 9));
		for(auto& v : old)
			v = rng.uni(-9, 9);
		Export_List(path, old, 1.0, rng.coin() ? std::string("") : std::string("# old list"));
	}
	else
	{
		FILE* f = fopen(path.c_str(), "w");
		if(f)
		{
			fputs("1.5\t2.5\t3.5\n4.5\t5.5\t6.5\n", f);
			fclose(f);
		}
	}
}

// What ran in the process before an import: libm calls that overflow or underflow leave errno at ERANGE (or EDOM), and nothing resets it.
// The import must not depend on it (seeded change C20-r6m2 parsed with strtod and tested errno without clearing it first).
static void leave_errno(Rng& rng)
{
	int k = rng.irange(0, 5);
	if(k == 0)
	{
		volatile double big = 1e4;
		volatile double u	= std::exp(-big);	// underflow: ERANGE
		(void) u;
		if(errno != ERANGE)
			errno = ERANGE;
	}
	else if(k == 1)
	{
		volatile double neg = -1.0;
		volatile double u	= std::sqrt(neg);	// EDOM
		(void) u;
	}
	else if(k == 2)
		errno = 0;
}

static void case_table(Rng& rng, uint64_t index)
{
	int rows = (index % 7 == 0) ? 1 : rng.irange(1, rng.coin(0.1) ? 200 : 30), cols = 1 + (int) (index % 12);
	bool units = rng.coin(0.6);
	std::vector<double> dims;
	if(units)
		for(int j = 0; j < cols; j++)
			dims.push_back(rng.coin(0.2) ? 1.0 : rng.loguni(1e-30, 1e30));
	int hl = rng.irange(0, 4);
	std::string header = gen_header(rng, hl);
	std::vector<std::vector<double>> data(rows, std::vector<double>(cols));
	for(auto& r : data)
		for(int j = 0; j < cols; j++)
			r[j] = gen_value(rng, units ? dims[j] : 1.0);
	std::vector<double> first = data[0];
	set_params(J().i("rows", rows).i("columns", cols).i("header_lines", hl).vec("unit_factors", dims).vec("first_row", first));
	hash_param_u(rows * 100 + cols), hash_param_u(hl), hash_param(data[0][0]), hash_param(data[rows - 1][cols - 1]);
	if(cols >= 2 && hl > 0 && units)
		mark_nontrivial();
	std::string path = scratch_file(index, "table");
	maybe_preexisting(rng, path);
	Export_Table(path, data, dims, header);
	leave_errno(rng);
	std::vector<std::vector<double>> back = Import_Table(path, dims, (unsigned) hl);
	unlink(path.c_str());
	bool shape = (int) back.size() == rows;
	for(auto& r : back)
		shape = shape && (int) r.size() == cols;
	require("table-read-back-has-the-same-shape", shape, [&] { return J().i("rows_read", (long long) back.size()).i("columns_read", back.empty() ? 0 : (long long) back[0].size()); });
	if(!shape)
		return;
	for(int i = 0; i < rows; i++)
		for(int j = 0; j < cols; j++)
			if(!close6(back[i][j], data[i][j]))
			{
				require("table-values-read-back-to-six-digits", false, [&] { return J().i("row", i).i("column", j).d("written", data[i][j]).d("read", back[i][j]).d("unit", units ? dims[j] : 1.0); });
				return;
			}
	require("table-values-read-back-to-six-digits", true, [&] { return J(); });
	if(index % 499 == 0)
		sample();
}
// files whose size is exactly (or one byte off) a power-of-two block size: readers that work through a file in blocks meet the end of the data exactly at
// a block boundary (seeded change C20-r7m2 counted lines in 16 KiB blocks and lost the last row when the final read came back empty)
static void case_block_sized_table(Rng& rng, uint64_t index)
{
	static const long T[5] = {4096, 8192, 16384, 32768, 65536};
	long target = T[index % 5] + (long) ((index / 5) % 3) - 1;
	int cols	= rng.irange(3, 12);
	std::vector<double> dims;
	bool units = rng.coin(0.5);
	if(units)
		for(int j = 0; j < cols; j++)
			dims.push_back(rng.coin(0.3) ? 1.0 : rng.loguni(1e-10, 1e10));
	int rows = (int) (target / (cols * 9)) + 2;
	std::vector<std::vector<double>> data(rows, std::vector<double>(cols));
	for(auto& r : data)
		for(int j = 0; j < cols; j++)
			r[j] = gen_value(rng, units ? dims[j] : 1.0);
	std::string path = scratch_file(index, "blocktable");
	set_params(J().i("target_bytes", target).i("columns", cols));
	hash_param_u(index);
	auto size_of = [&]() -> long {
		struct stat st;
		return stat(path.c_str(), &st) == 0 ? (long) st.st_size : -1;
	};
	long got = -1;
	std::string header;
	for(int attempt = 0; attempt < 200 && !data.empty(); attempt++)
	{
		Export_Table(path, data, dims, "#");
		long S = size_of();
		if(S < 0)
			break;
		if(S > target)
		{
			// drop as many rows as the excess is worth (at least one)
			size_t drop = std::max<size_t>(1, (size_t) ((double) (S - target) / ((double) S / (double) data.size())));
			data.resize(data.size() > drop ? data.size() - drop : 0);
			continue;
		}
		header = "#" + std::string((size_t) (target - S), 'x');
		Export_Table(path, data, dims, header);
		got = size_of();
		break;
	}
	if(got != target || data.empty())
	{
		count_outside("table-read-back-has-the-same-shape");
		unlink(path.c_str());
		return;
	}
	mark_nontrivial();
	rows = (int) data.size();
	leave_errno(rng);
	std::vector<std::vector<double>> back = Import_Table(path, dims, 1u);
	unlink(path.c_str());
	bool shape = (int) back.size() == rows;
	for(auto& r : back)
		shape = shape && (int) r.size() == cols;
	require("table-read-back-has-the-same-shape", shape, [&] { return J().i("file_bytes", got).i("rows_written", rows).i("rows_read", (long long) back.size()).i("columns_read", back.empty() ? 0 : (long long) back[0].size()); });
	if(!shape)
		return;
	for(int i = 0; i < rows; i++)
		for(int j = 0; j < cols; j++)
			if(!close6(back[i][j], data[i][j]))
			{
				require("table-values-read-back-to-six-digits", false, [&] { return J().i("file_bytes", got).i("row", i).i("column", j).d("written", data[i][j]).d("read", back[i][j]); });
				return;
			}
}
static void case_list(Rng& rng, uint64_t index)
{
	int n		= rng.irange(1, 200);
	double unit = rng.coin(0.5) ? 1.0 : rng.loguni(1e-30, 1e30);
	int hl		= rng.irange(0, 3);
	std::string header = gen_header(rng, hl);
	std::vector<double> data(n);
	for(auto& v : data)
		v = gen_value(rng, unit);
	set_params(J().i("length", n).d("unit", unit).i("header_lines", hl).vec("data", data));
	hash_param_u(n), hash_param(unit), hash_param(data[0]);
	if(hl > 0 && unit != 1.0)
		mark_nontrivial();
	std::string path = scratch_file(index, "list");
	maybe_preexisting(rng, path);
	Export_List(path, data, unit, header);
	leave_errno(rng);
	std::vector<double> back = Import_List(path, unit, (unsigned) hl);
	unlink(path.c_str());
	require("list-read-back-has-the-same-length", back.size() == data.size(), [&] { return J().i("read", (long long) back.size()); });
	if(back.size() != data.size())
		return;
	bool ok = true;
	size_t bad = 0;
	for(size_t i = 0; i < data.size(); i++)
		if(!close6(back[i], data[i]))
			ok = false, bad = i;
	require("list-values-read-back-to-six-digits", ok, [&] { return J().i("index", (long long) bad).d("written", data[bad]).d("read", back[bad]); });
}
static void case_function(Rng& rng, uint64_t index)
{
	bool grid = index % 2;
	double ux = rng.coin() ? 1.0 : rng.loguni(1e-20, 1e20), uf = rng.coin() ? 1.0 : rng.loguni(1e-20, 1e20);
	std::vector<double> dims = rng.coin(0.3) ? std::vector<double> {} : std::vector<double> {ux, uf};
	if(dims.empty())
		ux = uf = 1.0;
	double a = rng.uni(0.1, 3), k = rng.uni(-2, 2);
	std::function<double(double)> f = [=](double x) { return uf * a * std::exp(k * x / ux / 10.0) * std::cos(x / ux); };
	int hl = rng.irange(0, 2);
	std::string header = gen_header(rng, hl);
	std::vector<double> xs;
	std::string path = scratch_file(index, "func");
	set_params(J().i("grid_overload", grid).vec("unit_factors", dims).i("header_lines", hl));
	hash_param_u(index), hash_param(a), hash_param(k);
	mark_nontrivial();
	maybe_preexisting(rng, path);
	if(grid)
	{
		double x0 = ux * rng.uni(0.1, 2), x1 = ux * rng.uni(3, 30);
		unsigned steps = (unsigned) rng.irange(2, 60);
		bool logarithmic = rng.coin();
		xs = logarithmic ? Log_Space(x0, x1, steps) : Linear_Space(x0, x1, steps);
		Export_Function(path, f, x0, x1, steps, dims, logarithmic, header);
	}
	else
	{
		int n = rng.irange(1, 50);
		for(int i = 0; i < n; i++)
			xs.push_back(ux * rng.uni(-20, 20));
		Export_Function(path, f, xs, dims, header);
	}
	std::vector<std::vector<double>> back = Import_Table(path, dims, (unsigned) hl);
	unlink(path.c_str());
	bool shape = back.size() == xs.size();
	for(auto& r : back)
		shape = shape && r.size() == 2;
	require("function-table-read-back-has-the-same-shape", shape, [&] { return J().i("rows_read", (long long) back.size()).i("points", (long long) xs.size()); });
	if(!shape)
		return;
	bool ok = true;
	size_t bad = 0;
	for(size_t i = 0; i < xs.size(); i++)
		if(!close6(back[i][0], xs[i]) || !close6(back[i][1], f(xs[i])))
			ok = false, bad = i;
	require("function-values-read-back-to-six-digits", ok, [&] { return J().i("row", (long long) bad).d("x", xs[bad]).d("f(x)", f(xs[bad])).d("x_read", back[bad][0]).d("f_read", back[bad][1]); });
}

// ------------------------------------------------------------------------------------------------------------------
// "rounds to the requested digits": the value Round() gives for the quotient, or - when the implementation forms the quotient differently (product with
// the reciprocal: the quotient may sit on the other side of a rounding boundary) - any d-digit number within half a unit of the d-th digit of it
static bool rounded_ok(double got, double q, int digits)
{
	// independent of the library's own Round(): the result is within half a unit of the last requested digit of q, and has no more than the requested digits
	if(q == 0)
		return got == 0;
	if(!std::isfinite(q) || !std::isfinite(got))
		return false;
	int e = (int) std::floor(std::log10(std::fabs(q)));
	for(int de = -1; de <= 1; de++)
	{
		long double unit_d = powl(10.0L, e + de - digits + 1);
		if(fabsl((long double) got - (long double) q) <= 0.5L * unit_d * (1 + 1e-9L) && std::fabs(q) >= std::pow(10.0, e + de) * (1 - 1e-9) && std::fabs(q) < std::pow(10.0, e + de + 1) * (1 + 1e-9))
		{
			long double m = (long double) got / unit_d;	  // an integer of at most digits+1 figures, to rounding
			if(fabsl(m - roundl(m)) <= 1e-6L)
				return true;
		}
	}
	return false;
}

static void case_in_units(Rng& rng, uint64_t index)
{
	double unit = rng.loguni(1e-30, 1e30);
	// units whose numerical value is special: exactly 1 (GeV in natural units, dimensionless factors), -1, powers of two and ten
	if(index % 6 == 5)
		unit = rng.pick(std::vector<double> {1.0, 1.0, -1.0, 2.0, 0.5, 10.0, 1e-3, 1e9});
	int rows = rng.irange(1, 5), cols = rng.irange(1, 5);
	std::vector<std::vector<double>> q(rows, std::vector<double>(cols)), t(rows, std::vector<double>(cols));
	std::vector<double> dims(cols);
	for(auto& d : dims)
		d = (index % 6 == 5 && rng.coin()) ? 1.0 : rng.loguni(1e-30, 1e30);
	for(int i = 0; i < rows; i++)
		for(int j = 0; j < cols; j++)
			q[i][j] = rng.coin(0.2) ? rng.mag(1e-268, 1e268) : rng.mag(1e-100, 1e100), t[i][j] = q[i][j] * unit;
	int digits = rng.irange(1, 7);
	set_params(J().d("unit", unit).i("rows", rows).i("columns", cols).i("digits", digits).vec("first_row", q[0]));
	hash_param(unit), hash_param(q[0][0]), hash_param_u(rows * 10 + cols);
	mark_nontrivial();
	auto rel = [](double got, double want) { return std::fabs(got - want) / std::fabs(want); };
	double worst = 0;
	bool round_ok = true;
	// scalar
	worst	 = std::max(worst, rel(In_Units(t[0][0], unit), q[0][0]));
	round_ok = round_ok && rounded_ok(In_Units(t[0][0], unit, true, digits), t[0][0] / unit, digits);
	// std::vector
	std::vector<double> v1 = In_Units(t[0], unit), v1r = In_Units(t[0], unit, true, digits);
	bool shape = v1.size() == (size_t) cols && v1r.size() == (size_t) cols;
	for(int j = 0; shape && j < cols; j++)
	{
		worst	 = std::max(worst, rel(v1[j], q[0][j]));
		round_ok = round_ok && rounded_ok(v1r[j], t[0][j] / unit, digits);
	}
	// nested, single unit
	std::vector<std::vector<double>> m1 = In_Units(t, unit), m1r = In_Units(t, unit, true, digits);
	shape = shape && m1.size() == (size_t) rows && m1r.size() == (size_t) rows;
	for(int i = 0; shape && i < rows; i++)
	{
		shape = m1[i].size() == (size_t) cols && m1r[i].size() == (size_t) cols;
		for(int j = 0; shape && j < cols; j++)
		{
			worst	 = std::max(worst, rel(m1[i][j], q[i][j]));
			round_ok = round_ok && rounded_ok(m1r[i][j], t[i][j] / unit, digits);
		}
	}
	// nested, per-column units
	std::vector<std::vector<double>> tc = q;
	for(int i = 0; i < rows; i++)
		for(int j = 0; j < cols; j++)
			tc[i][j] = q[i][j] * dims[j];
	std::vector<std::vector<double>> m2 = In_Units(tc, dims), m2r = In_Units(tc, dims, true, digits);
	shape = shape && m2.size() == (size_t) rows && m2r.size() == (size_t) rows;
	for(int i = 0; shape && i < rows; i++)
	{
		shape = m2[i].size() == (size_t) cols && m2r[i].size() == (size_t) cols;
		for(int j = 0; shape && j < cols; j++)
		{
			worst	 = std::max(worst, rel(m2[i][j], q[i][j]));
			round_ok = round_ok && rounded_ok(m2r[i][j], tc[i][j] / dims[j], digits);
		}
	}
	// Vector and Matrix
	Vector vv(t[0]);
	Vector vv1 = In_Units(vv, unit), vv1r = In_Units(vv, unit, true, digits);
	shape = shape && vv1.Size() == (unsigned) cols && vv1r.Size() == (unsigned) cols;
	for(int j = 0; shape && j < cols; j++)
	{
		worst	 = std::max(worst, rel(vv1[j], q[0][j]));
		round_ok = round_ok && rounded_ok(vv1r[j], t[0][j] / unit, digits);
	}
	Matrix mm(t);
	Matrix mm1 = In_Units(mm, unit), mm1r = In_Units(mm, unit, true, digits);
	shape = shape && mm1.Rows() == (unsigned) rows && mm1.Columns() == (unsigned) cols && mm1r.Rows() == (unsigned) rows && mm1r.Columns() == (unsigned) cols;
	for(int i = 0; shape && i < rows; i++)
		for(int j = 0; j < cols; j++)
		{
			worst	 = std::max(worst, rel(mm1[i][j], q[i][j]));
			round_ok = round_ok && rounded_ok(mm1r[i][j], t[i][j] / unit, digits);
		}
	require("in-units-overloads-keep-the-shape", shape, [&] { return J().i("rows", rows).i("columns", cols); });
	judge("in-units-undoes-multiplication-by-the-unit", worst, 2 * EPS, [&] { return J().d("worst_relative_error", worst); });
	require("in-units-rounds-like-Round-when-asked", round_ok, [&] { return J().i("digits", digits); });
}

// derived unit constants equal their defining products of base constants (in this build)
static void case_unit_identities(Rng&, uint64_t)
{
	set_params(J().str("build", VERIF_FLAVOUR));
	mark_nontrivial();
	struct Id
	{
		const char* name;
		double value, defining;
	};
	const Id ids[] = {
		{"Joule = kg m^2/s^2", Joule, kg * meter * meter / sec / sec},
		{"erg = g cm^2/s^2", erg, gram * cm * cm / sec / sec},
		{"erg = 1e-7 Joule", erg, 1e-7 * Joule},
		{"cal = 4.184 Joule", cal, 4.184 * Joule},
		{"Newton = kg m/s^2", Newton, kg * meter / sec / sec},
		{"dyne = g cm/s^2", dyne, gram * cm / sec / sec},
		{"Watt = Joule/s", Watt, Joule / sec},
		{"Pa = N/m^2", Pa, Newton / meter / meter},
		{"bar = 1e5 Pa", bar, 1e5 * Pa},
		{"barye = dyne/cm^2 = 0.1 Pa", barye, 0.1 * Pa},
		{"Volt Coulomb = Joule", Volt * Coulomb, Joule},
		{"Ohm = Volt/Ampere", Ohm, Volt / Ampere},
		{"Siemens = 1/Ohm", Siemens, 1.0 / Ohm},
		{"Ampere = Coulomb/s", Ampere, Coulomb / sec},
		{"Farad = Coulomb/Volt", Farad, Coulomb / Volt},
		{"Tesla = N s/(C m)", Tesla, Newton * sec / (Coulomb * meter)},
		{"Gauss = 1e-4 Tesla", Gauss, 1e-4 * Tesla},
		{"Weber = Tesla m^2", Weber, Tesla * meter * meter},
		{"Hz = 1/s", Hz, 1.0 / sec},
		{"ms = 1e-3 s", ms, 1e-3 * sec},
		{"ns = 1e-9 s", ns, 1e-9 * sec},
		{"minute = 60 s", minute, 60 * sec},
		{"hr = 3600 s", hr, 3600 * sec},
		{"day = 86400 s", day, 86400 * sec},
		{"week = 7 day", week, 7 * day},
		{"year = 365.25 day", year, 365.25 * day},
		{"kg = 1e3 g", kg, 1e3 * gram},
		{"tonne = 1e3 kg", tonne, 1e3 * kg},
		{"mm = 0.1 cm", mm, 0.1 * cm},
		{"meter = 100 cm", meter, 100 * cm},
		{"km = 1e3 m", km, 1e3 * meter},
		{"fm = 1e-15 m", fm, 1e-15 * meter},
		{"inch = 2.54 cm", inch, 2.54 * cm},
		{"foot = 12 inch", foot, 12 * inch},
		{"yard = 3 foot", yard, 3 * foot},
		{"mile = 1609.344 m", mile, 1609.344 * meter},
		{"Angstrom = 1e-10 m", Angstrom, 1e-10 * meter},
		{"sec = c * meter (c = 299792458)", sec, 299792458.0 * meter},
		{"eV = 1e-9 GeV", eV, 1e-9 * GeV},
		{"keV = 1e-6 GeV", keV, 1e-6 * GeV},
		{"MeV = 1e-3 GeV", MeV, 1e-3 * GeV},
		{"TeV = 1e3 GeV", TeV, 1e3 * GeV},
		{"barn = 1e-24 cm^2", barn, 1e-24 * cm * cm},
		{"hectare = 1e4 m^2", hectare, 1e4 * meter * meter},
		{"kpc = 1e3 pc", kpc, 1e3 * pc},
		{"Mpc = 1e6 pc", Mpc, 1e6 * pc},
		{"arcmin = deg/60", arcmin, deg / 60},
		{"arcsec = deg/3600", arcsec, deg / 3600},
	};
	for(const Id& id : ids)
	{
		bool fin = std::isfinite(id.value) && id.value != 0;
		require("unit-constant-finite-and-non-zero", fin, [&] { return J().str("identity", id.name).d("value", id.value); });
		if(fin)
			judge("derived-unit-equals-its-defining-product", std::fabs(id.value - id.defining) / std::fabs(id.defining), 8 * EPS, [&] { return J().str("identity", id.name).d("value", id.value).d("defining_product", id.defining); });
	}
	sample(J().d("Joule", Joule).d("Volt", Volt).d("Ohm", Ohm));
}

static void setup()
{
	// private scratch directory (removed at exit of the parent driver; files are unlinked case by case)
	const char* base = getenv("TMPDIR");
	std::string tmpl = std::string(base && *base ? base : "/tmp") + "/verif-c20-XXXXXX";
	std::vector<char> buf(tmpl.begin(), tmpl.end());
	buf.push_back(0);
	if(mkdtemp(buf.data()) == nullptr)
	{
		emit("{\"t\":\"fatal\",\"reason\":\"cannot create scratch directory\"}");
		_exit(3);
	}
	scratch_dir() = buf.data();
	static struct Cleaner
	{
		pid_t owner = getpid();
		~Cleaner()
		{
			if(getpid() != owner)
				return;
			if(DIR* d = opendir(scratch_dir().c_str()))
			{
				while(struct dirent* e = readdir(d))
					if(e->d_name[0] != '.')
						unlink((scratch_dir() + "/" + e->d_name).c_str());
				closedir(d);
			}
			rmdir(scratch_dir().c_str());
		}
	} cleaner;
	add_generator("unit_identities", 1, case_unit_identities);
	add_generator("tables", ctx().count(28800, 3600000), case_table);
	add_generator("block_sized_tables", ctx().count(45, 1500), case_block_sized_table);
	add_generator("lists", ctx().count(9600, 1200000), case_list);
	add_generator("functions", ctx().count(4800, 600000), case_function);
	add_generator("in_units_overloads", ctx().count(32000, 4000000), case_in_units);
}
VERIF_MAIN("C20", setup)
