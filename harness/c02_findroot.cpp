// C02 - Find_Root returns a root of the bracketed function to the requested accuracy.
// Events: return value, the ordered list of abscissae at which the user function was called, process outcome.
#include "verif.hpp"

#include <memory>

#include "libphysica/Numerics.hpp"

using namespace libphysica;
using namespace vf;

struct Fn
{
	std::string name;
	std::function<double(double)> f;
	double root;	 // a root inside the bracket (NaN if not known in closed form)
	bool linear = false;
	std::vector<double> pars;
};

struct Trace
{
	std::vector<double> xs;
};

// Build one (function, bracket) pair.  All families are continuous on the bracket and have opposite signs at its ends.
static bool make_case(Rng& rng, int family, Fn& F, double& lo, double& hi)
{
	switch(family)
	{
		case 0: {	// power law x^p - c on a bracket spanning up to 12 decades
			double p   = rng.coin() ? rng.uni(0.2, 6.0) : -rng.uni(0.2, 4.0);
			double r   = rng.loguni(1e-6, 1e6);
			double dl  = rng.loguni(1.001, 1e6), dr = rng.loguni(1.001, 1e6);
			lo		   = r / dl;
			hi		   = r * dr;
			double c   = std::pow(r, p);
			F.name	   = "x^p-c";
			F.pars	   = {p, c};
			F.f		   = [p, c](double x) { return std::pow(x, p) - c; };
			F.root	   = r;
			break;
		}
		case 1: {	// atan(s x) - c, saturating
			double s = rng.loguni(1e-3, 1e3), r = rng.mag(1e-3, 1e3);
			double c = std::atan(s * r);
			double w1 = rng.loguni(1e-3, 1e4), w2 = rng.loguni(1e-3, 1e4);
			lo = r - w1;
			hi = r + w2;
			F.name = "atan(sx)-c";
			F.pars = {s, c};
			F.f	   = [s, c](double x) { return std::atan(s * x) - c; };
			F.root = r;
			break;
		}
		case 2: {	// erf(x) - p, incl. p -> +-(1-1e-12)
			double p;
			if(rng.coin(0.4))
				p = rng.sign() * (1.0 - rng.loguni(1e-12, 1e-2));
			else
				p = rng.uni(-0.99, 0.99);
			lo	   = -rng.uni(6.0, 12.0);
			hi	   = rng.uni(6.0, 12.0);
			F.name = "erf(x)-p";
			F.pars = {p};
			F.f	   = [p](double x) { return std::erf(x) - p; };
			F.root = NAN;
			break;
		}
		case 3: {	// (x-r)^3 and (x-r)^5: flat at the root
			double r = rng.mag(1e-3, 1e3);
			int k	 = rng.coin() ? 3 : 5;
			double w1 = rng.loguni(1e-3, 1e3), w2 = rng.loguni(1e-3, 1e3);
			lo = r - w1;
			hi = r + w2;
			F.name = k == 3 ? "(x-r)^3" : "(x-r)^5";
			F.pars = {r};
			F.f	   = [r, k](double x) { double d = x - r; return k == 3 ? d * d * d : d * d * d * d * d; };
			F.root = r;
			break;
		}
		case 4: {	// exp(k(x-r)) - 1
			double r = rng.mag(1e-2, 1e2), k = rng.mag(1e-2, 30.0);
			double w1 = rng.uni(0.01, 20.0 / std::fabs(k)), w2 = rng.uni(0.01, 20.0 / std::fabs(k));
			lo = r - w1;
			hi = r + w2;
			F.name = "exp(k(x-r))-1";
			F.pars = {k, r};
			F.f	   = [k, r](double x) { return std::expm1(k * (x - r)); };
			F.root = r;
			break;
		}
		case 5: {	// tanh(k(x-r)), k up to 1e3: almost a step
			double r = rng.mag(1e-2, 1e2), k = rng.loguni(1e-2, 1e3);
			double w1 = rng.loguni(1e-3, 1e3), w2 = rng.loguni(1e-3, 1e3);
			lo = r - w1;
			hi = r + w2;
			F.name = "tanh(k(x-r))";
			F.pars = {k, r};
			F.f	   = [k, r](double x) { return std::tanh(k * (x - r)); };
			F.root = r;
			break;
		}
		case 6: {	// CDF-like: 1-exp(-x/m) - q on [0, big]
			double m = rng.loguni(1e-3, 1e3), q = rng.coin(0.3) ? 1.0 - rng.loguni(1e-12, 1e-2) : rng.uni(0.01, 0.99);
			lo = 0.0;
			hi = m * rng.uni(30.0, 60.0);
			F.name = "1-exp(-x/m)-q";
			F.pars = {m, q};
			F.f	   = [m, q](double x) { return -std::expm1(-x / m) - q; };
			F.root = NAN;
			break;
		}
		case 7: {	// non-monotone with one root inside: (x-r)(1+a sin^2(w x)) keeps the sign of x-r
			double r = rng.mag(1e-2, 1e2), a = rng.uni(0.0, 5.0), w = rng.loguni(0.1, 50.0);
			double w1 = rng.loguni(1e-2, 1e2), w2 = rng.loguni(1e-2, 1e2);
			lo = r - w1;
			hi = r + w2;
			F.name = "(x-r)(1+a sin^2(wx))";
			F.pars = {r, a, w};
			F.f	   = [r, a, w](double x) { double s = std::sin(w * x); return (x - r) * (1.0 + a * s * s); };
			F.root = r;
			break;
		}
		case 8: {	// three roots inside the bracket: (x-r1)(x-r2)(x-r3)
			double c = rng.mag(1e-2, 1e2), d1 = rng.loguni(1e-3, 10.0), d2 = rng.loguni(1e-3, 10.0);
			double r1 = c - d1, r2 = c, r3 = c + d2;
			lo = r1 - rng.loguni(1e-3, 10.0);
			hi = r3 + rng.loguni(1e-3, 10.0);
			F.name = "cubic with three roots";
			F.pars = {r1, r2, r3};
			F.f	   = [r1, r2, r3](double x) { return (x - r1) * (x - r2) * (x - r3); };
			F.root = NAN;
			break;
		}
		case 9: {	// linear s*(x-r): solved exactly
			double r = rng.coin(0.1) ? 0.0 : rng.mag(1e-6, 1e6), s = rng.mag(1e-6, 1e6);
			double sc = std::max(std::fabs(r), 1e-6);
			double w1 = sc * rng.loguni(1e-6, 1e3), w2 = sc * rng.loguni(1e-6, 1e3);
			lo = r - w1;
			hi = r + w2;
			F.name	 = "s(x-r)";
			F.pars	 = {s, r};
			F.f		 = [s, r](double x) { return s * (x - r); };
			F.root	 = r;
			F.linear = true;
			break;
		}
		case 11: {	 // steep power law whose values span hundreds of decades inside one bracket: x^p - c with hi^p ~ 1e100..1e200 and c ~ 1e-200..1e-20
					 // (all values stay normal doubles: nearer the underflow threshold x^p - c degenerates into a step)
			double p	= rng.uni(20.0, 60.0);
			double hi_p = rng.uni(100.0, 200.0), c_p = -rng.uni(20.0, 200.0);
			hi			= std::pow(10.0, hi_p / p);
			double r	= std::pow(10.0, c_p / p);
			lo			= r / rng.loguni(2.0, 1e3);
			double c	= std::pow(r, p);
			F.name		= "x^p-c (steep, values over hundreds of decades)";
			F.pars		= {p, c};
			F.f			= [p, c](double x) { return std::pow(x, p) - c; };
			F.root		= r;
			break;
		}
		default: {	 // concave/convex with inflection: x|x|^q + b(x-r) style: sign(x-r)|x-r|^q
			double r = rng.mag(1e-2, 1e2), q = rng.uni(0.3, 3.0);
			double w1 = rng.loguni(1e-3, 1e3), w2 = rng.loguni(1e-3, 1e3);
			lo = r - w1;
			hi = r + w2;
			F.name = "sign(x-r)|x-r|^q";
			F.pars = {r, q};
			F.f	   = [r, q](double x) { double d = x - r; return (d < 0 ? -1.0 : 1.0) * std::pow(std::fabs(d), q); };
			F.root = r;
			break;
		}
	}
	if(!(lo < hi))
		return false;
	double fl = F.f(lo), fh = F.f(hi);
	if(!std::isfinite(fl) || !std::isfinite(fh) || fl == 0.0 || fh == 0.0 || ((fl < 0.0) == (fh < 0.0)))
		return false;
	return true;
}

static void root_case(Rng& rng, uint64_t)
{
	Fn F;
	double lo, hi;
	int family = rng.irange(0, 11);
	if(!make_case(rng, family, F, lo, hi))
	{
		count_outside("returned-point-inside-bracket");
		return;
	}
	// Root finding is invariant under a rescaling of the function values: a quarter of the cases multiply f by 1e-300..1e-100 or 1e100..1e300
	// (values near the root then lie far below 1e-150, where products of two function values underflow, or far above 1e150, where they overflow)
	double fscale = 1.0;
	if(family != 11 && rng.coin(0.25))
	{
		fscale = rng.coin(0.7) ? std::pow(10.0, -rng.uni(100, 300)) : std::pow(10.0, rng.uni(100, 300));
		auto g	   = F.f;
		double s   = fscale;
		auto scaled = [g, s](double x) { return g(x) * s; };
		double fl = scaled(lo), fh = scaled(hi);
		if(std::isfinite(fl) && std::isfinite(fh) && fl != 0.0 && fh != 0.0 && std::fabs(fl) > 1e-290 && std::fabs(fh) > 1e-290 && ((fl < 0) != (fh < 0)))
		{
			F.f = scaled;
			F.name += " x const";
			F.pars.push_back(fscale);
		}
		else
			fscale = 1.0;
	}
	double width = hi - lo;
	double rscale = std::isnan(F.root) ? std::max(std::fabs(lo), std::fabs(hi)) : std::fabs(F.root);
	double acc_min = std::max(1e-14 * rscale, 1e-300);
	if(rscale == 0.0)
		acc_min = 1e-14 * width;
	double acc = rng.coin(0.15) ? acc_min * rng.uni(1.0, 3.0) : rng.loguni(acc_min, width);
	// "up to the bracket width": the width itself, as computed, and one ulp either side (seeded change C02-r7m2 returned the midpoint of a bracket
	// that is not wider than the accuracy, without the step that solves linear functions exactly)
	if(rng.coin(0.06))
	{
		acc = width;
		if(rng.coin(0.4))
			acc = rng.coin() ? std::nextafter(width, 0.0) : std::nextafter(width, INFINITY);
	}
	bool swapped = rng.coin(0.3);
	auto tr = std::make_shared<Trace>();
	auto f	= F.f;
	std::function<double(double)> wrapped = [tr, f](double x) { tr->xs.push_back(x); return f(x); };
	J p;
	p.str("function", F.name).vec("pars", F.pars).d("lo", lo).d("hi", hi).d("accuracy", acc).i("swapped", swapped);
	set_params(p);
	hash_param(lo), hash_param(hi), hash_param(acc);
	for(double q : F.pars)
		hash_param(q);
	double r;
	{
		BudgetGuard g(5000);
		r = swapped ? Find_Root(wrapped, hi, lo, acc) : Find_Root(wrapped, lo, hi, acc);
	}
	size_t nev = tr->xs.size();
	if(nev >= 7)
	{
		mark_nontrivial();
		count_nontrivial("sign-change-within-accuracy");
	}
	// (a) inside the bracket
	require("returned-point-inside-bracket", r >= lo && r <= hi, [&] { return J().d("root", r); });
	// (b) every evaluation inside the bracket, exactly
	double worst = 0;
	bool inside	 = true;
	for(double x : tr->xs)
		if(!(x >= lo && x <= hi))
		{
			inside = false;
			worst  = x;
		}
	require("evaluations-inside-bracket", inside, [&] { return J().d("evaluated_at", worst).i("evaluations", (long long) nev); });
	// (c) sign change (or zero) within the accuracy of the returned point
	if(r >= lo && r <= hi)
	{
		double fr = F.f(r);
		double a = std::max(lo, r - acc), b = std::min(hi, r + acc);
		double fa = F.f(a), fb = F.f(b);
		bool ok = (fr == 0.0) || ((fa < 0.0) != (fb < 0.0)) || (fa == 0.0) || (fb == 0.0);	  // signs, not products: tiny values must not underflow the oracle
		if(!ok)
		{
			// several roots may lie inside the window: scan it
			double prev = fa;
			for(int i = 1; i <= 2000 && !ok; i++)
			{
				double x = a + (b - a) * i / 2000.0;
				double v = F.f(x);
				if(v == 0.0 || ((v < 0.0) != (prev < 0.0)))
					ok = true;
				prev = v;
			}
		}
		require("sign-change-within-accuracy", ok, [&] { return J().d("returned", r).d("f(returned)", fr).d("f(r-acc)", fa).d("f(r+acc)", fb).d("known_root", F.root).i("evaluations", (long long) nev); });
	}
	// (e) linear functions are solved exactly (to rounding)
	if(F.linear)
		judge("linear-solved-exactly", std::fabs(r - F.root), 16 * EPS * std::max(std::fabs(lo), std::fabs(hi)), [&] { return J().d("returned", r).d("root", F.root); });
	if(nev >= 7)
		sample(J().d("returned", r).i("evaluations", (long long) nev));
}

// (d) a bracket end that is itself a zero is returned as is (bit-identical), in either order
static void end_zero_case(Rng& rng, uint64_t)
{
	double r = rng.coin(0.2) ? 0.0 : rng.mag(1e-6, 1e6);
	double w = std::max(std::fabs(r), 1e-3) * rng.loguni(1e-6, 1e3);
	bool left = rng.coin();
	double lo = left ? r : r - w, hi = left ? r + w : r;
	int k	  = rng.irange(1, 5);
	// k = 4, 5: the value at the zero end is a negative zero (-(r - x) h(x) with h > 0 resp. with a further root inside the bracket)
	double r2 = left ? r + 0.37 * w : r - 0.37 * w;
	auto f	  = [r, k, r2, left](double x) {
		double d = x - r;
		switch(k)
		{
			case 1: return d;
			case 2: return d * std::fabs(d);
			case 3: return d * d * d;
			case 4: return -(r - x) * (1.0 + 0.5 * std::sin(x));
			default: return -(r - x) * (left ? (r2 - x) : (x - r2));
		}
	};
	bool swapped = rng.coin();
	set_params(J().d("zero_at", r).d("lo", lo).d("hi", hi).i("swapped", swapped).i("power", k));
	hash_param(lo), hash_param(hi);
	mark_nontrivial();
	double got = swapped ? Find_Root(f, hi, lo, w * 1e-6) : Find_Root(f, lo, hi, w * 1e-6);
	require("end-zero-returned-as-is", same_bits(got, r) || (got == r), [&] { return J().d("returned", got).d("zero_end", r); });
}

// (f) no sign change or NaN at an end: the process must terminate with a diagnostic and print no number
static void reject_case(Rng& rng, uint64_t)
{
	int kind  = rng.irange(0, 3);
	double lo = rng.mag(1e-3, 1e3), hi = lo + rng.loguni(1e-3, 1e3);
	bool swapped = rng.coin();
	std::function<double(double)> f;
	std::string what;
	double c = rng.loguni(1e-3, 1e3);
	switch(kind)
	{
		case 0: what = "both positive"; f = [c, lo](double x) { return c + (x - lo) * (x - lo); }; break;
		case 1: what = "both negative"; f = [c, lo](double x) { return -c - std::fabs(x - lo); }; break;
		case 2: what = "NaN at one end"; f = [lo, hi, swapped](double x) { return x == (swapped ? hi : lo) ? std::nan("") : x - 0.5 * (lo + hi); }; break;
		default: what = "NaN at both ends"; f = [lo, hi](double x) { return (x == lo || x == hi) ? std::nan("") : x - 0.5 * (lo + hi); }; break;
	}
	set_params(J().str("kind", what).d("lo", lo).d("hi", hi).i("swapped", swapped));
	hash_param(lo), hash_param(hi), hash_param_u(kind);
	mark_nontrivial();
	Outcome o = run_isolated([&](const std::function<void(const std::string&)>& send) {
		double r = swapped ? Find_Root(f, hi, lo, 1e-6) : Find_Root(f, lo, hi, 1e-6);
		send(hexf(r));
	});
	expect_reject("bad-bracket-terminates-with-diagnostic", o);
}

// Regression witnesses of the repaired defect D12 (successive-iterate stopping rule)
static void witness_case(Rng&, uint64_t i)
{
	struct W
	{
		const char* name;
		std::function<double(double)> f;
		double lo, hi, acc;
	};
	static std::vector<W> ws = {
		{"(x-1)^3 on [-3,2.5]", [](double x) { double d = x - 1; return d * d * d; }, -3.0, 2.5, 1e-6},
		{"erf(x)-(1-1e-10) on [-10,10] (Inv_Erf)", [](double x) { return std::erf(x) - (1 - 1e-10); }, -10.0, 10.0, 1e-4},
		{"x^5-1e-10 on [1e-6,1e4]", [](double x) { return std::pow(x, 5.0) - 1e-10; }, 1e-6, 1e4, 1e-8},
		{"x^0.3-2 on [1e-3,1e6]", [](double x) { return std::pow(x, 0.3) - 2.0; }, 1e-3, 1e6, 1e-9},
		// D24: function values far below 1e-154 / above 1e154 (products of two values underflow / overflow)
		{"1e-200*(3x-1) on [0,1]", [](double x) { return 1e-200 * (3 * x - 1); }, 0.0, 1.0, 1e-6},
		{"1e200*(x^3-2) on [0,5]", [](double x) { return 1e200 * (x * x * x - 2); }, 0.0, 5.0, 1e-9},
		{"1e-170*(x^20-1e-5) on [1e-10,1e3]", [](double x) { return 1e-170 * (std::pow(x, 20.0) - 1e-5); }, 1e-10, 1e3, 1e-7},
		// brackets whose width is not representable (x2 - x1 overflows): "all brackets [a,b] ... and all widths"
		{"step at 3e289 on [-1e308,1e308]", [](double x) { return std::atan((x - 3e289) * 1e-285); }, -1e308, 1e308, 1e285},
		// (a saturating function on such a bracket is bisected at best: the accuracy must be within 2^90 of the width or the library's cap of 100 iterations
		// decides - stated as an assumption of this check)
		{"atan(x+2e5)-style step at 2e290 on [1.6e308,-4e307] (reversed)", [](double x) { return std::atan((x - 2e290) * 1e-285); }, 1.6e308, -4e307, 1e285},
	};
	if(i >= ws.size())
		return;
	const W& w = ws[i];
	set_params(J().str("witness", w.name).d("lo", w.lo).d("hi", w.hi).d("accuracy", w.acc));
	mark_nontrivial();
	hash_param_u(i);
	double xlo = std::min(w.lo, w.hi), xhi = std::max(w.lo, w.hi);
	bool outside = false;
	uint64_t evals = 0;
	std::function<double(double)> traced = [&](double x) {
		evals++;
		if(!(x >= xlo && x <= xhi))
			outside = true;
		return w.f(x);
	};
	double r;
	{
		BudgetGuard g(5000);
		r = Find_Root(traced, w.lo, w.hi, w.acc);
	}
	require("evaluations-inside-bracket", !outside, [&] { return J().str("witness", w.name).i("evaluations", (long long) evals); });
	double a = std::max(xlo, r - w.acc), b = std::min(xhi, r + w.acc);
	bool ok	  = w.f(r) == 0.0 || w.f(a) == 0.0 || w.f(b) == 0.0 || ((w.f(a) < 0.0) != (w.f(b) < 0.0));
	require("sign-change-within-accuracy", ok, [&] { return J().d("returned", r).d("f(r-acc)", w.f(a)).d("f(r+acc)", w.f(b)); }, "D12-witness");
}

static void setup()
{
	add_generator("witness", 9, witness_case);
	add_generator("roots", ctx().count(1000000, 160000000), root_case);
	add_generator("end_zero", ctx().count(10000, 800000), end_zero_case);
	add_generator("reject", ctx().count(1500, 80000), reject_case);
}
VERIF_MAIN("C02", setup)
