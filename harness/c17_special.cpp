// C17 - scalar special functions and vector spherical harmonics match their definitions (DESIGN.md section 4, C17).
// References: Dawson's integral by the driver's own long double Gauss-Legendre quadrature of int_0^x exp(t^2-x^2) dt, Boost.Math erf_inv
// and spherical_harmonic evaluated in long double; Round is judged against the decimal definition with exact long double arithmetic.
#include "special_common.hpp"
#include "verif.hpp"

#include <complex>

#include <boost/math/special_functions/erf.hpp>
#include <boost/math/special_functions/spherical_harmonic.hpp>

#include "libphysica/Special_Functions.hpp"

using namespace libphysica;
using namespace vf;
using namespace sp;
typedef std::complex<ld> cld;

// ------------------------------------------------------------------------------------------------------------------
// Dawson F(x) = exp(-x^2) int_0^x exp(t^2) dt, reference in long double
static ld dawson_ref(ld x)
{
	ld ax = fabsl(x);
	if(ax == 0)
		return 0;
	ld lo	   = (ax > 6) ? std::max((ld) 0, ax - 45 / ax) : 0;	  // below lo the integrand is < e^-80
	ld width   = std::min((ld) 0.25, 1 / (2 * ax));
	int panels = (int) ceill((ax - lo) / width);
	panels	   = std::max(panels, 1);
	ld s	   = gl_composite([&](ld t) { return expl((t - ax) * (t + ax)); }, lo, ax, panels, 16);
	return x < 0 ? -s : s;
}

static void case_dawson(Rng& rng, uint64_t index)
{
	double x;
	switch(index % 6)
	{
		case 0: x = rng.sign() * (0.2 + rng.sign() * rng.loguni(1e-12, 1e-2)); break;	 // both sides of the series/sum switch
		case 1: x = rng.sign() * rng.loguni(1e-8, 0.2); break;
		case 2: x = rng.uni(-3, 3); break;
		case 3: x = rng.sign() * rng.uni(3, 30); break;
		case 4: x = rng.sign() * 0.4 * (rng.irange(1, 70) + rng.sign() * rng.loguni(1e-9, 0.5)); break;   // around the grid points n*H of the sampling sum
		default: x = rng.uni(-30, 30); break;
	}
	if(index == 0)
		x = 0.0;
	if(index == 6)
		x = 0.2;
	if(index == 12)
		x = -0.2;
	set_params(J().d("x", x));
	hash_param(x);
	if(std::fabs(std::fabs(x) - 0.2) < 1e-3)
		mark_nontrivial();
	double f = Dawson_Integral(x), fm = Dawson_Integral(-x);
	ld ref	 = dawson_ref(x);
	judge("dawson-accurate-to-2e-7-absolutely", (double) fabsl((ld) f - ref), 2e-7, [&] { return J().d("Dawson_Integral", f).d("reference", (double) ref); });
	require("dawson-is-odd", near_ulps(fm, -f, 4) || (f == 0 && fm == 0), [&] { return J().d("F(x)", f).d("F(-x)", fm); });
	// Erfi = 2/sqrt(pi) exp(x^2) F(x)
	double e   = Erfi(x);
	ld eref	   = 2 / sqrtl(acosl(-1.0L)) * expl((ld) x * x) * ref;
	bool ref_overflows = fabsl(eref) > 1.79769313486231570e308L;
	if(std::fabs(x) <= 26.6 && !ref_overflows)
	{
		if(x == 0)
			require("erfi-accurate-to-1e-6-relatively", e == 0.0, [&] { return J().d("Erfi", e); });
		else
			judge("erfi-accurate-to-1e-6-relatively", (double) (fabsl((ld) e - eref) / fabsl(eref)), 1e-6, [&] { return J().d("Erfi", e).d("reference", (double) eref); });
	}
	else if(ref_overflows)
		require("erfi-overflows-to-infinity-of-the-right-sign", std::isinf(e) && ((e > 0) == (x > 0)), [&] { return J().d("Erfi", e); });
	else
		count_outside("erfi-accurate-to-1e-6-relatively");	 // 26.6 < |x|, true value finite but exp(x^2) already overflows: not claimed
	double em = Erfi(-x);
	require("erfi-is-odd", near_ulps(em, -e, 4) || (e == 0 && em == 0), [&] { return J().d("Erfi(x)", e).d("Erfi(-x)", em); });
	if(index % 4999 == 0)
		sample(J().d("Dawson_Integral", f).d("reference", (double) ref));
}

static void case_inverf(Rng& rng, uint64_t index)
{
	double p;
	switch(index % 4)
	{
		case 0: p = rng.sign() * (1.0 - rng.loguni(1e-12, 1e-2)); break;
		case 1: p = rng.sign() * rng.loguni(1e-12, 1e-2); break;
		default: p = rng.uni(-1, 1); break;
	}
	if(index == 0)
		p = 0.0;
	if(!(std::fabs(p) < 1.0))
		p = 0.5;
	set_params(J().d("p", p));
	hash_param(p);
	if(1 - std::fabs(p) < 1e-3)
		mark_nontrivial();
	double z = Inv_Erf(p), zm = Inv_Erf(-p);
	ld ref	 = boost::math::erf_inv((ld) p, boost_pol);
	judge("inv-erf-within-1e-4-of-erfinv", (double) fabsl((ld) z - ref), 1e-4, [&] { return J().d("Inv_Erf", z).d("reference", (double) ref); });
	judge("inv-erf-odd-within-its-accuracy", std::fabs(z + zm), 2e-4, [&] { return J().d("Inv_Erf(p)", z).d("Inv_Erf(-p)", zm); });
	if(index % 4999 == 0)
		sample(J().d("Inv_Erf", z).d("reference", (double) ref));
}

// ------------------------------------------------------------------------------------------------------------------
// Round
static double gen_round_arg(Rng& rng, uint64_t index)
{
	int dec = rng.irange(-300, 300);
	switch(index % 6)
	{
		case 0: return rng.sign() * rng.uni(1, 10) * std::pow(10.0, dec);
		case 1: {	// just below / at / above a power of ten
			double p = std::pow(10.0, rng.irange(-300, 300));
			int k	 = rng.irange(-3, 3);
			double v = p;
			for(int i = 0; i < std::abs(k); i++)
				v = std::nextafter(v, k > 0 ? INFINITY : 0.0);
			return rng.sign() * v;
		}
		case 2: {	// exact half-way decimals with few digits: (integer + 0.5) * 10^e
			int d	 = rng.irange(1, 7);
			double m = rng.irange((int) std::pow(10.0, d - 1), (int) std::pow(10.0, d) - 1) + 0.5;
			return rng.sign() * m * std::pow(10.0, rng.irange(-20, 20));
		}
		case 3: return rng.sign() * (double) rng.irange(1, 99999999);
		case 4: {	// d-digit decimals plus a tiny perturbation
			int d	 = rng.irange(1, 7);
			double m = rng.irange((int) std::pow(10.0, d - 1), (int) std::pow(10.0, d) - 1);
			return rng.sign() * m * std::pow(10.0, rng.irange(-30, 30)) * (1 + rng.sign() * rng.loguni(1e-16, 1e-8));
		}
		default: return rng.mag(1e-300, 1e300);
	}
}
static void case_round(Rng& rng, uint64_t index)
{
	double x	   = gen_round_arg(rng, index);
	unsigned d	   = (unsigned) rng.irange(1, 7);
	if(index == 0)
		x = 0.0;
	set_params(J().d("x", x).i("digits", d));
	hash_param(x), hash_param_u(d);
	double r = Round(x, d), rm = Round(-x, d);
	require("round-is-odd", near_ulps(rm, -r, 4) || (r == 0 && rm == 0), [&] { return J().d("Round(x)", r).d("Round(-x)", rm); });
	if(x == 0)
	{
		require("round-of-zero-is-zero", r == 0.0, [&] { return J().d("Round", r); });
		return;
	}
	// unit of the d-th significant digit of x (exact decimal exponent from long double log10 with a guard for the boundary)
	ld ax	= fabsl((ld) x);
	int e10 = (int) floorl(log10l(ax));
	if(powl(10.0L, e10 + 1) <= ax)
		e10++;
	if(powl(10.0L, e10) > ax)
		e10--;
	if(std::fabs(std::log10(std::fabs(x)) - std::round(std::log10(std::fabs(x)))) < 1e-9)
		mark_nontrivial();	 // within a hair of a power of ten
	ld unit = powl(10.0L, e10 - (int) d + 1);
	judge("round-within-half-a-unit-of-the-dth-digit", (double) (fabsl((ld) r - (ld) x) / unit), 0.5 + 1e-6, [&] { return J().d("Round", r).d("unit_of_last_digit", (double) unit); });
	// idempotent up to a few ulp (10^k is not representable, see DESIGN 5.4)
	double rr = Round(r, d);
	judge("round-idempotent-to-4-ulp", ulp_dist(rr, r), 4, [&] { return J().d("Round(x)", r).d("Round(Round(x))", rr); });
	// monotone up to a few ulp: a nearby larger argument never rounds to something smaller
	double y = (rng.coin() ? std::nextafter(x, INFINITY) : x + std::fabs(x) * rng.loguni(1e-16, 1.0));
	if(y > x && std::isfinite(y))
	{
		double ry = Round(y, d);
		double bad = (ry < r) ? ulp_dist(ry, r) : 0.0;
		judge("round-monotone-to-4-ulp", bad, 4, [&] { return J().d("y", y).d("Round(x)", r).d("Round(y)", ry); });
	}
	// vector / matrix overloads are element-wise
	if(index % 8 == 0)
	{
		std::vector<double> xs = {x, gen_round_arg(rng, index + 1), gen_round_arg(rng, index + 2)};
		Vector v			   = Round(Vector(xs), d);
		Matrix M({xs, {xs[2], xs[0], xs[1]}});
		Matrix RM = Round(M, d);
		bool ok	  = v.Size() == 3 && RM.Rows() == 2 && RM.Columns() == 3;
		for(int i = 0; ok && i < 3; i++)
			ok = same_bits(v[i], Round(xs[i], d)) && same_bits(RM[0][i], Round(xs[i], d)) && same_bits(RM[1][i], Round(xs[(i + 2) % 3], d));
		require("round-vector-matrix-overloads-elementwise", ok, [&] { return J().vec("xs", xs); });
	}
}

// ------------------------------------------------------------------------------------------------------------------
static void case_simple(Rng& rng, uint64_t index)
{
	auto gen = [&]() -> double {
		switch(rng.irange(0, 6))
		{
			case 0: return 0.0;
			case 1: return -0.0;
			case 2: return rng.mag(1e-300, 1e300);
			case 3: return rng.sign() * 4.9e-324 * rng.irange(1, 5);
			default: return rng.normal();
		}
	};
	double a = gen(), b = gen();
	if(index % 5 == 0)
		b = a * (1 + rng.sign() * rng.loguni(1e-16, 1e-6));	  // nearly equal
	if(index % 7 == 0)
		b = a;
	set_params(J().d("a", a).d("b", b));
	hash_param(a), hash_param(b);
	if(a == 0 || b == 0)
		mark_nontrivial();
	int sa = Sign(a);
	require("sign-definition", sa == (a > 0 ? 1 : a < 0 ? -1 : 0), [&] { return J().i("Sign", sa); });
	double st = StepFunction(a);
	require("step-function-definition", st == (a >= 0 ? 1.0 : 0.0), [&] { return J().d("StepFunction", st); });
	// Sign(x,y): |x| with the sign agreement rule of the library: x if Sign(x)==Sign(y) else -x
	double sxy = Sign(a, b);
	double exp = (Sign(a) == Sign(b)) ? a : -a;
	require("sign-transfer-consistent-with-sign", same_bits(sxy, exp) || (sxy == 0 && exp == 0), [&] { return J().d("Sign(a,b)", sxy); });
	double rd = Relative_Difference(a, b), rd2 = Relative_Difference(b, a);
	double mx = std::max(std::fabs(a), std::fabs(b));
	double ex = (mx == 0) ? 0.0 : std::fabs(a - b) / mx;
	require("relative-difference-definition", near_ulps(rd, ex, 4) || std::fabs(rd - ex) <= 4 * EPS, [&] { return J().d("Relative_Difference", rd).d("expected", ex); });
	require("relative-difference-symmetric", near_ulps(rd, rd2, 4) || std::fabs(rd - rd2) <= 4 * EPS, [&] { return J().d("(a,b)", rd).d("(b,a)", rd2); });
	require("relative-difference-of-equal-arguments-is-zero", Relative_Difference(a, a) == 0.0, [&] { return J().d("Relative_Difference(a,a)", Relative_Difference(a, a)); });
	double tol = rng.coin() ? 1e-10 : rng.loguni(1e-15, 1e-1);
	bool fe = Floats_Equal(a, b, tol), fe2 = Floats_Equal(b, a, tol);
	require("floats-equal-symmetric", fe == fe2, [&] { return J().d("tol", tol).i("(a,b)", fe).i("(b,a)", fe2); });
	require("floats-equal-reflexive", Floats_Equal(a, a, tol) && Floats_Equal(b, b, tol), [&] { return J().d("tol", tol); });
	require("floats-equal-consistent-with-relative-difference", fe == (rd < tol), [&] { return J().d("tol", tol).i("Floats_Equal", fe).d("Relative_Difference", rd); });
	require("floats-equal-signed-zeros", Floats_Equal(0.0, -0.0, tol) && Floats_Equal(-0.0, 0.0, tol) && Floats_Equal(0.0, 0.0, tol), [&] { return J().d("tol", tol); });
}

// ------------------------------------------------------------------------------------------------------------------
// Vector spherical harmonics
static cld Yref(int l, int m, ld th, ld ph)
{
	if(l < 0 || std::abs(m) > l)
		return 0;
	std::complex<ld> v = boost::math::spherical_harmonic(l, m, th, ph, boost_pol);
	return v;
}
// d/dtheta Y_lm by the ladder operators: 1/2 [ sqrt((l-m)(l+m+1)) e^{-i phi} Y_{l,m+1} - sqrt((l+m)(l-m+1)) e^{i phi} Y_{l,m-1} ]
static cld dY_dtheta(int l, int m, ld th, ld ph)
{
	cld up = sqrtl((ld) (l - m) * (l + m + 1)) * std::exp(cld(0, -ph)) * Yref(l, m + 1, th, ph);
	cld dn = sqrtl((ld) (l + m) * (l - m + 1)) * std::exp(cld(0, ph)) * Yref(l, m - 1, th, ph);
	return (up - dn) * 0.5L;
}
static bool ladder_self_check()
{
	// the oracle's derivative formula against a central difference of Boost's Y (once per process)
	ld worst = 0;
	for(int l = 0; l <= 6; l++)
		for(int m = -l; m <= l; m++)
		{
			ld th = 0.7L + 0.1L * l, ph = 0.3L + 0.2L * m, h = 1e-6L;
			cld fd = (Yref(l, m, th + h, ph) - Yref(l, m, th - h, ph)) / (2 * h);
			worst  = std::max(worst, std::abs(fd - dY_dtheta(l, m, th, ph)));
		}
	return worst < 1e-8L;
}
struct Dir
{
	double th, ph;
	const char* kind;
};
static Dir gen_dir(Rng& rng, uint64_t k)
{
	switch(k % 10)
	{
		case 0: return {0.0, rng.uni(0, 2 * M_PI), "north pole"};
		case 1: return {M_PI, rng.uni(0, 2 * M_PI), "south pole"};
		case 2: return {M_PI / 2, rng.uni(0, 2 * M_PI), "equator"};
		case 3: return {M_PI / 2, (double) rng.irange(0, 3) * M_PI / 2, "coordinate axis"};
		case 4: return {rng.loguni(1e-8, 1e-2), rng.uni(0, 2 * M_PI), "near north pole"};
		case 5: return {M_PI - rng.loguni(1e-8, 1e-2), rng.uni(0, 2 * M_PI), "near south pole"};
		default: return {std::acos(rng.uni(-1, 1)), rng.uni(0, 2 * M_PI), "random"};
	}
}
static void case_vsh(Rng& rng, uint64_t index)
{
	static const bool ladder_ok = ladder_self_check();
	// all (l,m) with l<=12 exhaustively: 169 pairs; index -> pair, direction kind
	int lm = (int) (index % 169), l = 0;
	while((l + 1) * (l + 1) <= lm)
		l++;
	int m  = lm - l * l - l;
	Dir D  = gen_dir(rng, index / 169);
	set_params(J().i("l", l).i("m", m).d("theta", D.th).d("phi", D.ph).str("direction", D.kind));
	hash_param_u((uint64_t) (l * 100 + m + 50)), hash_param(D.th), hash_param(D.ph);
	if(m != 0)
		mark_nontrivial();
	require("oracle-self-check-ladder-derivative", ladder_ok, [&] { return J(); });
	ld th = D.th, ph = D.ph;
	ld st = sinl(th), ct = cosl(th), sp_ = sinl(ph), cp = cosl(ph);
	ld rhat[3] = {st * cp, st * sp_, ct}, that[3] = {ct * cp, ct * sp_, -st}, phat[3] = {-sp_, cp, 0};
	auto cj = [](const std::vector<std::complex<double>>& v) {
		std::vector<double> o;
		for(auto& c : v)
			o.push_back(c.real()), o.push_back(c.imag());
		return o;
	};
	// scalar harmonic: conjugation symmetry and agreement with the long double reference
	std::complex<double> y = Spherical_Harmonics(l, m, D.th, D.ph), ym = Spherical_Harmonics(l, -m, D.th, D.ph);
	double sgn = (m % 2 == 0) ? 1.0 : -1.0;
	judge("Y(l,-m)-is-(-1)^m-conj-Y(l,m)", std::abs(ym - sgn * std::conj(y)), 64 * EPS, [&] { return J().d("re", y.real()).d("im", y.imag()).d("re(-m)", ym.real()).d("im(-m)", ym.imag()); });
	cld yr = Yref(l, m, th, ph);
	judge("spherical-harmonic-vs-long-double-reference", (double) std::abs(cld(y.real(), y.imag()) - yr), 64 * EPS * (1 + l), [&] { return J().d("re", y.real()).d("im", y.imag()).d("ref_re", (double) yr.real()).d("ref_im", (double) yr.imag()); });
	// vector harmonic Y = rhat * Y_lm
	std::vector<std::complex<double>> VY = Vector_Spherical_Harmonics_Y(l, m, D.th, D.ph), VP = Vector_Spherical_Harmonics_Psi(l, m, D.th, D.ph);
	require("vector-harmonics-have-3-components", VY.size() == 3 && VP.size() == 3, [&] { return J().i("sizeY", (long long) VY.size()).i("sizePsi", (long long) VP.size()); });
	if(VY.size() != 3 || VP.size() != 3)
		return;
	double eY = 0, ePsiR = 0;
	cld radial = 0;
	for(int i = 0; i < 3; i++)
	{
		eY = std::max(eY, (double) std::abs(cld(VY[i].real(), VY[i].imag()) - rhat[i] * yr));
		radial += rhat[i] * cld(VP[i].real(), VP[i].imag());
	}
	ePsiR = (double) std::abs(radial);
	judge("vector-harmonic-Y-is-radial-unit-vector-times-Ylm", eY, 64 * EPS * (1 + l), [&] { return J().vec("Y_components_re_im", cj(VY)); });
	judge("vector-harmonic-Psi-is-tangential", ePsiR, 64 * EPS * (1 + l * l), [&] { return J().vec("Psi_components_re_im", cj(VP)); });
	// Psi = r grad Y = theta_hat dY/dtheta + phi_hat (i m / sin theta) Y
	if(st > 1e-6L)
	{
		cld dth = dY_dtheta(l, m, th, ph), dph = cld(0, (ld) m) * yr / st;
		double e = 0;
		for(int i = 0; i < 3; i++)
			e = std::max(e, (double) std::abs(cld(VP[i].real(), VP[i].imag()) - (that[i] * dth + phat[i] * dph)));
		judge("vector-harmonic-Psi-is-r-times-gradient-of-Ylm", e, 64 * EPS * (1 + l * l / (double) st), [&] { return J().vec("Psi_components_re_im", cj(VP)).d("dY_dtheta_re", (double) dth.real()).d("dY_dtheta_im", (double) dth.imag()); });
	}
	else
		count_outside("vector-harmonic-Psi-is-r-times-gradient-of-Ylm");
	// exactly at a pole the gradient has a finite limit (non-zero for |m| = 1): the value there continues the field next to the pole, taken from the
	// reference at polar distance 1e-5 (seeded change C17-r7m2 returned zeros at the poles for every m != 0)
	if(D.th == 0.0 || D.th == M_PI)
	{
		ld eps_t = 1e-5L, th2 = (D.th == 0.0) ? eps_t : (ld) M_PI - eps_t;
		ld st2 = sinl(th2), ct2 = cosl(th2);
		ld that2[3] = {ct2 * cp, ct2 * sp_, -st2};
		cld yr2 = Yref(l, m, th2, ph), dth2 = dY_dtheta(l, m, th2, ph), dph2 = cld(0, (ld) m) * yr2 / st2;
		double e = 0;
		for(int i = 0; i < 3; i++)
			e = std::max(e, (double) std::abs(cld(VP[i].real(), VP[i].imag()) - (that2[i] * dth2 + phat[i] * dph2)));
		judge("vector-harmonic-Psi-at-the-pole-continues-the-field-next-to-it", e, 8.0 * (1 + l) * (1 + l) * (1 + l) * (double) eps_t + 64 * EPS * (1 + l * l * 1e5), [&] { return J().vec("Psi_components_re_im", cj(VP)); });
	}
	// a result kept by reference stays what it was when another harmonic is evaluated afterwards (binding a returned temporary to a const reference is
	// ordinary C++; seeded change C17-r7m1 returned a reference to one buffer shared by all calls)
	// (one case in three: the extra calls change the call history of the cases that follow, and histories in which a direction is used for several
	// (l,m) in a row and then changed are what exposes stale per-direction caches - seeded change C17-r2m2)
	if(index % 3 == 0)
	{
		const std::vector<std::complex<double>>& heldY = Vector_Spherical_Harmonics_Y(l, m, D.th, D.ph);
		const std::vector<std::complex<double>>& heldP = Vector_Spherical_Harmonics_Psi(l, m, D.th, D.ph);
		std::vector<std::complex<double>> copyY = heldY, copyP = heldP;
		const std::vector<std::complex<double>>& otherY = Vector_Spherical_Harmonics_Y(l + 1, -m, 0.5 * (D.th + 1.0), D.ph + 0.3);
		const std::vector<std::complex<double>>& otherP = Vector_Spherical_Harmonics_Psi(l + 1, -m, 0.5 * (D.th + 1.0), D.ph + 0.3);
		(void) otherY, (void) otherP;
		require("a-result-held-by-reference-is-not-changed-by-later-calls", heldY == copyY && heldP == copyP && copyY == VY && copyP == VP, [&] { return J().vec("held_Y_now", cj(heldY)).vec("Y_when_returned", cj(copyY)); });
	}
	// conjugation symmetry of the vector harmonics
	std::vector<std::complex<double>> VYm = Vector_Spherical_Harmonics_Y(l, -m, D.th, D.ph), VPm = Vector_Spherical_Harmonics_Psi(l, -m, D.th, D.ph);
	double es = 0;
	for(int i = 0; i < 3; i++)
		es = std::max(es, std::max(std::abs(VYm[i] - sgn * std::conj(VY[i])), std::abs(VPm[i] - sgn * std::conj(VP[i]))));
	judge("vector-harmonics-conjugation-symmetry", es, 64 * EPS * (1 + l * l), [&] { return J().vec("Psi(-m)", cj(VPm)); });
	if(index % 1999 == 0)
		sample(J().vec("Psi_components_re_im", cj(VP)));
}
static void case_vsh_component_reject(Rng& rng, uint64_t index)
{
	int comp = (index % 2) ? 3 : (index % 4 == 0 ? -1 : 7);
	bool psi = (index / 2) % 2;
	int l = rng.irange(0, 12), m = rng.irange(-l, l);
	set_params(J().i("component", comp).i("psi", psi).i("l", l).i("m", m));
	hash_param_u(index);
	mark_nontrivial();
	Outcome o = run_isolated([&](const std::function<void(const std::string&)>& send) {
		std::complex<double> c = psi ? VSH_Psi_Component(comp, l, m, l + 1, m) : VSH_Y_Component(comp, l, m, l + 1, m);
		send(hexf(c.real()));
	});
	if(o.kind == WATCHDOG)
	{
		inconclusive("watchdog on a rejected request");
		return;
	}
	expect_reject("component-index-out-of-range-terminates-with-diagnostic", o);
}

static void setup()
{
	add_generator("dawson_erfi", ctx().count(120000, 19200000), case_dawson);
	add_generator("inv_erf", ctx().count(100000, 16000000), case_inverf);
	add_generator("round", ctx().count(600000, 96000000), case_round);
	add_generator("sign_step_reldiff_floats_equal", ctx().count(200000, 32000000), case_simple);
	add_generator("vector_spherical_harmonics", 169 * ctx().count(100, 3200), case_vsh);
	add_generator("vsh_component_out_of_range", ctx().count(32, 512), case_vsh_component_reject);
}
VERIF_MAIN("C17", setup)
