// C07 - every distribution's density, CDF, quantile and likelihood are mutually coherent (DESIGN.md section 4, C07).
// Coherence oracles use the library's own density / mass function as integrand of the driver's quadrature (composite 16-point
// Gauss-Legendre in long double with panels that shrink geometrically towards an algebraic end-point singularity), so that
// "CDF(b)-CDF(a) = integral of the density" is checked without re-implementing any distribution.  Independent references
// (Boost.Math in long double, lgammal) are used for the inverses and for the mass functions.
#include "special_common.hpp"
#include "verif.hpp"

#include <boost/math/special_functions/erf.hpp>
#include <boost/math/special_functions/gamma.hpp>

#include "libphysica/Statistics.hpp"

using namespace libphysica;
using namespace vf;
using namespace sp;

static const double TOL_CLOSED = 1e-13;	  // coherence for the closed-form families (uniform, normal, exponential, Maxwell-Boltzmann)
static const double TOL_COH = 1e-11;	  // coherence of CDF and density for closed-form and a<=100 gamma branches
static const double TOL_GAMMA_BIG = 2e-3; // two CDF values of the a>100 branch (property C06: 1e-3 each)

// integral of f over [a,b], f smooth except for an algebraic singularity (of f or its derivatives) at x0 (NaN: none); w: length scale.
// Panels are at most w/2 wide and never wider than their distance to x0.  Returns false if more than max_panels would be needed.
template <class F>
static bool integrate_density(const F& f, double a, double b, double x0, double w, ld& out, int max_panels = 6000)
{
	out = 0;
	if(!(b > a))
		return true;
	ld x	  = a;
	int count = 0;
	while(x < (ld) b)
	{
		ld h = w / 2;
		if(!std::isnan(x0))
		{
			ld dist = fabsl(x - (ld) x0);
			if(x < (ld) x0)
			{	// approaching the singular point from the left: shrink; jump over it once closer than 1e-300 w
				h = std::min(h, std::max(dist / 2, (ld) 0));
				if(dist <= 1e-300L * w || h <= 0)
					h = dist + 1e-300L * w;
			}
			else
				h = std::min(h, std::max(dist, (ld) (1e-300L * w)));
		}
		ld xe = std::min(x + h, (ld) b);
		if(!(xe > x))
			break;
		out += gl_panel([&](ld t) { return (ld) f((double) t); }, x, xe, 16);
		x = xe;
		if(++count > max_panels)
			return false;
	}
	return true;
}

static double pick_p(Rng& rng)	 // p in (1e-12, 1-1e-12), tails emphasised
{
	double u = rng.u01();
	if(u < 0.25)
		return rng.loguni(1e-12, 1e-2);
	if(u < 0.5)
		return 1.0 - rng.loguni(1e-12, 1e-2);
	return rng.uni(0.01, 0.99);
}

// generic checks for a continuous family given as (pdf, cdf), support lower end lo (or -inf), singular point x0 (NaN none),
// scale w, location c; tol for coherence; extra break points where the density jumps
template <class PDF, class CDF>
static void continuous_checks(Rng& rng, const char* fam, const PDF& pdf, const CDF& cdf, double lo_support, double hi_support, double x0, double c, double w, double tol_coh, double tol_mono, const std::function<J()>& pj)
{
	char cl[96];
	// argument pairs: around the centre, around the support ends, far tails, adjacent doubles at the branch points
	std::vector<double> xs;
	for(int i = 0; i < 6; i++)
		xs.push_back(c + w * rng.uni(-6, 6));
	xs.push_back(c + w * rng.loguni(1e-3, 40));
	xs.push_back(c - w * rng.loguni(1e-3, 40));
	for(double e : {lo_support, hi_support})
		if(std::isfinite(e))
		{
			xs.push_back(e);
			xs.push_back(next_up(e));
			xs.push_back(next_down(e));
			xs.push_back(e + w * rng.loguni(1e-12, 1e-1));
			xs.push_back(e - w * rng.loguni(1e-12, 1e-1));
		}
	xs.push_back(0.0);
	xs.push_back(next_up(0.0));
	xs.push_back(-next_up(0.0));
	std::sort(xs.begin(), xs.end());
	std::vector<double> F(xs.size());
	for(size_t i = 0; i < xs.size(); i++)
	{
		double x = xs[i];
		double d = pdf(x);
		F[i]	 = cdf(x);
		snprintf(cl, sizeof cl, "%s-density-non-negative", fam);
		require(cl, d >= 0.0 && !std::isnan(d), [&] { return pj().d("x", x).d("pdf", d); });
		snprintf(cl, sizeof cl, "%s-cdf-in-unit-interval", fam);
		require(cl, F[i] >= 0.0 && F[i] <= 1.0, [&] { return pj().d("x", x).d("cdf", F[i]); });
		if(i > 0 && xs[i] > xs[i - 1])
		{
			snprintf(cl, sizeof cl, "%s-cdf-non-decreasing", fam);
			judge(cl, std::max(F[i - 1] - F[i], 0.0), tol_mono, [&] { return pj().d("x1", xs[i - 1]).d("x2", xs[i]).d("cdf(x1)", F[i - 1]).d("cdf(x2)", F[i]); });
		}
	}
	// limits far out
	{
		double far_lo = std::isfinite(lo_support) ? lo_support - w * rng.loguni(1e-6, 1e6) : c - w * rng.loguni(40, 1e6);
		double far_hi = std::isfinite(hi_support) ? hi_support + w * rng.loguni(1e-6, 1e6) : c + w * rng.loguni(60, 1e6);
		double f0 = cdf(far_lo), f1 = cdf(far_hi);
		snprintf(cl, sizeof cl, "%s-cdf-limits-0-and-1", fam);
		judge(cl, std::max(std::fabs(f0), std::fabs(f1 - 1.0)), tol_coh, [&] { return pj().d("x_low", far_lo).d("cdf_low", f0).d("x_high", far_hi).d("cdf_high", f1); });
		double d0 = pdf(far_lo);
		snprintf(cl, sizeof cl, "%s-density-non-negative", fam);
		require(cl, d0 >= 0.0, [&] { return pj().d("x", far_lo).d("pdf", d0); });
	}
	// coherence on 4 intervals
	for(int m = 0; m < 4; m++)
	{
		double a = xs[rng.below(xs.size())], b = xs[rng.below(xs.size())];
		if(m == 0)
			a = c - w * rng.uni(0.1, 8), b = c + w * rng.uni(0.1, 8);
		if(a > b)
			std::swap(a, b);
		if(a == b)
			continue;
		double ia = std::max(a, std::isfinite(lo_support) ? lo_support : a), ib = std::min(b, std::isfinite(hi_support) ? hi_support : b);
		ld I = 0;
		if(ib > ia && !integrate_density(pdf, ia, ib, x0, w, I))
		{
			snprintf(cl, sizeof cl, "%s-cdf-difference-is-integral-of-density", fam);
			count_outside(cl);
			continue;
		}
		double diff = cdf(b) - cdf(a);
		snprintf(cl, sizeof cl, "%s-cdf-difference-is-integral-of-density", fam);
		// the quadrature evaluates the library's density at nodes rounded to double: each node is off by up to eps*|x|, i.e. eps*|x|/w of the width of the density
		double tol_nodes = 8 * EPS * std::max(std::fabs(a), std::fabs(b)) / w;
		judge(cl, (double) fabsl((ld) diff - I), tol_coh + tol_nodes, [&] { return pj().d("a", a).d("b", b).d("cdf(b)-cdf(a)", diff).d("integral_of_pdf", (double) I); });
		if(diff > 1e-6 && diff < 1 - 1e-6)
			mark_nontrivial();
	}
}

// ------------------------------------------------------------------------------------------------------------------
static void case_uniform(Rng& rng, uint64_t)
{
	double xmin = rng.coin(0.3) ? 0.0 : rng.mag(1e-3, 1e3), W = rng.loguni(1e-3, 1e3), xmax = xmin + W;
	set_params(J().str("family", "uniform").d("x_min", xmin).d("x_max", xmax));
	hash_param(xmin), hash_param(xmax);
	auto pj = [&] { return J().d("x_min", xmin).d("x_max", xmax); };
	continuous_checks(
		rng, "uniform", [&](double x) { return PDF_Uniform(x, xmin, xmax); }, [&](double x) { return CDF_Uniform(x, xmin, xmax); }, xmin, xmax, NAN, 0.5 * (xmin + xmax), W, TOL_CLOSED, 0.0, pj);
}
static void case_gauss(Rng& rng, uint64_t index)
{
	double mu = rng.coin(0.3) ? 0.0 : rng.mag(1e-3, 1e3), sigma = rng.loguni(1e-3, 1e3);
	set_params(J().str("family", "normal").d("mu", mu).d("sigma", sigma));
	hash_param(mu), hash_param(sigma);
	auto pj = [&] { return J().d("mu", mu).d("sigma", sigma); };
	continuous_checks(
		rng, "normal", [&](double x) { return PDF_Gauss(x, mu, sigma); }, [&](double x) { return CDF_Gauss(x, mu, sigma); }, -INFINITY, INFINITY, NAN, mu, sigma, TOL_CLOSED, 4 * EPS, pj);
	// Quantile_Gauss inverts the CDF to its stated accuracy (Inv_Erf: 1e-4 in erfinv)
	for(int m = 0; m < 6; m++)
	{
		double p = pick_p(rng);
		// far tails down to the last representable probabilities, k/2^53 and 1-k/2^53 (seeded change C07-r6m3 answered 10 for the double next to 1)
		if(m == 5 && rng.coin(0.5))
		{
			double k = rng.coin(0.5) ? (double) rng.irange(1, 16) : std::floor(rng.loguni(1.0, 9e3));
			p		 = rng.coin(0.6) ? 1.0 - k * 0x1p-53 : k * 0x1p-53;
		}
		double z = Quantile_Gauss(p, mu, sigma);
		ld tref	 = boost::math::erf_inv((ld) (2.0 * p - 1.0), boost_pol);
		ld zref	 = (ld) mu + sqrtl(2.0L) * (ld) sigma * tref;
		// 1e-4 in the argument of erf, plus the range of arguments whose erf() rounds to the same double (4 eps / erf'(t)): in the far
		// tails the probability does not resolve the quantile any better
		double tol_t = 1e-4 + 4 * EPS / (2.0 / std::sqrt(M_PI) * std::exp(-(double) (tref * tref)));
		judge("quantile-gauss-inverts-cdf", (double) fabsl((ld) z - zref), std::sqrt(2.0) * tol_t * sigma + 4 * EPS * std::fabs(mu), [&] { return pj().d("p", p).d("Quantile_Gauss", z).d("reference", (double) zref); });
	}
	if(index % 997 == 0)
		sample();
}
static void case_exponential(Rng& rng, uint64_t)
{
	double mean = rng.loguni(1e-3, 1e3);
	set_params(J().str("family", "exponential").d("mean", mean));
	hash_param(mean);
	auto pj = [&] { return J().d("mean", mean); };
	continuous_checks(
		rng, "exponential", [&](double x) { return PDF_Exponential(x, mean); }, [&](double x) { return CDF_Exponential(x, mean); }, 0.0, INFINITY, NAN, mean, mean, TOL_CLOSED, 4 * EPS, pj);
}
static void case_maxwell(Rng& rng, uint64_t)
{
	double a = rng.loguni(1e-3, 1e3);
	set_params(J().str("family", "maxwell-boltzmann").d("a", a));
	hash_param(a);
	auto pj = [&] { return J().d("a", a); };
	continuous_checks(
		rng, "maxwell-boltzmann", [&](double x) { return PDF_Maxwell_Boltzmann(x, a); }, [&](double x) { return CDF_Maxwell_Boltzmann(x, a); }, 0.0, INFINITY, NAN, 1.6 * a, a, TOL_CLOSED, 8 * EPS, pj);
}
static void case_chi_square(Rng& rng, uint64_t index)
{
	double dof;
	switch(index % 6)
	{
		case 0: dof = rng.uni(0.5, 2.0); break;					  // density singular at 0
		case 1: dof = (double) rng.irange(1, 12); break;
		case 2: dof = rng.uni(2.0, 40.0); break;
		case 3: dof = rng.uni(195.0, 205.0); break;				  // both sides of the a = dof/2 = 100 switch
		case 4: dof = rng.uni(40.0, 400.0); break;
		default: dof = rng.coin() ? 2.0 : rng.loguni(0.5, 400.0); break;
	}
	set_params(J().str("family", "chi-square").d("dof", dof));
	hash_param(dof);
	auto pj	  = [&] { return J().d("dof", dof); };
	bool big  = dof / 2.0 > 100.0;
	double w  = std::max(1.0, std::sqrt(2.0 * dof));
	continuous_checks(
		rng, "chi-square", [&](double x) { return PDF_Chi_Square(x, dof); }, [&](double x) { return CDF_Chi_Square(x, dof); }, 0.0, INFINITY, 0.0, std::max(dof - 2.0, 0.5), w, big ? TOL_GAMMA_BIG : TOL_COH, big ? TOL_GAMMA_BIG : 2e-12, pj);
	if(std::fabs(dof / 2 - 100) < 3 || dof < 2)
		mark_nontrivial();
	if(index % 997 == 0)
		sample();
}
static void case_chi_bar(Rng& rng, uint64_t)
{
	int n = rng.irange(1, 9);	// weights for dof 0..n-1
	std::vector<double> w(n);
	double s = 0;
	for(auto& v : w)
	{
		v = rng.coin(0.15) ? 0.0 : rng.u01();
		s += v;
	}
	if(s == 0)
		w[0] = 1, s = 1;
	for(auto& v : w)
		v /= s;
	set_params(J().str("family", "chi-bar-square").vec("weights", w));
	for(double v : w)
		hash_param(v);
	auto pj	  = [&] { return J().vec("weights", w); };
	auto pdf  = [&](double x) { return PDF_Chi_Bar_Square(x, w); };
	auto cdf  = [&](double x) { return CDF_Chi_Bar_Square(x, w); };
	// the dof=0 component is an atom at 0: CDF jumps by w[0] there.  Generic checks on x>0 plus the atom.
	double c = std::max(1.0, (double) n / 2);
	char cl[96];
	std::vector<double> xs = {0.0, next_up(0.0), rng.loguni(1e-12, 1e-2), rng.uni(0.01, 3.0), rng.uni(0.5, 3.0 * c), rng.uni(c, 8.0 * c + 10), 60.0 + 20.0 * n};
	std::sort(xs.begin(), xs.end());
	double prevF = 0;
	for(size_t i = 0; i < xs.size(); i++)
	{
		double F = cdf(xs[i]), d = pdf(xs[i]);
		require("chi-bar-square-density-non-negative", d >= 0 && !std::isnan(d), [&] { return pj().d("x", xs[i]).d("pdf", d); });
		require("chi-bar-square-cdf-in-unit-interval", F >= 0 && F <= 1, [&] { return pj().d("x", xs[i]).d("cdf", F); });
		if(i > 0)
			judge("chi-bar-square-cdf-non-decreasing", std::max(prevF - F, 0.0), 2e-12, [&] { return pj().d("x", xs[i]).d("cdf", F).d("cdf_at_previous_x", prevF); });
		prevF = F;
	}
	double Fneg = cdf(-rng.loguni(1e-12, 1e3)), F0 = cdf(0.0), Ffar = cdf(80.0 + 30.0 * n);
	judge("chi-bar-square-atom-at-zero-and-limits", std::max(std::max(std::fabs(Fneg), std::fabs(F0 - w[0])), std::fabs(Ffar - 1.0)), TOL_COH, [&] { return pj().d("cdf(x<0)", Fneg).d("cdf(0)", F0).d("weight_of_dof_0", w[0]).d("cdf_far", Ffar); });
	for(int m = 0; m < 3; m++)
	{
		double a = xs[rng.below(xs.size())], b = xs[rng.below(xs.size())];
		if(a > b)
			std::swap(a, b);
		if(a == b)
			continue;
		ld I;
		if(!integrate_density(pdf, a, b, 0.0, 1.0, I))
		{
			count_outside("chi-bar-square-cdf-difference-is-integral-of-density");
			continue;
		}
		double diff = cdf(b) - cdf(a);
		judge("chi-bar-square-cdf-difference-is-integral-of-density", (double) fabsl((ld) diff - I), TOL_COH, [&] { return pj().d("a", a).d("b", b).d("cdf(b)-cdf(a)", diff).d("integral_of_pdf", (double) I); });
		snprintf(cl, sizeof cl, "x");
		if(diff > 1e-6 && diff < 1 - 1e-6 && w[0] > 0)
			mark_nontrivial();
	}
}

// ------------------------------------------------------------------------------------------------------------------
// discrete families
static void case_binomial(Rng& rng, uint64_t index)
{
	unsigned trials = (index % 4 == 0) ? (unsigned) (index / 4 % 171) : (unsigned) rng.irange(0, 170);
	double p;
	switch(rng.irange(0, 5))
	{
		case 0: p = 0.0; break;
		case 1: p = 1.0; break;
		case 2: p = rng.loguni(1e-12, 1e-2); break;
		case 3: p = 1.0 - rng.loguni(1e-12, 1e-2); break;
		default: p = rng.u01(); break;
	}
	set_params(J().str("family", "binomial").i("trials", trials).d("p", p));
	hash_param_u(trials), hash_param(p);
	auto pj = [&] { return J().i("trials", trials).d("p", p); };
	ld sum = 0;
	double prevF = 0;
	unsigned xa = (unsigned) rng.irange(0, (int) trials), xb = (unsigned) rng.irange(0, (int) trials);
	if(xa > xb)
		std::swap(xa, xb);
	ld sum_a = 0, sum_b = 0;
	for(unsigned x = 0; x <= trials; x++)
	{
		double m = PMF_Binomial(trials, p, x);
		require("binomial-mass-non-negative", m >= 0 && !std::isnan(m), [&] { return pj().i("x", x).d("pmf", m); });
		// independent reference of the mass function
		ld lref = lgammal(trials + 1.0L) - lgammal(x + 1.0L) - lgammal(trials - x + 1.0L);
		ld ref	= (p == 0) ? (x == 0 ? 1.0L : 0.0L) : (p == 1) ? (x == trials ? 1.0L : 0.0L) : expl(lref + x * logl((ld) p) + (trials - x) * log1pl(-(ld) p));
		judge("binomial-mass-vs-reference", (double) fabsl((ld) m - ref), 1e-10 * (double) ref + 1e-250, [&] { return pj().i("x", x).d("pmf", m).d("reference", (double) ref); });
		sum += m;
		if(x == xa)
			sum_a = sum;
		if(x == xb)
			sum_b = sum;
		if(x % 7 == 0 || x == trials || x == xa || x == xb)
		{
			double F = CDF_Binomial(trials, p, x);
			require("binomial-cdf-in-unit-interval", F >= 0 && F <= 1 + 64 * EPS, [&] { return pj().i("x", x).d("cdf", F); });
			judge("binomial-cdf-is-sum-of-masses", (double) fabsl((ld) F - sum), TOL_COH, [&] { return pj().i("x", x).d("cdf", F).d("sum_of_pmf", (double) sum); });
			judge("binomial-cdf-non-decreasing", std::max(prevF - F, 0.0), 4 * EPS, [&] { return pj().i("x", x).d("cdf", F).d("previous_cdf", prevF); });
			prevF = F;
		}
	}
	judge("binomial-masses-sum-to-one", (double) fabsl(sum - 1), TOL_COH, [&] { return pj().d("sum", (double) sum); });
	double diff = CDF_Binomial(trials, p, xb) - CDF_Binomial(trials, p, xa);
	judge("binomial-cdf-difference-is-sum-of-masses", (double) fabsl((ld) diff - (sum_b - sum_a)), TOL_COH, [&] { return pj().i("x_a", xa).i("x_b", xb).d("cdf(b)-cdf(a)", diff).d("sum_of_pmf", (double) (sum_b - sum_a)); });
	double above = CDF_Binomial(trials, p, trials + 1 + (unsigned) rng.irange(0, 5));
	judge("binomial-cdf-is-one-beyond-the-support", std::fabs(above - 1), TOL_COH, [&] { return pj().d("cdf", above); });
	if(trials > 0 && p > 0 && p < 1)
		mark_nontrivial();
	if(index % 997 == 0)
		sample();
}

static void case_poisson(Rng& rng, uint64_t index)
{
	double mu;
	switch(index % 5)
	{
		case 0: mu = rng.loguni(1e-3, 1.0); break;
		case 1: mu = rng.uni(1.0, 30.0); break;
		case 2: mu = rng.uni(90.0, 110.0); break;
		case 3: mu = rng.loguni(30.0, 1e3); break;
		default: mu = rng.loguni(1e-3, 1e3); break;
	}
	set_params(J().str("family", "poisson").d("mean", mu));
	hash_param(mu);
	auto pj = [&] { return J().d("mean", mu); };
	// all counts 0..500: mass non-negative and equal to the reference, CDF equals the running sum
	ld sum = 0;
	double prevF = 0;
	unsigned ka = (unsigned) rng.irange(0, 500), kb = (unsigned) rng.irange(0, 500);
	if(rng.coin())
	{	// near the bulk
		ka = (unsigned) std::max(0.0, std::min(500.0, mu + rng.uni(-4, 1) * std::sqrt(mu + 1)));
		kb = (unsigned) std::max(0.0, std::min(500.0, mu + rng.uni(-1, 4) * std::sqrt(mu + 1)));
	}
	if(ka > kb)
		std::swap(ka, kb);
	ld sum_a = 0, sum_b = 0;
	for(unsigned k = 0; k <= 500; k++)
	{
		double m = PMF_Poisson(mu, k);
		require("poisson-mass-non-negative", m >= 0 && !std::isnan(m), [&] { return pj().i("k", k).d("pmf", m); });
		ld ref = expl(k * logl((ld) mu) - (ld) mu - lgammal(k + 1.0L));
		judge("poisson-mass-vs-reference", (double) fabsl((ld) m - ref), 1e-10 * (double) ref + 1e-250, [&] { return pj().i("k", k).d("pmf", m).d("reference", (double) ref); });
		sum += m;
		if(k == ka)
			sum_a = sum;
		if(k == kb)
			sum_b = sum;
		bool probe = (k % 25 == 0) || k == ka || k == kb || (k >= 98 && k <= 101) || std::fabs((double) k - mu) < 2;
		if(probe)
		{
			double F   = CDF_Poisson(mu, k);
			double tol = (k + 1.0 > 100.0) ? 1e-3 : TOL_COH;
			require("poisson-cdf-in-unit-interval", F >= 0 && F <= 1, [&] { return pj().i("k", k).d("cdf", F); });
			judge((k + 1.0 > 100.0) ? "poisson-cdf-is-sum-of-masses-shape>100" : "poisson-cdf-is-sum-of-masses", (double) fabsl((ld) F - sum), tol, [&] { return pj().i("k", k).d("cdf", F).d("sum_of_pmf", (double) sum); });
			judge("poisson-cdf-non-decreasing-in-count", std::max(prevF - F, 0.0), (k + 1.0 > 100.0) ? 2e-3 : 2e-12, [&] { return pj().i("k", k).d("cdf", F).d("previous_cdf", prevF); });
			prevF = F;
			// non-increasing in the mean
			double mu2 = mu * (1 + rng.loguni(1e-9, 1.0));
			double F2  = CDF_Poisson(mu2, k);
			judge("poisson-cdf-non-increasing-in-mean", std::max(F2 - F, 0.0), (k + 1.0 > 100.0) ? 2e-3 : 2e-12, [&] { return pj().i("k", k).d("mean2", mu2).d("cdf(mean)", F).d("cdf(mean2)", F2); });
		}
	}
	{
		double diff = CDF_Poisson(mu, kb) - CDF_Poisson(mu, ka);
		double tol	= (kb + 1.0 > 100.0) ? TOL_GAMMA_BIG : TOL_COH;
		judge((kb + 1.0 > 100.0) ? "poisson-cdf-difference-is-sum-of-masses-shape>100" : "poisson-cdf-difference-is-sum-of-masses", (double) fabsl((ld) diff - (sum_b - sum_a)), tol, [&] { return pj().i("k_a", ka).i("k_b", kb).d("cdf(b)-cdf(a)", diff).d("sum_of_pmf", (double) (sum_b - sum_a)); });
		if(diff > 1e-6 && diff < 1 - 1e-6)
			mark_nontrivial();
	}
	// Inv_CDF_Poisson(k, cdf) returns the mean at which CDF(mean, k) = cdf; judged with the *reference* CDF
	for(int m = 0; m < 4; m++)
	{
		unsigned k = (m == 0) ? 0u : (unsigned) rng.irange(0, m == 1 ? 10 : 500);
		double c   = pick_p(rng);
		double mh  = Inv_CDF_Poisson(k, c);
		ld back	   = (mh > 0) ? boost::math::gamma_q((ld) k + 1, (ld) mh, boost_pol) : 1.0L;
		double tol = (k + 1.0 > 100.0) ? 1e-3 : 1e-7;
		judge((k + 1.0 > 100.0) ? "inv-cdf-poisson-inverts-cdf-shape>100" : "inv-cdf-poisson-inverts-cdf", (double) fabsl(back - (ld) c), tol, [&] { return J().i("k", k).d("cdf", c).d("Inv_CDF_Poisson", mh).d("reference_cdf_at_result", (double) back); });
	}
	if(index % 997 == 0)
		sample();
}

// ------------------------------------------------------------------------------------------------------------------
static void case_likelihood(Rng& rng, uint64_t index)
{
	int bins = rng.irange(1, 8);
	std::vector<double> sig(bins), bkg(bins);
	std::vector<unsigned long> obs(bins);
	ld logprod = 0;
	bool with_bkg = rng.coin(0.7);
	for(int i = 0; i < bins; i++)
	{
		double mu = rng.loguni(1e-3, 1e3);
		double fb = with_bkg ? rng.u01() : 0.0;
		bkg[i]	  = fb * mu;
		sig[i]	  = mu - bkg[i];
		if(sig[i] + bkg[i] <= 0)
			sig[i] = mu;
		// bins without predicted signal (pure background) and bins in which nothing was observed
		if(with_bkg && rng.coin(0.2))
			bkg[i] = mu, sig[i] = 0.0;
		double tot = sig[i] + bkg[i];
		obs[i]	   = rng.coin(0.15) ? 0ul : rng.coin(0.6) ? (unsigned long) std::min(500.0, std::max(0.0, std::floor(tot + rng.normal() * std::sqrt(tot) + 0.5))) : (unsigned long) rng.irange(0, 500);
		ld lref	   = obs[i] * logl((ld) tot) - (ld) tot - lgammal(obs[i] + 1.0L);
		logprod += lref;
		// single-bin functions
		double L  = Likelihood_Poisson(sig[i], obs[i], bkg[i]);
		double lL = Log_Likelihood_Poisson(sig[i], obs[i], bkg[i]);
		double pm = PMF_Poisson(tot, (unsigned) obs[i]);
		auto pj	  = [&] { return J().d("signal", sig[i]).d("background", bkg[i]).i("observed", (long long) obs[i]); };
		judge("likelihood-poisson-equals-mass-at-signal-plus-background", std::fabs(L - pm), 1e-10 * std::max(L, pm) + 1e-300, [&] { return pj().d("Likelihood_Poisson", L).d("PMF_Poisson", pm); });
		judge("likelihood-poisson-vs-reference", (double) fabsl((ld) L - expl(lref)), 1e-10 * (double) expl(lref) + 1e-300, [&] { return pj().d("Likelihood_Poisson", L).d("reference", (double) expl(lref)); });
		judge("log-likelihood-poisson-is-the-logarithm", (double) fabsl((ld) lL - lref), 1e-10 * std::max(1.0, (double) fabsl(lref)), [&] { return pj().d("Log_Likelihood_Poisson", lL).d("reference", (double) lref); });
		if(!with_bkg)
		{
			double L0 = Likelihood_Poisson(sig[i], obs[i]);
			require("likelihood-default-background-is-zero", same_bits(L0, Likelihood_Poisson(sig[i], obs[i], 0.0)), [&] { return pj().d("L", L0); });
		}
	}
	set_params(J().str("family", "poisson-likelihood").vec("signal", sig).vec("background", bkg).i("bins", bins));
	for(int i = 0; i < bins; i++)
		hash_param(sig[i]), hash_param(bkg[i]), hash_param_u(obs[i]);
	if(bins > 1 && with_bkg)
		mark_nontrivial();
	// "no background" stated explicitly by an empty list that the caller keeps and passes again for other binnings, or left to the default argument: the
	// list must still be empty afterwards (seeded change C07-r7m1 took it by reference and filled in the zeros it uses internally)
	static std::vector<double> no_background;
	bool explicit_empty = !with_bkg && rng.coin(0.5);
	const std::vector<double> sig0 = sig, bkg0 = bkg;
	const std::vector<unsigned long> obs0 = obs;
	double LB  = with_bkg ? Likelihood_Poisson_Binned(sig, obs, bkg) : explicit_empty ? Likelihood_Poisson_Binned(sig, obs, no_background) : Likelihood_Poisson_Binned(sig, obs);
	double lLB = with_bkg ? Log_Likelihood_Poisson_Binned(sig, obs, bkg) : explicit_empty ? Log_Likelihood_Poisson_Binned(sig, obs, no_background) : Log_Likelihood_Poisson_Binned(sig, obs);
	require("binned-likelihood-leaves-its-arguments-as-they-were", no_background.empty() && sig == sig0 && bkg == bkg0 && obs == obs0, [&] { return J().i("bins", bins).i("entries_in_the_empty_background_list_afterwards", (long long) no_background.size()); });
	no_background.clear();
	judge("binned-log-likelihood-is-sum-of-bin-log-likelihoods", (double) fabsl((ld) lLB - logprod), 1e-10 * std::max(1.0, (double) fabsl(logprod)), [&] { return J().i("bins", bins).d("Log_Likelihood_Poisson_Binned", lLB).d("reference", (double) logprod); });
	judge("binned-likelihood-is-product-of-bin-likelihoods", (double) fabsl((ld) LB - expl(logprod)), 1e-10 * std::max(1.0, (double) fabsl(logprod)) * (double) expl(logprod) + 1e-300, [&] { return J().i("bins", bins).d("Likelihood_Poisson_Binned", LB).d("reference", (double) expl(logprod)); });
	if(index % 997 == 0)
		sample();
}

// ------------------------------------------------------------------------------------------------------------------
static void case_kde(Rng& rng, uint64_t index)
{
	int N	  = rng.irange(20, 420);
	double W  = rng.loguni(0.1, 100.0);
	double x0 = rng.coin(0.5) ? 0.0 : rng.uni(-100, 100);
	double x1 = x0 + W;
	int shape = (int) (index % 4);
	std::vector<DataPoint> data(N);
	for(auto& d : data)
	{
		double u;
		switch(shape)
		{
			case 0: u = rng.u01(); break;											  // uniform over the window
			case 1: u = 0.5 + 0.15 * rng.normal(); break;							  // central bump
			case 2: u = -0.25 * std::log(1 - rng.u01()); break;						  // piled up at the lower boundary
			default: u = rng.coin() ? 0.3 + 0.05 * rng.normal() : 0.7 + 0.1 * rng.normal(); break;	 // two bumps
		}
		d.value	 = x0 + W * u;
		d.weight = rng.coin(0.5) ? 1.0 : rng.loguni(1e-2, 1e2);
	}
	// samples that carry no weight (anywhere in the list, also at its head): they must not influence the estimate, let alone turn it into NaN
	if(index % 3 == 1)
	{
		for(auto& d : data)
			if(rng.coin(0.2))
				d.weight = 0.0;
		data[0].weight = 0.0;
		data[N / 2].weight = std::max(data[N / 2].weight, 1.0);
	}
	double bw = rng.coin(0.5) ? 0.0 : W * rng.loguni(0.02, 0.5);
	// a window at a large common offset (time stamps, energies next to a line): mean / spread of the sample up to 1e9, automatic bandwidth included (seeded
	// change C07-r7m3 computed the sample variance as <x^2> - <x>^2)
	if(index % 7 == 3)
	{
		double off = rng.sign() * rng.loguni(1e4, 1e9);
		for(auto& d : data)
			d.value += off;
		x0 += off, x1 = x0 + W;
		for(auto& d : data)
			d.value = std::min(std::max(d.value, x0 - 0.3 * W), x1 + 0.3 * W);
		W = x1 - x0;
	}
	// a window next to the sample rather than around it: every event lies 8 to 30 bandwidths beyond one end of the window, whose estimate is then the
	// tail of the kernels - tiny, but a density that normalises like any other (seeded change C07-r7m2 skipped kernels more than 8 bandwidths away)
	if(index % 11 == 5)
	{
		bw = W * rng.loguni(0.02, 0.2);
		bool above = rng.coin();
		for(auto& d : data)
		{
			double far = bw * rng.uni(8.5, 30.0);
			d.value	   = above ? x1 + far : x0 - far;
		}
	}
	set_params(J().str("family", "kde").i("N", N).d("x_min", x0).d("x_max", x1).d("bandwidth", bw).i("shape", shape));
	hash_param(x0), hash_param(W), hash_param(bw), hash_param(data[0].value), hash_param_u(N);
	mark_nontrivial();
	// the estimate is used as an initialiser, assigned to a default-constructed object, or assigned to an object that has been in use (with a prefactor):
	// what it integrates to must not depend on how the caller stores it
	Interpolation kde_direct = Perform_KDE(data, x0, x1, bw);
	Interpolation kde;
	int storage = (int) ((index / 4) % 3);
	if(storage == 0)
		kde = kde_direct;
	else if(storage == 1)
		kde = Perform_KDE(data, x0, x1, bw);
	else
	{
		kde = Interpolation(std::vector<double> {0.0, 1.0, 2.0, 3.0}, std::vector<double> {1.0, 3.0, 2.0, 5.0});
		kde.Set_Prefactor(-2.5);
		(void) kde(1.5);
		kde = Perform_KDE(data, x0, x1, bw);
	}
	double I = kde.Integrate(x0, x1);
	// the estimate is normalised with the interpolation's own integral: one to rounding of Interpolation::Integrate (eps x height x |x| per piece, 150 pieces)
	double tolI = 1e-9 + 64 * EPS * 150 * (1 + std::max(std::fabs(x0), std::fabs(x1)) / W);
	judge("kde-integrates-to-one-over-its-window", std::fabs(I - 1.0), tolI, [&] { return J().d("integral", I); });
	double mn = INFINITY, peak = 0;
	std::vector<double> scan(1001);
	for(int m = 0; m <= 1000; m++)
	{
		double x = std::min(x1, std::max(x0, x0 + W * m / 1000.0));
		scan[m]	 = kde(x);
		peak	 = std::max(peak, scan[m]);
	}
	// non-negative to the rounding of the interpolating cubic: its terms are of the size of the neighbouring table values (150 knots: 7 scan points per
	// interval), and where the estimate has decayed below 1e-290 of its peak - the subnormal range, reached in windows next to the sample - a value of
	// -2e-305 is that rounding (thorough tier, kde#2183 at VERIF_SEED=1)
	double worst = 0;
	for(int m = 0; m <= 1000; m++)
	{
		double local = 0;
		for(int d = -14; d <= 14; d++)
			if(m + d >= 0 && m + d <= 1000)
				local = std::max(local, std::fabs(scan[m + d]));
		double allowed = 64 * EPS * local + 1e-290 * peak;
		if(scan[m] < mn)
			mn = scan[m];
		if(scan[m] < 0)
			worst = std::max(worst, -scan[m] / allowed);
	}
	judge("kde-non-negative", worst, 1.0, [&] { return J().d("smallest_value_on_scan", mn).d("peak", peak); });
	if(index % 199 == 0)
		sample(J().d("integral", I).d("minimum_on_scan", mn));
}

static void setup()
{
	add_generator("uniform", ctx().count(2400, 120000), case_uniform);
	add_generator("normal", ctx().count(6000, 300000), case_gauss);
	add_generator("exponential", ctx().count(2400, 120000), case_exponential);
	add_generator("maxwell_boltzmann", ctx().count(3200, 160000), case_maxwell);
	add_generator("chi_square", ctx().count(9600, 480000), case_chi_square);
	add_generator("chi_bar_square", ctx().count(4800, 240000), case_chi_bar);
	add_generator("binomial", ctx().count(4800, 240000), case_binomial);
	add_generator("poisson", ctx().count(3200, 160000), case_poisson);
	add_generator("poisson_likelihoods", ctx().count(8000, 400000), case_likelihood);
	add_generator("kde", ctx().count(1200, 60000), case_kde);
}
VERIF_MAIN("C07", setup)
