// C11 - minimisers never end worse than they started and converge on convex bowls.
// Events: returned point, fmin, y, current_simplex, nfunc, and every objective evaluation (wrapper).
#include "verif.hpp"

#include <memory>

#include "libphysica/Numerics.hpp"

using namespace libphysica;
using namespace vf;

static const char* KEY_D15 = "C11-nelder-mead-collapse-small-simplex";
static const char* KEY_D15B = "C11-nelder-mead-initial-spread-below-ftol";
static const char* KEY_D37 = "C11-brent-iteration-cap-far-cosh-start";

// ------------------------------------------------------------------------------------------ 1D
struct Obj1
{
	std::string name;
	std::function<double(double)> f;
	double xstar = NAN;	  // minimiser if unimodal
	double s	 = 1.0;	  // length scale of the bowl
	bool unimodal = false, quartic = false;
	double fstar = 0.0, kappa = 1.0;	// f ~ fstar + kappa ((x-xstar)/s)^2 near the minimiser: x is determined only to s*sqrt(eps*|fstar|/kappa)
	std::vector<double> pars;
};

static Obj1 make_obj1(Rng& rng, int family)
{
	Obj1 o;
	double c = rng.coin(0.1) ? 0.0 : rng.mag(1e-3, 1e3);
	double s = rng.loguni(1e-3, 1e3);
	double d = rng.coin(0.3) ? 0.0 : rng.mag(1e-3, 1e3);
	if(rng.coin(0.3))
	{
		// the whole abscissa rescaled by an exact power of two (1e-6 .. 1e6): "from any starting point and scale".  Not below 1e-6: Brent's absolute
		// floor of one machine epsilon in the step tolerance then becomes comparable to sqrt(eps) x scale, which this monitor grants anyway.
		double sc = std::ldexp(1.0, rng.irange(-20, 20));
		c *= sc, s *= sc;
	}
	o.s		 = s;
	switch(family)
	{
		case 0:
			o.name = "quadratic ((x-c)/s)^2+d";
			o.f	   = [c, s, d](double x) { double t = (x - c) / s; return t * t + d; };
			o.xstar = c, o.unimodal = true, o.fstar = d, o.kappa = 1.0;
			break;
		case 1:
			o.name = "quartic ((x-c)/s)^4+d";
			o.f	   = [c, s, d](double x) { double t = (x - c) / s; return t * t * t * t + d; };
			o.xstar = c, o.unimodal = true, o.quartic = true, o.fstar = 0.0;
			break;
		case 2:
			o.name = "cosh((x-c)/s)+d";
			o.f	   = [c, s, d](double x) { return std::cosh((x - c) / s) + d; };
			o.xstar = c, o.unimodal = true, o.fstar = 1.0 + d, o.kappa = 0.5;
			break;
		case 3: {	// Morse well: asymmetric, Lennard-Jones-like
			double D = rng.loguni(1e-2, 1e2);
			o.name	 = "morse D(1-exp(-(x-c)/s))^2+d";
			o.f		 = [c, s, d, D](double x) { double e = -std::expm1(-(x - c) / s); return D * e * e + d; };
			o.xstar = c, o.unimodal = true, o.fstar = d, o.kappa = D;
			o.pars.push_back(D);
			break;
		}
		case 4: {	// multimodal: shallow parabola + oscillations (bounded below)
			double b = rng.uni(0.0, 5.0), w = rng.loguni(0.1, 30.0), ph = rng.uni(0, 6.28);
			o.name	 = "((x-c)/s)^2 + b sin(w (x-c)/s + ph)";
			o.f		 = [c, s, b, w, ph](double x) { double t = (x - c) / s; return t * t + b * std::sin(w * t + ph); };
			o.pars	 = {b, w, ph};
			break;
		}
		case 5: {	// plateau with a dip: -exp(-t^2) + tiny slope
			double e = rng.uni(0.0, 1e-3);
			o.name	 = "-exp(-t^2)+e t^2";
			o.f		 = [c, s, e](double x) { double t = (x - c) / s; return -std::exp(-t * t) + e * t * t; };
			o.pars	 = {e};
			break;
		}
		case 7: {	// even multimodal objective about 0 (the centre is exactly 0 so that starting points -a, +a give bit-equal values): hump or dip at the centre
			double b = rng.uni(0.2, 5.0) * rng.sign(), w = rng.loguni(1.0, 30.0), q = rng.coin() ? rng.uni(0.0, 0.2) : 0.0;
			c		 = 0.0;
			o.name	 = "even: q t^2 + b cos(w t) (t = x/s)";
			o.f		 = [s, b, w, q](double x) { double t = x / s; return q * t * t + b * std::cos(w * t); };
			o.pars	 = {b, w, q};
			break;
		}
		default: {	 // |t|^p, p in [1,3]: kink or flat
			double p = rng.uni(1.0, 3.0);
			o.name	 = "|t|^p";
			o.f		 = [c, s, p](double x) { return std::pow(std::fabs((x - c) / s), p); };
			o.pars	 = {p};
			break;
		}
	}
	o.pars.insert(o.pars.begin(), {c, s, d});
	return o;
}

static void case_1d(Rng& rng, uint64_t)
{
	int family = rng.irange(0, 7);
	Obj1 o	   = make_obj1(rng, family);
	double c   = o.pars[0], s = o.pars[1];
	// start: offset from the centre up to 20 s (so that exp/cosh stay finite), step 1e-3..1e3 (relative to s), either direction
	double off	= rng.sign() * s * rng.loguni(1e-3, 20.0);
	double step = rng.sign() * s * rng.loguni(1e-3, 1e3);
	if(family == 2 || family == 3)
	{
		step = rng.sign() * s * rng.loguni(1e-3, 20.0);
		// "initial step sizes 1e-3..1e3": the second abscissa (and the bracketing search) then reaches arguments where exp/cosh overflow to +inf, a
		// legitimate "worse than everything" value (seeded changes C11-r6m1/r6m3: 0*inf = NaN in Brent's parabolic step then became the next trial point)
		// (cosh only: the Morse well is flat to rounding beyond 37 widths on its shallow side, so a search that steps over the well in strides of
		// hundreds of widths legitimately ends on that plateau - the evaluated function is not unimodal there)
		if(family == 2 && rng.coin(0.3))
			step = rng.sign() * s * rng.loguni(20.0, 1e3);
	}
	// "from any starting point": a cosh bowl started hundreds of widths from its minimum, where its values are close to the overflow threshold
	bool far_cosh = false;
	if(family == 2 && rng.coin(0.3))
	{
		off		 = rng.sign() * s * rng.uni(100.0, 709.0);
		far_cosh = true;
	}
	double xl = c + off, xr = xl + step;
	if(family == 7)
	{
		// exactly symmetric starting points: f(xLeft) == f(xRight) bit for bit (seeded change C11-r6m2 took a tie for a bracket around the midpoint)
		double a = s * (rng.coin() ? M_PI / o.pars[4] * rng.irange(1, 6) * rng.uni(0.9, 1.1) : rng.loguni(1e-2, 20.0));
		xl = -a, xr = a;
		if(rng.coin(0.2))
			std::swap(xl, xr);
	}
	double tol = rng.loguni(1e-12, 1e-3);
	auto cnt   = std::make_shared<long>(0);
	auto f	   = o.f;
	std::function<double(double)> wrapped = [cnt, f](double x) { ++*cnt; return f(x); };
	set_params(J().str("objective", o.name).vec("pars", o.pars).d("xLeft", xl).d("xRight", xr).d("tol", tol));
	hash_param(xl), hash_param(xr), hash_param(tol), hash_param_u(family);
	double fl = o.f(xl), fr = o.f(xr);
	// one of the two starting values may be +inf (overflow of exp/cosh); NaN or no finite value at all is outside the property
	if(std::isnan(fl) || std::isnan(fr) || (!std::isfinite(fl) && !std::isfinite(fr)) || fl == -INFINITY || fr == -INFINITY)
	{
		count_outside("1d-descent");
		return;
	}
	uint64_t it0 = ticks("Brent.iteration");
	double xmin;
	{
		BudgetGuard g(200000);
		xmin = Find_Minimum(wrapped, xl, xr, tol);
	}
	uint64_t iters = ticks("Brent.iteration") - it0;
	if(iters >= 10)
	{
		mark_nontrivial();
		count_nontrivial("1d-descent");
	}
	double fm = o.f(xmin);
	require("1d-descent", fm <= std::min(fl, fr), [&] { return J().d("returned", xmin).d("f(returned)", fm).d("f(xLeft)", fl).d("f(xRight)", fr); });
	if(o.unimodal)
	{
		// requested tolerance + Brent's sqrt(eps) floor + conditioning of the minimiser (the objective is flat to rounding within s*sqrt(eps*|f*|/kappa)).
		// The factor in front of the flat width is 64, not 8: outside the flat region comparisons f(u) <= f(x) between points a step delta apart are still
		// decided by rounding noise once x delta < eps |f*| s^2 / kappa, and one wrong decision excludes the minimiser from the bracket for good
		// (thorough tier, case 7484496 of 2.1e7: Morse well of depth 0.0136 on an offset of 50.4 returned 21 flat widths away).
		double tolx = 10 * tol * std::fabs(o.xstar) + 100 * std::sqrt(EPS) * std::max(std::fabs(o.xstar), s) + 64 * s * std::sqrt(EPS * std::fabs(o.fstar) / o.kappa) + (o.quartic ? 0.02 * s : 0.0);
		auto det1 = [&] { return J().d("returned", xmin).d("minimiser", o.xstar).i("brent_iterations", (long long) iters); };
		if(far_cosh)
			clause("1d-far-cosh-start-iteration-cap(rate-limited)").n++;
		if(far_cosh && iters >= 100 && !(std::fabs(xmin - o.xstar) <= tolx))
		{
			// Finding D37 (soak VERIF_SEED=13, one_dimensional#271202): on a cosh bowl started hundreds of widths from its minimum (values ~1e199) Brent's
			// parabolic steps advance so slowly that the cap of 100 iterations is reached; the library warns and returns its best point, 14.6 widths from the
			// minimiser.  Matched on the full signature (cosh family, far start, cap reached, descent intact - required above) and rate-limited by bin/check.
			clause("1d-far-cosh-start-iteration-cap(rate-limited)").nontrivial++;
			known_hit(KEY_D37, "Find_Minimum reached Brent's cap of 100 iterations on a cosh bowl started >= 100 widths from its minimum and returned far from the minimiser (rate-limited)", det1());
		}
		else
			judge("1d-convergence-unimodal", std::fabs(xmin - o.xstar), tolx, det1);
	}
	// Find_Maximum of f is Find_Minimum of -f (same bits)
	if(rng.coin(0.25))
	{
		std::function<double(double)> neg = [f](double x) { return -1.0 * f(x); };
		double a, b;
		{
			BudgetGuard g(200000);
			a = Find_Maximum(neg, xl, xr, tol);	  // maximum of -f
		}
		// identical when Find_Maximum delegates to Find_Minimum; otherwise it must be what a minimiser of f may return: not worse than both starting
		// points and, for unimodal objectives, within the tolerance of the minimiser
		bool as_good = o.f(a) <= std::min(fl, fr);
		if(as_good && o.unimodal)
		{
			double tolx = 10 * tol * std::fabs(o.xstar) + 100 * std::sqrt(EPS) * std::max(std::fabs(o.xstar), s) + 64 * s * std::sqrt(EPS * std::fabs(o.fstar) / o.kappa) + (o.quartic ? 0.02 * s : 0.0);
			as_good = std::fabs(a - o.xstar) <= tolx;
		}
		(void) as_good;
		// "Find_Maximum of f is Find_Minimum of -f": the same point.  Negating function values is exact, so any implementation that runs the same
		// search on -f returns the same bits; what the clause must see is a second code path that drifts apart (seeded change C11-m4: the tolerance
		// argument not handed on).  Equal to rounding is accepted.
		require("maximum-is-minimum-of-negated", near_ulps(a, xmin, 4), [&] { return J().d("Find_Maximum(-f)", a).d("Find_Minimum(f)", xmin); });
		(void) b;
	}
	if(iters >= 10)
		sample(J().d("returned", xmin).i("evaluations", *cnt));
}

// ------------------------------------------------------------------------------------------ ND
struct ObjN
{
	int n;
	std::vector<double> c;				   // minimiser
	std::vector<std::vector<double>> A;	   // SPD matrix
	double f0;
	bool quadratic;
	std::vector<double> extra;
	double operator()(const std::vector<double>& x) const
	{
		double q = 0;
		for(int i = 0; i < n; i++)
		{
			double r = 0;
			for(int j = 0; j < n; j++)
				r += A[i][j] * (x[j] - c[j]);
			q += (x[i] - c[i]) * r;
		}
		if(quadratic)
			return q + f0;
		// multimodal variant: add bounded oscillations (still bounded below)
		double osc = 0;
		for(int i = 0; i < n; i++)
			osc += extra[0] * std::sin(extra[1] * (x[i] - c[i]) + i);
		return q + osc + f0;
	}
};

static ObjN make_objn(Rng& rng, int n, bool quadratic, double cond_max)
{
	ObjN o;
	o.n			= n;
	o.quadratic = quadratic;
	o.c.resize(n);
	for(int i = 0; i < n; i++)
		o.c[i] = rng.coin(0.1) ? 0.0 : rng.mag(1e-2, 1e2);
	// random orthogonal Q by Gram-Schmidt on Gaussian vectors
	std::vector<std::vector<double>> Q(n, std::vector<double>(n));
	for(int i = 0; i < n; i++)
	{
		for(;;)
		{
			for(int j = 0; j < n; j++)
				Q[i][j] = rng.normal();
			for(int k = 0; k < i; k++)
			{
				double d = 0;
				for(int j = 0; j < n; j++)
					d += Q[i][j] * Q[k][j];
				for(int j = 0; j < n; j++)
					Q[i][j] -= d * Q[k][j];
			}
			double nr = 0;
			for(int j = 0; j < n; j++)
				nr += Q[i][j] * Q[i][j];
			nr = std::sqrt(nr);
			if(nr > 1e-3)
			{
				for(int j = 0; j < n; j++)
					Q[i][j] /= nr;
				break;
			}
		}
	}
	double cond = rng.loguni(1.0, cond_max);
	std::vector<double> lam(n);
	for(int i = 0; i < n; i++)
		lam[i] = (n == 1) ? 1.0 : std::pow(cond, (double) i / (n - 1));
	double scale = rng.loguni(1e-2, 1e2);
	o.A.assign(n, std::vector<double>(n, 0.0));
	for(int i = 0; i < n; i++)
		for(int j = 0; j <= i; j++)
		{
			double v = 0;
			for(int k = 0; k < n; k++)
				v += Q[k][i] * lam[k] * Q[k][j];
			o.A[i][j] = o.A[j][i] = v * scale;	 // exactly symmetric
		}
	o.f0 = rng.coin(0.3) ? 0.0 : rng.mag(1e-3, 1e3);
	if(!quadratic)
		o.extra = {rng.uni(0.0, 3.0) * scale, rng.loguni(0.3, 10.0)};
	return o;
}

struct NMResult
{
	std::vector<double> x;
	std::vector<std::vector<double>> init;
	Minimization* m;
};

// Runs one Nelder-Mead call through a randomly chosen overload; judges descent + state consistency. Returns false if not judged.
static bool run_nm(Rng& rng, const ObjN& o, std::vector<double> start, std::vector<double> deltas, double ftol, double& f_init_best, double& f_final, bool& nmax_hit, bool& spread_ok, long& evals, uint64_t& exp_, uint64_t& con_, uint64_t& shr_, uint64_t& its_, Minimization* reuse = nullptr)
{
	int n = o.n;
	std::vector<std::vector<double>> pp(n + 1, start);
	for(int i = 1; i <= n; i++)
		pp[i][i - 1] += deltas[i - 1];
	f_init_best = INFINITY;
	for(auto& v : pp)
		f_init_best = std::min(f_init_best, o(v));
	auto cnt = std::make_shared<long>(0);
	auto wrong_size = std::make_shared<long>(0);
	std::function<double(std::vector<double>)> func = [cnt, wrong_size, n, &o](std::vector<double> x) {
		++*cnt;
		if((int) x.size() != n)
			++*wrong_size;	 // the worker has minimised in other dimensions before: a scratch buffer kept between calls shows up here
		return o(x);
	};
	Minimization fresh(ftol);
	Minimization& M = reuse ? *reuse : fresh;	// a caller may keep one object for a whole sequence of minimisations
	bool same_delta = true;
	for(int i = 1; i < n; i++)
		same_delta = same_delta && deltas[i] == deltas[0];
	int overload = rng.irange(0, 2);
	if(overload == 0 && !same_delta)
		overload = 1;
	uint64_t e0 = ticks("NelderMead.expansion"), c0 = ticks("NelderMead.contraction"), s0 = ticks("NelderMead.shrink"), i0 = ticks("NelderMead.iteration");
	std::vector<double> res;
	const std::vector<double> start0 = start, deltas0 = deltas;
	const std::vector<std::vector<double>> pp0 = pp;
	{
		BudgetGuard g(2000000);
		if(overload == 0)
			res = M.minimize(start, deltas[0], func);
		else if(overload == 1)
			res = M.minimize(start, deltas, func);
		else
			res = M.minimize(pp, func);
	}
	// starting point, steps and start simplex are handed over by non-const reference; the caller reuses them (the same start for another objective or
	// tolerance) and computes "the best of the starting points" from them: they must come back as they were (seeded change C11-r7m1 copied the final
	// simplex into the argument)
	require("nd-arguments-come-back-unchanged", start == start0 && deltas == deltas0 && pp == pp0, [&] { return J().i("overload", overload).i("start_changed", start != start0).i("deltas_changed", deltas != deltas0).i("simplex_changed", pp != pp0); });
	exp_ = ticks("NelderMead.expansion") - e0, con_ = ticks("NelderMead.contraction") - c0, shr_ = ticks("NelderMead.shrink") - s0, its_ = ticks("NelderMead.iteration") - i0;
	evals	= *cnt;
	f_final = o(res);
	nmax_hit = (M.nfunc >= 5000);
	auto det = [&] { return J().i("overload", overload).d("f(result)", f_final).d("best_initial", f_init_best).d("fmin", M.fmin).i("nfunc", M.nfunc).i("evaluations", evals); };
	require("nd-objective-receives-vectors-of-the-problem-dimension", *wrong_size == 0, [&] { return det().i("calls_with_wrong_size", *wrong_size).i("n", n); });
	require("nd-descent", f_final <= f_init_best, det);
	bool shape = ((int) res.size() == n && (int) M.y.size() == n + 1 && (int) M.current_simplex.size() == n + 1);
	require("nd-state-shape", shape, det);
	if(!shape)
		return false;
	require("nd-fmin-is-objective-at-result", same_bits(M.fmin, f_final), det);
	bool ys = true, best_first = true, res_is_v0 = true;
	for(int i = 0; i <= n; i++)
	{
		if((int) M.current_simplex[i].size() != n)
		{
			ys = false;
			break;
		}
		if(!same_bits(M.y[i], o(M.current_simplex[i])))
			ys = false;
		if(M.y[i] < M.y[0])
			best_first = false;
	}
	for(int j = 0; j < n && ys; j++)
		if(!same_bits(res[j], M.current_simplex[0][j]))
			res_is_v0 = false;
	require("nd-vertex-values-are-objective-at-vertices", ys, det);
	require("nd-simplex-best-first", best_first && same_bits(M.y[0], M.fmin), det);
	require("nd-result-is-first-vertex", res_is_v0, det);
	double yhi = -INFINITY, ylo = INFINITY;
	for(double v : M.y)
		yhi = std::max(yhi, v), ylo = std::min(ylo, v);
	double rtol = 2.0 * std::fabs(yhi - ylo) / (std::fabs(yhi) + std::fabs(ylo) + 1e-10);
	spread_ok	= rtol < ftol;
	return true;
}

static void case_nd_descent(Rng& rng, uint64_t)
{
	int n		   = rng.irange(1, 6);
	bool quadratic = rng.coin(0.4);
	ObjN o		   = make_objn(rng, n, quadratic, 1e4);
	std::vector<double> start(n), deltas(n);
	double dist = rng.loguni(1e-2, 1e2);
	bool same	= rng.coin();
	double d0	= rng.mag(1e-3, 1e3);
	for(int i = 0; i < n; i++)
	{
		start[i]  = o.c[i] + dist * rng.normal();
		deltas[i] = same ? d0 : rng.mag(1e-3, 1e3);
	}
	double ftol = rng.loguni(1e-12, 1e-3);
	set_params(J().i("n", n).i("quadratic", quadratic).vec("centre", o.c).vec("start", start).vec("deltas", deltas).d("ftol", ftol).d("f0", o.f0));
	for(int i = 0; i < n; i++)
		hash_param(start[i]), hash_param(deltas[i]);
	hash_param(ftol);
	double fi, ff;
	bool nmax, spread;
	long evals;
	uint64_t e, c, s, its;
	if(!run_nm(rng, o, start, deltas, ftol, fi, ff, nmax, spread, evals, e, c, s, its))
		return;
	if(its >= 10 && e > 0 && c > 0 && s > 0)
	{
		mark_nontrivial();
		count_nontrivial("nd-descent");
		sample(J().d("f(result)", ff).d("best_initial", fi).i("iterations", (long long) its).i("expansions", (long long) e).i("contractions", (long long) c).i("shrinks", (long long) s));
	}
	else if(its >= 10 && n == 1)
		mark_nontrivial();
}

// convergence on strictly convex quadratics; in_regime: initial simplex edge >= 1/3 distance to the minimiser
static void convergence_case(Rng& rng, bool in_regime, bool witness, uint64_t index)
{
	int n  = witness ? 6 : rng.irange(1, 6);
	ObjN o = make_objn(rng, n, true, 1e4);
	std::vector<double> start(n), deltas(n);
	double dist = witness ? 20.0 : rng.loguni(1e-2, 1e2);
	std::vector<double> dir(n);
	double nr = 0;
	for(int i = 0; i < n; i++)
	{
		dir[i] = rng.normal();
		nr += dir[i] * dir[i];
	}
	nr = std::sqrt(nr);
	for(int i = 0; i < n; i++)
		start[i] = o.c[i] + dist * dir[i] / nr;
	double edge = in_regime ? dist * rng.loguni(1.0 / 3.0, 30.0) : dist * (witness ? 1e-3 : rng.loguni(1e-4, 0.1));
	// a start that is already a good estimate of the minimiser, with a step 1e3..1e6 times the remaining distance (steps up to 1e3 are in scope): a long run
	// of contractions in which the best vertex does not improve (seeded change C11-r7m2 took that for stagnation and returned the start)
	if(in_regime && !witness && rng.coin(0.12))
	{
		edge = rng.loguni(1.0, 1e3);
		dist = edge / rng.loguni(1e3, 1e6);
		for(int i = 0; i < n; i++)
			start[i] = o.c[i] + dist * dir[i] / nr;
	}
	for(int i = 0; i < n; i++)
		deltas[i] = rng.sign() * edge * (in_regime ? rng.uni(1.0, 1.5) : 1.0);
	double ftol = witness ? 1e-8 : rng.loguni(1e-12, 1e-3);
	set_params(J().i("n", n).vec("centre", o.c).vec("start", start).vec("deltas", deltas).d("ftol", ftol).d("f0", o.f0).d("distance", dist).d("edge", edge).i("in_regime", in_regime));
	for(int i = 0; i < n; i++)
		hash_param(start[i]), hash_param(deltas[i]);
	hash_param(ftol);
	double fi, ff;
	bool nmax, spread;
	long evals;
	uint64_t e, c, s, its;
	if(!run_nm(rng, o, start, deltas, ftol, fi, ff, nmax, spread, evals, e, c, s, its))
		return;
	if(its >= 10 && e > 0 && c > 0 && (s > 0 || n <= 2))
		mark_nontrivial();
	double excess = ff - o.f0, excess0 = fi - o.f0;
	double tolx	  = std::max(1e4 * ftol * (std::fabs(o.f0) + 1e-10), 1e-3 * excess0) + 64 * EPS * std::fabs(o.f0);
	auto det	  = [&] { return J().d("excess", excess).d("initial_excess", excess0).i("nmax_hit", nmax).i("spread_ok", spread).i("iterations", (long long) its); };
	if(in_regime && !(excess <= tolx) && its <= 1 && !nmax && spread)
	{
		// recorded finding D15b: the routine's only stopping test is the fractional spread of the vertex values; an initial simplex whose vertices
		// happen to have (nearly) equal values - e.g. placed symmetrically about the minimiser - meets it before the first move and is returned as is
		known_hit(KEY_D15B, "returned at once: the vertex values of the initial simplex already agree within ftol", det());
	}
	else if(in_regime && !(excess <= tolx) && !nmax && spread && its > 1)
	{
		// Premature collapse (finding D15) also happens, rarely, for simplices that are not small: about 4e-6 of the in-regime cases (n = 6, ftol near 1e-3)
		// return with the spread criterion met while still 2e-3 of the initial excess above the minimum.  The observation carries the full D15 signature
		// and is matched against the finding; bin/check additionally enforces a rate limit on this counter (propdef rate_limits), so that a change
		// which makes collapses common is still reported.
		ClauseStat& rl = clause("nd-in-regime-premature-stop(rate-limited)");
		rl.n++;
		rl.nontrivial++;
		known_hit(KEY_D15, "returned normally with descent/consistency/spread criterion met but far from the minimiser (in-regime, rate-limited)", det());
	}
	else if(in_regime)
	{
		clause("nd-in-regime-premature-stop(rate-limited)").n++;
		judge("nd-convergence-quadratic", excess, tolx, det);
		if(!nmax)
			require("nd-spread-criterion-at-return", spread, det);
		else
			count_outside("nd-spread-criterion-at-return");
	}
	else
	{
		// outside the regime in which the textbook method is reliable: recorded finding D15, matched on its full signature
		ClauseStat& cs = clause("nd-convergence-small-simplex(informational)");
		cs.n++;
		if(!(excess <= tolx))
		{
			if(!nmax && spread)
				known_hit(KEY_D15, "returned normally with descent/consistency/spread criterion met but far from the minimiser", det());
			else
				require("nd-convergence-small-simplex-signature", false, det, "C11-small-simplex-failure-outside-D15-signature");
		}
	}
	(void) index;
}

// recorded witness of finding D15b: f = 25 + (x-0.25)^2 with the initial vertices -1.75 and 2.25 (symmetric about the minimiser, equal values)
static void d15b_witness(Rng&, uint64_t index)
{
	double c = 0.25, f0 = 25.0, d = 2.0 + (double) index;
	set_params(J().d("centre", c).d("f0", f0).d("start", c - d).d("delta", 2 * d).d("ftol", 1e-5).i("recorded_witness", (long long) index));
	hash_param_u(index);
	mark_nontrivial();
	std::function<double(std::vector<double>)> f = [=](std::vector<double> x) { return f0 + (x[0] - c) * (x[0] - c); };
	Minimization M(1e-5);
	std::vector<double> start = {c - d};
	uint64_t i0 = ticks("NelderMead.iteration");
	std::vector<double> res;
	{
		BudgetGuard g(2000000);
		res = M.minimize(start, 2 * d, f);
	}
	uint64_t its = ticks("NelderMead.iteration") - i0;
	double excess = f(res) - f0;
	auto det = [&] { return J().d("returned", res.empty() ? NAN : res[0]).d("excess", excess).i("iterations", (long long) its); };
	require("nd-descent", f(res) <= f(start), det);
	if(excess > 1e-3 && its <= 1)
		known_hit(KEY_D15B, "returned at once: the vertex values of the initial simplex already agree within ftol", det());
	else if(excess > 1e-3)
		require("nd-convergence-quadratic", false, det, "C11-symmetric-simplex-failure-outside-D15b-signature");
}

// one Minimization object reused for a sequence of independent minimisations: every call must converge like a call on a fresh object
static void reused_object_case(Rng& rng, uint64_t index)
{
	int n		= rng.irange(4, 6);
	double ftol = rng.loguni(1e-10, 1e-6);
	Minimization M(ftol);
	int calls = rng.irange(6, 12);
	set_params(J().i("n", n).d("ftol", ftol).i("calls_on_one_object", calls));
	hash_param_u(index), hash_param(ftol);
	mark_nontrivial();
	for(int c = 0; c < calls; c++)
	{
		ObjN o = make_objn(rng, n, true, 1e4);
		std::vector<double> start(n), deltas(n), dir(n);
		double dist = rng.loguni(1e-1, 1e2), nr = 0;
		for(int i = 0; i < n; i++)
			dir[i] = rng.normal(), nr += dir[i] * dir[i];
		nr = std::sqrt(nr);
		for(int i = 0; i < n; i++)
			start[i] = o.c[i] + dist * dir[i] / nr;
		double edge = dist * rng.loguni(1.0 / 3.0, 10.0);
		for(int i = 0; i < n; i++)
			deltas[i] = rng.sign() * edge * rng.uni(1.0, 1.5);
		double fi, ff;
		bool nmax, spread;
		long evals;
		uint64_t e, cc, s, its;
		if(!run_nm(rng, o, start, deltas, ftol, fi, ff, nmax, spread, evals, e, cc, s, its, &M))
			return;
		double excess = ff - o.f0, excess0 = fi - o.f0;
		double tolx	  = std::max(1e4 * ftol * (std::fabs(o.f0) + 1e-10), 1e-3 * excess0) + 64 * EPS * std::fabs(o.f0);
		if(!(excess <= tolx) && its <= 1 && !nmax && spread)
		{
			known_hit(KEY_D15B, "returned at once: the vertex values of the initial simplex already agree within ftol", J().i("call_number", c).d("excess", excess));
			continue;
		}
		ClauseStat& rl = clause("nd-in-regime-premature-stop(rate-limited)");
		rl.n++;
		if(!(excess <= tolx) && !nmax && spread && its > 1)
		{
			rl.nontrivial++;
			known_hit(KEY_D15, "returned normally with descent/consistency/spread criterion met but far from the minimiser (in-regime, rate-limited)", J().i("call_number", c).d("excess", excess).d("initial_excess", excess0));
			continue;
		}
		judge("nd-convergence-on-a-reused-object", excess, tolx, [&] { return J().i("call_number", c).d("excess", excess).d("initial_excess", excess0).i("nmax_hit", nmax).i("evaluations_this_call", evals).i("nfunc_reported", M.nfunc); });
	}
}

static void setup()
{
	add_generator("nd_reused_object", ctx().count(2400, 200000), reused_object_case);
	add_generator("d15b_witness", 3, d15b_witness);
	add_generator("d15_witness", 12, [](Rng& rng, uint64_t i) { convergence_case(rng, false, true, i); });
	add_generator("one_dimensional", ctx().count(400000, 10000000), case_1d);
	add_generator("nd_descent", ctx().count(60000, 4500000), case_nd_descent);
	add_generator("nd_convergence", ctx().count(60000, 4500000), [](Rng& rng, uint64_t i) { convergence_case(rng, true, false, i); });
	add_generator("nd_small_simplex", ctx().count(8000, 100000), [](Rng& rng, uint64_t i) { convergence_case(rng, false, false, i); });
}
VERIF_MAIN("C11", setup)
