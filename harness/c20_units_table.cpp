// C20 (configuration part): prints every unit constant of libphysica::natural_units as a hex float, one "name value" pair per line.
// bin/propdefs/C20.py builds this program against the library compiled by g++ -O0, g++ -O2, clang++ -O0 and clang++ -O2 (hooks off) and
// compares the four tables with each other and with the defining products (DESIGN.md section 4, C20).  A derived constant that is
// dynamically initialised before its factors shows up here as 0, inf or NaN, or as a value that differs between configurations.
#include <cstdio>

#include "libphysica/Natural_Units.hpp"

using namespace libphysica::natural_units;

#define P(x) printf("%s %a\n", #x, (double) (x))
int main()
{
	P(yotta); P(zetta); P(exa); P(peta); P(tera); P(giga); P(mega); P(kilo); P(hecto); P(deca); P(deci); P(centi); P(milli); P(micro); P(nano); P(pico); P(femto); P(atto); P(zepto); P(yocto);
	P(deg); P(arcmin); P(arcsec);
	P(GeV); P(meV); P(eV); P(keV); P(MeV); P(TeV); P(PeV); P(Joule); P(erg); P(Rydberg); P(cal);
	P(gram); P(kg); P(tonne); P(lbs); P(AMU);
	P(cm); P(mm); P(meter); P(km); P(fm); P(inch); P(foot); P(yard); P(mile); P(Angstrom); P(Bohr_Radius);
	P(barn); P(pb); P(acre); P(hectare);
	P(sec); P(ms); P(ns); P(minute); P(hr); P(day); P(week); P(year);
	P(Hz); P(Newton); P(dyne); P(Watt); P(Pa); P(hPa); P(kPa); P(bar); P(barye); P(Kelvin);
	P(Elementary_Charge); P(Coulomb); P(Volt); P(Ampere); P(Farad); P(Tesla); P(Gauss); P(Weber); P(Ohm); P(Siemens); P(mole);
	P(mProton); P(mNeutron); P(mNucleon); P(mUp); P(mDown); P(mCharm); P(mStrange); P(mTop); P(mBottom); P(mElectron); P(mMuon); P(mTau); P(mZ); P(mW); P(mHiggs);
	P(aEM); P(mPlanck); P(mPlanck_reduced); P(G_Newton); P(G_Fermi); P(Higgs_VeV); P(QCD_scale);
	P(mEarth); P(mSun); P(rEarth); P(rSun); P(AU); P(pc); P(kpc); P(Mpc); P(ly);
	return 0;
}
