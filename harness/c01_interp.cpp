// C01 - interpolants reproduce the data and never overshoot it (DESIGN.md section 4, C01).
// Events: values returned by Interpolation::Interpolate / operator() / Derivative and Interpolation_2D::Interpolate.
// Oracles: knot reproduction, no overshoot, monotone between knots, C0/C1 across knots, derivative consistency with the
// returned curve (cubic fitted through 4 values of Interpolate), Steffen (1990) reference model in long double, exact
// reproduction of straight lines and (limiter inactive) parabolas, bilinear reference / node / cell-bound / edge / exactness in 2D.
#include "interp_common.hpp"

#include "libphysica/Numerics.hpp"

using namespace libphysica;
using namespace vf;
using namespace ic;

static const double K_VAL = 64, K_DER = 512;

static Interpolation build(const Table& T)
{
	if(T.table_ctor)
	{
		std::vector<std::vector<double>> rows(T.x.size());
		for(size_t i = 0; i < T.x.size(); i++)
			rows[i] = {T.x[i], T.y[i]};
		return Interpolation(rows, T.x_dim, T.f_dim);
	}
	return Interpolation(T.x, T.y, T.x_dim, T.f_dim);
}

// upper bounds on |I'| and |I''| of a Steffen segment from the data alone (end slopes are at most 2|s|)
static double slope_bound(const Table& T, int j) { return 8.0 * std::fabs(T.Y[j + 1] - T.Y[j]) / T.h(j); }
static double curv_bound(const Table& T, int j) { return 64.0 * std::fabs(T.Y[j + 1] - T.Y[j]) / (T.h(j) * T.h(j)); }

// ------------------------------------------------------------------------------------------------------------------
static void check_table(Rng& rng, const Table& T, Interpolation& I, const Steffen& R, bool random_order)
{
	const int N = T.N();
	// ---- query list
	struct Q
	{
		double x;
		int kind;	// 0 knot, 1 neighbour of knot, 2 interior, 3 extrapolation zone
	};
	std::vector<Q> qs;
	for(int k = 0; k < N; k++)
	{
		qs.push_back({T.X[k], 0});
		if(k > 0)
			qs.push_back({prev(T.X[k]), 1});
		if(k < N - 1)
			qs.push_back({next(T.X[k]), 1});
	}
	int per_seg = N <= 40 ? 6 : 2;
	for(int j = 0; j < N - 1; j++)
		for(int m = 0; m < per_seg; m++)
		{
			double u = (m == 0) ? rng.loguni(1e-9, 1e-2) : (m == 1) ? 1 - rng.loguni(1e-9, 1e-2) : rng.u01();
			double q = T.X[j] + u * T.h(j);
			if(q > T.X[j] && q < T.X[j + 1])
				qs.push_back({q, 2});
		}
	double tl = 1e-2 * T.h(0), tr = 1e-2 * T.h(N - 2);
	for(double f : {0.999, 0.5, 1e-3, 1e-9})
	{
		double ql = T.X[0] - f * tl, qr = T.X[N - 1] + f * tr;
		if(ql < T.X[0] && std::fabs(ql - T.X[0]) < tl)
			qs.push_back({ql, 3});
		if(qr > T.X[N - 1] && std::fabs(qr - T.X[N - 1]) < tr)
			qs.push_back({qr, 3});
	}
	if(std::fabs(prev(T.X[0]) - T.X[0]) < tl)
		qs.push_back({prev(T.X[0]), 3});
	if(std::fabs(next(T.X[N - 1]) - T.X[N - 1]) < tr)
		qs.push_back({next(T.X[N - 1]), 3});
	if(random_order)
		for(size_t i = qs.size() - 1; i > 0; i--)
			std::swap(qs[i], qs[rng.below(i + 1)]);

	// ---- evaluate
	std::vector<double> val(qs.size());
	for(size_t i = 0; i < qs.size(); i++)
		val[i] = (i & 1) ? I(qs[i].x) : I.Interpolate(qs[i].x);

	for(size_t i = 0; i < qs.size(); i++)
	{
		double q = qs[i].x, v = val[i];
		int j	 = T.seg(q);
		if(qs[i].kind == 0)
		{
			int k	 = T.knot_index(q);
			double S = std::max(k > 0 ? T.S(k - 1) : 0.0, k < N - 1 ? T.S(k) : 0.0);
			judge("knot-value-reproduced", std::fabs(v - T.Y[k]), K_VAL * EPS * S, [&] { return J().i("knot", k).d("x", q).d("got", v).d("y", T.Y[k]); });
			// first derivative at the knot equals the reference slope whichever neighbouring cubic is used
			double d1 = I.Derivative(q, 1);
			double hm = std::min(k > 0 ? T.h(k - 1) : INFINITY, k < N - 1 ? T.h(k) : INFINITY);
			judge("knot-slope-vs-steffen-reference", (double) fabsl((ld) d1 - R.dy[k]), K_DER * EPS * S / hm, [&] { return J().i("knot", k).d("x", q).d("got", d1).d("ref", (double) R.dy[k]); });
			continue;
		}
		double S = T.S(j);
		// reference model
		ld ref = R.val(q, j);
		judge("value-vs-steffen-reference", (double) fabsl((ld) v - ref), K_VAL * EPS * S, [&] { return J().d("x", q).i("segment", j).d("got", v).d("ref", (double) ref); });
		if(qs[i].kind != 3)
		{
			double lo = std::min(T.Y[j], T.Y[j + 1]), hi = std::max(T.Y[j], T.Y[j + 1]);
			double over = std::max(lo - v, v - hi);
			judge("no-overshoot-between-knots", std::max(over, 0.0), K_VAL * EPS * S, [&] { return J().d("x", q).i("segment", j).d("got", v).d("y_j", T.Y[j]).d("y_j+1", T.Y[j + 1]); });
		}
		if(qs[i].kind == 2 || qs[i].kind == 3)
		{
			double h = T.h(j);
			double hk = h;
			for(int k = 1; k <= 3; k++, hk *= h)
			{
				double dk = I.Derivative(q, k);
				ld rk	  = R.der(q, j, k);
				char cl[48];
				snprintf(cl, sizeof cl, "derivative-%d-vs-steffen-reference", k);
				judge(cl, (double) fabsl((ld) dk - rk), K_DER * EPS * S / hk, [&] { return J().d("x", q).i("segment", j).i("order", k).d("got", dk).d("ref", (double) rk); });
			}
			double d0 = I.Derivative(q, 0);
			judge("derivative-0-is-interpolate", std::fabs(d0 - v), K_VAL * EPS * S, [&] { return J().d("x", q).d("Derivative(x,0)", d0).d("Interpolate(x)", v); });
			unsigned hi_order = 4 + (unsigned) rng.below(5);
			double d4		  = I.Derivative(q, hi_order);
			require("derivative-order>=4-is-zero", d4 == 0.0, [&] { return J().d("x", q).i("order", hi_order).d("got", d4); });
		}
	}

	// ---- monotone inside every segment: sort the queries of a segment (incl. its end knots) and compare neighbours
	{
		std::vector<std::pair<double, double>> pts;
		for(size_t i = 0; i < qs.size(); i++)
			if(qs[i].kind != 3)
				pts.push_back({qs[i].x, val[i]});
		std::sort(pts.begin(), pts.end());
		for(size_t i = 0; i + 1 < pts.size(); i++)
		{
			double xa = pts[i].first, xb = pts[i + 1].first;
			if(xa == xb)
				continue;
			int j = T.seg(xa);
			if(xb > T.X[j + 1])
				continue;
			double dy = T.Y[j + 1] - T.Y[j];
			double sg = dy > 0 ? 1.0 : dy < 0 ? -1.0 : 0.0;
			double S  = T.S_at(j, xa);
			S		  = std::max(S, T.S_at(j, xb));
			double bad = (sg == 0) ? std::fabs(pts[i + 1].second - pts[i].second) : -(pts[i + 1].second - pts[i].second) * sg;
			judge("monotone-between-knots", std::max(bad, 0.0), K_VAL * EPS * S, [&] { return J().i("segment", j).d("x_a", xa).d("x_b", xb).d("I(x_a)", pts[i].second).d("I(x_b)", pts[i + 1].second).d("y_j", T.Y[j]).d("y_j+1", T.Y[j + 1]); });
		}
	}

	// ---- C0 / C1 across interior knots (fresh look-ups on both sides)
	for(int k = 1; k < N - 1; k++)
	{
		double xm = prev(T.X[k]), xp = next(T.X[k]);
		double vm = I(xm), vp = I(xp);
		double S  = std::max(T.S(k - 1), T.S(k));
		double u  = xp - xm;
		double sb = std::max(slope_bound(T, k - 1), slope_bound(T, k));
		judge("value-continuous-across-knot", std::fabs(vp - vm), K_VAL * EPS * S + sb * u, [&] { return J().i("knot", k).d("left", vm).d("right", vp); });
		double dm = I.Derivative(xm, 1), dp = I.Derivative(xp, 1);
		double hm = std::min(T.h(k - 1), T.h(k));
		double cb = std::max(curv_bound(T, k - 1), curv_bound(T, k));
		judge("slope-continuous-across-knot", std::fabs(dp - dm), K_DER * EPS * S / hm + cb * u, [&] { return J().i("knot", k).d("left", dm).d("right", dp); });
	}

	// ---- reported derivatives are the derivatives of the returned curve: fit the cubic through 4 values of Interpolate
	int nfit = std::min(N - 1, 6);
	for(int m = 0; m < nfit; m++)
	{
		int j	 = (N - 1 <= 6) ? m : rng.irange(0, N - 2);
		double h = T.h(j);
		// Chebyshev points of the open segment, in the local variable t in (0,1)
		ld tt[4], ff[4];
		bool ok = true;
		for(int c = 0; c < 4; c++)
		{
			double t = 0.5 - 0.5 * std::cos(M_PI * (2 * c + 1) / 8.0);
			double q = T.X[j] + t * h;
			if(!(q > T.X[j] && q < T.X[j + 1]))
				ok = false;
			tt[c] = ((ld) q - (ld) T.X[j]) / (ld) h;
			ff[c] = I(q);
		}
		if(!ok)
			continue;
		// Newton divided differences in t
		ld dd[4] = {ff[0], ff[1], ff[2], ff[3]};
		for(int lev = 1; lev < 4; lev++)
			for(int c = 3; c >= lev; c--)
				dd[c] = (dd[c] - dd[c - 1]) / (tt[c] - tt[c - lev]);
		double tq = rng.uni(0.05, 0.95);
		double q  = T.X[j] + tq * h;
		if(!(q > T.X[j] && q < T.X[j + 1]))
			continue;
		ld t = ((ld) q - (ld) T.X[j]) / (ld) h;
		// p(t) = dd0 + dd1 (t-t0) + dd2 (t-t0)(t-t1) + dd3 (t-t0)(t-t1)(t-t2)
		ld a0 = t - tt[0], a1 = t - tt[1], a2 = t - tt[2];
		ld p1 = dd[1] + dd[2] * (a0 + a1) + dd[3] * (a0 * a1 + a0 * a2 + a1 * a2);
		ld p2 = 2 * dd[2] + 2 * dd[3] * (a0 + a1 + a2);
		ld p3 = 6 * dd[3];
		ld pk[4] = {0, p1 / h, p2 / ((ld) h * h), p3 / ((ld) h * h * h)};
		double S = T.S(j);
		double hk = h;
		// conditioning of the fit: values carry up to ~10 eps S each; the k-th derivative of the Lagrange basis on these nodes is bounded by 40, 400, 1300
		static const double cond[4] = {0, 5, 50, 160};
		for(int k = 1; k <= 3; k++, hk *= h)
		{
			double dk = I.Derivative(q, k);
			char cl[56];
			snprintf(cl, sizeof cl, "derivative-%d-is-derivative-of-returned-curve", k);
			judge(cl, (double) fabsl((ld) dk - pk[k]), (K_DER + K_VAL * cond[k]) * EPS * S / hk, [&] { return J().i("segment", j).d("x", q).i("order", k).d("Derivative", dk).d("fitted", (double) pk[k]); });
		}
	}
}

static void case_table(Rng& rng, uint64_t index)
{
	Table T = gen_table(rng, index, 300);
	Steffen R(T.X, T.Y);
	set_params(table_json(T));
	hash_table(T);
	if(table_nontrivial(T, R))
		mark_nontrivial();
	Interpolation I = build(T);
	check_table(rng, T, I, R, rng.coin(0.5));
	if(index % 997 == 0)
		sample(J().i("limiter_active_interior_knots", R.n_active_interior).d("max_spacing_ratio", T.max_ratio()));
}

// ------------------------------------------------------------------------------------------------------------------
// Exactly representable straight lines and parabolas (small integers times a power of two): reproduced to rounding everywhere,
// incl. the extrapolation zones (lines) resp. on every segment where the reference model reports the limiter inactive (parabolas).
static void case_exact_poly(Rng& rng, uint64_t index)
{
	int N		= (index % 8 == 0) ? 3 + (int) ((index / 8) % 4) : rng.irange(3, 60);
	bool parab	= index & 1;
	int gapmode = (int) ((index >> 1) % 3);
	double unit = std::ldexp(1.0, rng.irange(-20, 20));
	std::vector<double> xi(N);
	long long x0 = rng.irange(-2000, 2000);
	xi[0]		 = (double) x0;
	for(int i = 1; i < N; i++)
	{
		long long g = gapmode == 0 ? 7 : gapmode == 1 ? rng.irange(1, 9) : (rng.coin(0.3) ? rng.irange(1, 3) : rng.irange(100, 4000));
		xi[i]		= xi[i - 1] + (double) g;
	}
	double A = rng.irange(-1000, 1000), B = rng.irange(-1000, 1000), C = parab ? (double) rng.irange(-50, 50) : 0.0;
	if(B == 0 && !parab)
		B = 3;
	if(parab && C == 0)
		C = -2;
	double yscale = std::ldexp(1.0, rng.irange(-30, 30));
	Table T;
	T.x.resize(N), T.y.resize(N);
	for(int i = 0; i < N; i++)
	{
		T.x[i] = xi[i] * unit;
		T.y[i] = (A + B * xi[i] + C * xi[i] * xi[i]) * yscale;	  // exact: |value| < 2^53
	}
	T.X = T.x, T.Y = T.y;
	T.table_ctor = rng.coin(0.3);
	set_params(table_json(T).d("A", A).d("B", B).d("C", C).d("x_unit", unit).d("y_scale", yscale));
	hash_table(T);
	Steffen R(T.X, T.Y);
	bool nonuniform = gapmode != 0;
	if(nonuniform && (parab || N > 3))
		mark_nontrivial();
	Interpolation I = build(T);
	double Xm		= std::max(std::fabs(xi[0]), std::fabs(xi[N - 1])) + 1;
	double scale	= (std::fabs(A) + std::fabs(B) * Xm + std::fabs(C) * Xm * Xm) * yscale;
	auto exact		= [&](double q) {
		   ld u = (ld) q / (ld) unit;
		   return ((ld) A + (ld) B * u + (ld) C * u * u) * (ld) yscale;
	};
	auto exact_d1 = [&](double q) {
		ld u = (ld) q / (ld) unit;
		return ((ld) B + 2 * (ld) C * u) * (ld) yscale / (ld) unit;
	};
	std::vector<double> qs;
	for(int j = 0; j < N - 1; j++)
	{
		if(parab && !R.parabolic_segment(j))
		{
			count_outside("parabola-reproduced-where-limiter-inactive");
			continue;
		}
		for(int m = 0; m < 4; m++)
			qs.push_back(T.X[j] + rng.u01() * T.h(j));
		qs.push_back(T.X[j]);
		qs.push_back(T.X[j + 1]);
		// (the rounded query must still satisfy the library's own test |x - end| < 1e-2 h, evaluated the same way: on intervals of a few hundred ulp
		// 0.99% of the interval can round to 1%)
		if(j == 0)
			for(double f : {0.99, 0.3})
			{
				double q = T.X[0] - f * 1e-2 * T.h(0);
				if(q < T.X[0] && std::fabs(q - T.X[0]) < 1e-2 * T.h(0))
					qs.push_back(q);
			}
		if(j == N - 2)
			for(double f : {0.99, 0.3})
			{
				double q = T.X[N - 1] + f * 1e-2 * T.h(N - 2);
				if(q > T.X[N - 1] && std::fabs(q - T.X[N - 1]) < 1e-2 * T.h(N - 2))
					qs.push_back(q);
			}
	}
	const char* cl	= parab ? "parabola-reproduced-where-limiter-inactive" : "straight-line-reproduced";
	const char* cld = parab ? "parabola-slope-reproduced-where-limiter-inactive" : "straight-line-slope-reproduced";
	for(double q : qs)
	{
		// at a knot the object may use the neighbouring segment, which for parabolas may be limited: only interior points and knots shared by two admissible segments
		int k = T.knot_index(q);
		if(parab && k >= 0)
		{
			bool okl = (k == 0) || R.parabolic_segment(k - 1), okr = (k == N - 1) || R.parabolic_segment(std::min(k, N - 2));
			if(!(okl && okr))
				continue;
		}
		double v = I(q);
		judge(cl, (double) fabsl((ld) v - exact(q)), K_VAL * EPS * scale, [&] { return J().d("x", q).d("got", v).d("exact", (double) exact(q)); });
		double d = I.Derivative(q, 1);
		double hmin = T.h(0);
		for(int j = 0; j < N - 1; j++)
			hmin = std::min(hmin, T.h(j));
		judge(cld, (double) fabsl((ld) d - exact_d1(q)), K_DER * EPS * scale / hmin, [&] { return J().d("x", q).d("got", d).d("exact", (double) exact_d1(q)); });
	}
	if(index % 499 == 0)
		sample(J().i("parabola", parab).i("queries", (long long) qs.size()));
}

// ------------------------------------------------------------------------------------------------------------------
// 2D
struct Grid
{
	std::vector<double> x, y, X, Y;
	std::vector<std::vector<double>> f, F;
	double xd = -1, yd = -1, fd = -1;
	bool table_ctor = false;
	int Nx() const { return (int) X.size(); }
	int Ny() const { return (int) Y.size(); }
};
static int seg_of(const std::vector<double>& X, double q)
{
	int n = (int) X.size();
	if(q <= X[0])
		return 0;
	if(q >= X[n - 1])
		return n - 2;
	int j = (int) (std::upper_bound(X.begin(), X.end(), q) - X.begin()) - 1;
	return std::min(std::max(j, 0), n - 2);
}
static Interpolation_2D build2(const Grid& G)
{
	if(G.table_ctor)
	{
		std::vector<std::vector<double>> rows;
		for(size_t i = 0; i < G.x.size(); i++)
			for(size_t j = 0; j < G.y.size(); j++)
				rows.push_back({G.x[i], G.y[j], G.f[i][j]});
		return Interpolation_2D(rows, G.xd, G.yd, G.fd);
	}
	return Interpolation_2D(G.x, G.y, G.f, G.xd, G.yd, G.fd);
}
static void finish_grid(Grid& G)
{
	G.X = G.x, G.Y = G.y, G.F = G.f;
	if(G.xd > 0)
		for(auto& v : G.X)
			v *= G.xd;
	if(G.yd > 0)
		for(auto& v : G.Y)
			v *= G.yd;
	if(G.fd > 0)
		for(auto& r : G.F)
			for(auto& v : r)
				v *= G.fd;
}
static J grid_json(const Grid& G)
{
	std::vector<double> flat;
	for(auto& r : G.f)
		flat.insert(flat.end(), r.begin(), r.end());
	return J().i("Nx", G.Nx()).i("Ny", G.Ny()).d("x_dim", G.xd).d("y_dim", G.yd).d("f_dim", G.fd).i("table_ctor", G.table_ctor).vec("x", G.x).vec("y", G.y).vec("f_row_major", flat);
}

static void case_grid(Rng& rng, uint64_t index)
{
	Grid G;
	int Nx = (index % 5 == 0) ? 3 : rng.irange(3, 14), Ny = (index % 7 == 0) ? 3 : rng.irange(3, 14);
	G.x = gen_x(rng, Nx, (int) (index % N_XSTYLES));
	G.y = gen_x(rng, Ny, (int) ((index / N_XSTYLES) % N_XSTYLES));
	int fstyle = (int) ((index / 36) % 5);
	double mag = rng.loguni(1e-20, 1e20);
	G.f.assign(Nx, std::vector<double>(Ny));
	int si = rng.irange(0, Nx - 1), sj = rng.irange(0, Ny - 1);
	for(int i = 0; i < Nx; i++)
		for(int j = 0; j < Ny; j++)
		{
			double v;
			switch(fstyle)
			{
				case 0: v = rng.uni(-1, 1); break;
				case 1: v = rng.mag(1e-12, 1.0); break;
				case 2: v = (i == si && j == sj) ? 1e6 : rng.uni(-1, 1); break;
				case 3: v = (i + j) % 2 ? 0.0 : rng.uni(0, 1); break;
				default: v = std::sin(0.7 * i) * std::cos(0.9 * j); break;
			}
			G.f[i][j] = v * mag;
		}
	if(rng.coin(0.2))
		G.xd = rng.loguni(1e-6, 1e6);
	if(rng.coin(0.2))
		G.yd = rng.loguni(1e-6, 1e6);
	if(rng.coin(0.2))
		G.fd = rng.loguni(1e-6, 1e6);
	G.table_ctor = rng.coin(0.3);
	finish_grid(G);
	set_params(grid_json(G));
	hash_param_u(Nx), hash_param_u(Ny);
	for(auto& r : G.F)
		for(double v : r)
			hash_param(v);
	for(double v : G.X)
		hash_param(v);
	if((index % N_XSTYLES) != 0 || ((index / N_XSTYLES) % N_XSTYLES) != 0)
		mark_nontrivial();
	Interpolation_2D I = build2(G);

	auto scale_around = [&](int i, int j) {	  // max |F| over the cell and its neighbours (a node query may be served by any adjacent cell)
		double s = 0;
		for(int a = std::max(i - 1, 0); a <= std::min(i + 2, Nx - 1); a++)
			for(int b = std::max(j - 1, 0); b <= std::min(j + 2, Ny - 1); b++)
				s = std::max(s, std::fabs(G.F[a][b]));
		return s;
	};
	auto cell_scale = [&](int i, int j) { return std::max(std::max(std::fabs(G.F[i][j]), std::fabs(G.F[i + 1][j])), std::max(std::fabs(G.F[i][j + 1]), std::fabs(G.F[i + 1][j + 1]))); };
	auto ref = [&](double x, double y, int i, int j) {
		ld t = ((ld) x - G.X[i]) / ((ld) G.X[i + 1] - G.X[i]), u = ((ld) y - G.Y[j]) / ((ld) G.Y[j + 1] - G.Y[j]);
		return (1 - t) * (1 - u) * G.F[i][j] + t * (1 - u) * G.F[i + 1][j] + t * u * G.F[i + 1][j + 1] + (1 - t) * u * G.F[i][j + 1];
	};
	// nodes
	for(int i = 0; i < Nx; i++)
		for(int j = 0; j < Ny; j++)
		{
			double v = (i + j) & 1 ? I(G.X[i], G.Y[j]) : I.Interpolate(G.X[i], G.Y[j]);
			// at a node the bilinear form reduces to the node value itself, whichever adjacent cell serves the query: rounding scale = that value
			judge("2d-node-value-reproduced", std::fabs(v - G.F[i][j]), K_VAL * EPS * std::fabs(G.F[i][j]), [&] { return J().i("i", i).i("j", j).d("got", v).d("f", G.F[i][j]); });
		}
	// interior points of cells, points on edges, neighbours of edges, extrapolation zone
	int ncell = std::min((Nx - 1) * (Ny - 1), 60);
	for(int m = 0; m < ncell; m++)
	{
		int i = rng.irange(0, Nx - 2), j = rng.irange(0, Ny - 2);
		double hx = G.X[i + 1] - G.X[i], hy = G.Y[j + 1] - G.Y[j];
		double S = cell_scale(i, j);
		for(int r = 0; r < 3; r++)
		{
			double x = G.X[i] + rng.u01() * hx, y = G.Y[j] + rng.u01() * hy;
			if(!(x > G.X[i] && x < G.X[i + 1] && y > G.Y[j] && y < G.Y[j + 1]))
				continue;
			double v = I(x, y);
			ld rf	 = ref(x, y, i, j);
			judge("2d-value-vs-bilinear-reference", (double) fabsl((ld) v - rf), K_VAL * EPS * S, [&] { return J().d("x", x).d("y", y).i("i", i).i("j", j).d("got", v).d("ref", (double) rf); });
			double lo = std::min(std::min(G.F[i][j], G.F[i + 1][j]), std::min(G.F[i][j + 1], G.F[i + 1][j + 1]));
			double hi = std::max(std::max(G.F[i][j], G.F[i + 1][j]), std::max(G.F[i][j + 1], G.F[i + 1][j + 1]));
			judge("2d-within-cell-corner-values", std::max(std::max(lo - v, v - hi), 0.0), K_VAL * EPS * S, [&] { return J().d("x", x).d("y", y).d("got", v).d("min", lo).d("max", hi); });
		}
		// shared edge x = X[i+1] (if interior) and its two neighbours
		if(i + 2 < Nx)
		{
			double y = G.Y[j] + rng.u01() * hy;
			if(y > G.Y[j] && y < G.Y[j + 1])
			{
				double xe = G.X[i + 1];
				double S2 = std::max(S, cell_scale(i + 1, j));
				double ve = I(xe, y), vm = I(prev(xe), y), vp = I(next(xe), y);
				ld rl = ref(xe, y, i, j), rr = ref(xe, y, i + 1, j);
				// exactly on the shared edge only its two end nodes contribute (the weights of the other corners vanish): their magnitudes set the rounding scale
				double Se = std::max(std::fabs(G.F[i + 1][j]), std::fabs(G.F[i + 1][j + 1]));
				judge("2d-continuous-across-cell-edge", std::max((double) fabsl((ld) ve - rl), (double) fabsl((ld) ve - rr)), K_VAL * EPS * Se, [&] { return J().d("x_edge", xe).d("y", y).d("got", ve).d("ref_left_cell", (double) rl).d("ref_right_cell", (double) rr); });
				double slope = 4 * S2 / std::min(hx, G.X[i + 2] - G.X[i + 1]);
				judge("2d-continuous-across-cell-edge", std::max(std::fabs(vm - ve), std::fabs(vp - ve)), K_VAL * EPS * S2 + slope * 2 * ulp(xe), [&] { return J().d("x_edge", xe).d("y", y).d("left", vm).d("on", ve).d("right", vp); });
			}
		}
		if(j + 2 < Ny)
		{
			double x = G.X[i] + rng.u01() * hx;
			if(x > G.X[i] && x < G.X[i + 1])
			{
				double ye = G.Y[j + 1];
				double S2 = std::max(S, cell_scale(i, j + 1));
				double ve = I(x, ye), vm = I(x, prev(ye)), vp = I(x, next(ye));
				ld rl = ref(x, ye, i, j), rr = ref(x, ye, i, j + 1);
				double Se = std::max(std::fabs(G.F[i][j + 1]), std::fabs(G.F[i + 1][j + 1]));
				judge("2d-continuous-across-cell-edge", std::max((double) fabsl((ld) ve - rl), (double) fabsl((ld) ve - rr)), K_VAL * EPS * Se, [&] { return J().d("x", x).d("y_edge", ye).d("got", ve).d("ref_lower_cell", (double) rl).d("ref_upper_cell", (double) rr); });
				double slope = 4 * S2 / std::min(hy, G.Y[j + 2] - G.Y[j + 1]);
				judge("2d-continuous-across-cell-edge", std::max(std::fabs(vm - ve), std::fabs(vp - ve)), K_VAL * EPS * S2 + slope * 2 * ulp(ye), [&] { return J().d("x", x).d("y_edge", ye).d("below", vm).d("on", ve).d("above", vp); });
			}
		}
	}
	// extrapolation zone (1% of the edge interval): value agrees with the continued bilinear form of the edge cell
	for(int m = 0; m < 8; m++)
	{
		bool left = m & 1, inx = m & 2;
		double f = rng.uni(0.01, 0.99);
		double x, y;
		if(inx)
		{
			x = left ? G.X[0] - f * 1e-2 * (G.X[1] - G.X[0]) : G.X[Nx - 1] + f * 1e-2 * (G.X[Nx - 1] - G.X[Nx - 2]);
			y = rng.uni(G.Y[0], G.Y[Ny - 1]);
		}
		else
		{
			y = left ? G.Y[0] - f * 1e-2 * (G.Y[1] - G.Y[0]) : G.Y[Ny - 1] + f * 1e-2 * (G.Y[Ny - 1] - G.Y[Ny - 2]);
			x = rng.uni(G.X[0], G.X[Nx - 1]);
		}
		if(!(x >= G.X[0] || inx) || !(x <= G.X[Nx - 1] || inx) || !(y >= G.Y[0] || !inx) || !(y <= G.Y[Ny - 1] || !inx))
			continue;
		// the rounded coordinate must still pass the library's own zone test (|x - end| < 1e-2 h, evaluated the same way): on an edge interval of 1500 ulp
		// 0.99% can round to 1% (thorough tier, grids_2d#695761 at VERIF_SEED=1: a request of mine outside the zone, rightly refused by the library)
		if(inx && !(left ? std::fabs(x - G.X[0]) < 1e-2 * (G.X[1] - G.X[0]) : std::fabs(x - G.X[Nx - 1]) < 1e-2 * (G.X[Nx - 1] - G.X[Nx - 2])))
			continue;
		if(!inx && !(left ? std::fabs(y - G.Y[0]) < 1e-2 * (G.Y[1] - G.Y[0]) : std::fabs(y - G.Y[Ny - 1]) < 1e-2 * (G.Y[Ny - 1] - G.Y[Ny - 2])))
			continue;
		int i = seg_of(G.X, x), j = seg_of(G.Y, y);
		if(G.X[i] == x || G.X[i + 1] == x || G.Y[j] == y || G.Y[j + 1] == y)
			continue;
		double v = I(x, y);
		ld rf	 = ref(x, y, i, j);
		judge("2d-extrapolation-zone-vs-bilinear-reference", (double) fabsl((ld) v - rf), K_VAL * EPS * cell_scale(i, j), [&] { return J().d("x", x).d("y", y).d("got", v).d("ref", (double) rf); });
	}
	if(index % 499 == 0)
		sample(J().i("cells_probed", ncell));
}

// exactly representable bilinear functions a + b x + c y + d x y on integer grids
static void case_bilinear(Rng& rng, uint64_t index)
{
	Grid G;
	int Nx = rng.irange(3, 12), Ny = rng.irange(3, 12);
	double ux = std::ldexp(1.0, rng.irange(-10, 10)), uy = std::ldexp(1.0, rng.irange(-10, 10));
	std::vector<double> xi(Nx), yi(Ny);
	xi[0] = rng.irange(-500, 500), yi[0] = rng.irange(-500, 500);
	for(int i = 1; i < Nx; i++)
		xi[i] = xi[i - 1] + (rng.coin(0.3) ? rng.irange(1, 3) : rng.irange(20, 900));
	for(int j = 1; j < Ny; j++)
		yi[j] = yi[j - 1] + (rng.coin(0.3) ? rng.irange(1, 3) : rng.irange(20, 900));
	double a = rng.irange(-999, 999), b = rng.irange(-999, 999), c = rng.irange(-999, 999), d = (index % 4 == 0) ? 0.0 : (double) rng.irange(-99, 99);
	G.x.resize(Nx), G.y.resize(Ny);
	G.f.assign(Nx, std::vector<double>(Ny));
	for(int i = 0; i < Nx; i++)
		G.x[i] = xi[i] * ux;
	for(int j = 0; j < Ny; j++)
		G.y[j] = yi[j] * uy;
	for(int i = 0; i < Nx; i++)
		for(int j = 0; j < Ny; j++)
			G.f[i][j] = a + b * xi[i] + c * yi[j] + d * xi[i] * yi[j];
	G.table_ctor = rng.coin(0.3);
	finish_grid(G);
	set_params(grid_json(G).d("a", a).d("b", b).d("c", c).d("d", d));
	hash_param(a), hash_param(b), hash_param(c), hash_param(d), hash_param(G.x[0]), hash_param(G.y[0]), hash_param_u(Nx * 100 + Ny);
	mark_nontrivial();
	Interpolation_2D I = build2(G);
	double Xm = std::max(std::fabs(xi[0]), std::fabs(xi[Nx - 1])) + 1, Ym = std::max(std::fabs(yi[0]), std::fabs(yi[Ny - 1])) + 1;
	double scale = std::fabs(a) + std::fabs(b) * Xm + std::fabs(c) * Ym + std::fabs(d) * Xm * Ym;
	for(int m = 0; m < 60; m++)
	{
		double x = rng.uni(G.X[0], G.X[Nx - 1]), y = rng.uni(G.Y[0], G.Y[Ny - 1]);
		if(m % 10 == 0)
			x = G.X[rng.irange(0, Nx - 1)];
		if(m % 15 == 0)
			y = G.Y[rng.irange(0, Ny - 1)];
		ld u = (ld) x / ux, w = (ld) y / uy;
		ld ex = a + b * u + c * w + d * u * w;
		double v = I(x, y);
		judge("2d-bilinear-function-reproduced", (double) fabsl((ld) v - ex), K_VAL * EPS * scale, [&] { return J().d("x", x).d("y", y).d("got", v).d("exact", (double) ex); });
	}
	if(index % 499 == 0)
		sample();
}

static void setup()
{
	add_generator("tables", ctx().count(14400, 3200000), case_table);
	add_generator("exact_lines_parabolas", ctx().count(18000, 3200000), case_exact_poly);
	add_generator("grids_2d", ctx().count(9000, 1600000), case_grid);
	add_generator("bilinear_2d", ctx().count(9000, 1600000), case_bilinear);
}
VERIF_MAIN("C01", setup)
