// C08 - interpolation integrals and extrema are those of the interpolated curve (DESIGN.md section 4, C08).
// All oracles are model-free: the curve is whatever the library's own Interpolate returns.
//   Integrate(x1,x2)  vs  sum over knot-delimited pieces of a 4-point Gauss-Legendre rule applied to Interpolate (exact for cubics),
//   additivity, antisymmetry (bit-exact), bounds by curve min/max x length, small-interval limit (derivative w.r.t. the upper limit),
//   Local_/Global_ extrema vs values of Interpolate at the limits and the knots inside plus a scan,
//   prefactor histories (Set_Prefactor / Multiply of either sign): every output equals prefactor x the unit-prefactor output of the right kind.
#include "interp_common.hpp"

#include "libphysica/Numerics.hpp"

using namespace libphysica;
using namespace vf;
using namespace ic;

static const double K_VAL = 64;

static Interpolation build(const Table& T)
{
	if(T.table_ctor)
	{
		std::vector<std::vector<double>> rows(T.x.size());
		for(size_t i = 0; i < T.x.size(); i++)
			rows[i] = {T.x[i], T.y[i]};
		return Interpolation(rows, T.x_dim, T.f_dim);
	}
	return Interpolation(T.x, T.y, T.x_dim, T.f_dim);
}

struct PieceSum
{
	ld integral = 0;
	double tol_scale = 0;	// sum over pieces of S_j (|x_l| + |x_r| + 4|x_l - x_j| + 4|x_r - x_j|)
	double vmin = INFINITY, vmax = -INFINITY;	// curve extrema over [x1,x2] from the limits and the knots inside (pieces are monotone inside the table)
	double S = 0;	// largest ordinate scale of the touched segments
};
// x1 < x2.  R evaluates the curve (an independent object with the same prefactor P).
static PieceSum reference_integral(const Table& T, Interpolation& R, double P, double x1, double x2)
{
	static const ld xi[2] = {0.339981043584856264802665759103L, 0.861136311594052575223946488893L};
	static const ld wi[2] = {0.652145154862546142626936050778L, 0.347854845137453857373063949222L};
	PieceSum out;
	std::vector<double> cuts = {x1};
	for(int k = 0; k < T.N(); k++)
		if(T.X[k] > x1 && T.X[k] < x2)
			cuts.push_back(T.X[k]);
	cuts.push_back(x2);
	for(size_t c = 0; c + 1 < cuts.size(); c++)
	{
		double xl = cuts[c], xr = cuts[c + 1];
		ld mid = ((ld) xl + (ld) xr) / 2, hw = ((ld) xr - (ld) xl) / 2;
		ld s = 0;
		for(int m = 0; m < 2; m++)
			for(int sg = -1; sg <= 1; sg += 2)
			{
				double q = (double) (mid + sg * hw * xi[m]);
				q		 = std::min(std::max(q, xl), xr);
				s += wi[m] * (ld) R.Interpolate(q);
			}
		out.integral += s * hw;
		int j	  = T.seg((double) mid);
		double Sj = std::fabs(P) * T.S(j);
		out.S	  = std::max(out.S, Sj);
		// rounding scale of the library's antiderivative d*x + c t^2/2 + b t^3/3 + a t^4/4 (t = x - x_j), whose two values are subtracted:
		// |d x| <= S|x| and the t-terms are bounded by 5.5 |dy| t <= 11 S t at either end of the piece
		out.tol_scale += Sj * (std::fabs(xl) + std::fabs(xr) + 4 * (std::fabs(xl - T.X[j]) + std::fabs(xr - T.X[j])));
	}
	for(double q : cuts)
	{
		double v = R.Interpolate(q);
		out.vmin = std::min(out.vmin, v);
		out.vmax = std::max(out.vmax, v);
		int k = T.knot_index(q);	// a limit on a knot may be located in the neighbouring segment: its cubic sets the rounding scale of that piece
		if(k >= 0 && (q == x1 || q == x2))
		{
			double Sn = std::fabs(P) * std::max(k > 0 ? T.S(k - 1) : 0.0, k < T.N() - 1 ? T.S(k) : 0.0);
			out.S	  = std::max(out.S, Sn);
			out.tol_scale += Sn * (2 * std::fabs(q));
		}
	}
	return out;
}

// random limit pair of a given kind; returns false if the kind is not available
static bool gen_limits(Rng& rng, const Table& T, int kind, double& x1, double& x2)
{
	int N = T.N();
	switch(kind)
	{
		case 0: {	// inside one interval
			int j = rng.irange(0, N - 2);
			x1 = T.X[j] + rng.u01() * T.h(j), x2 = T.X[j] + rng.u01() * T.h(j);
			break;
		}
		case 1:	  // spanning many
			x1 = rng.uni(T.X[0], T.X[N - 1]), x2 = rng.uni(T.X[0], T.X[N - 1]);
			break;
		case 2:	  // at knots
			x1 = T.X[rng.irange(0, N - 1)], x2 = T.X[rng.irange(0, N - 1)];
			break;
		case 3: {	// one knot, one interior
			x1 = T.X[rng.irange(0, N - 1)];
			int j = rng.irange(0, N - 2);
			x2 = T.X[j] + rng.u01() * T.h(j);
			break;
		}
		case 4: {	// extrapolation zone on one or both sides
			double tl = 1e-2 * T.h(0), tr = 1e-2 * T.h(N - 2);
			x1 = T.X[0] - rng.uni(0.01, 0.99) * tl;
			x2 = rng.coin() ? T.X[N - 1] + rng.uni(0.01, 0.99) * tr : rng.uni(T.X[0], T.X[N - 1]);
			if(rng.coin(0.3))
				x1 = rng.uni(T.X[0], T.X[N - 1]), x2 = T.X[N - 1] + rng.uni(0.01, 0.99) * tr;
			if(rng.coin(0.15))	 // both limits inside the same zone
			{
				if(rng.coin())
					x1 = T.X[0] - rng.uni(0.01, 0.99) * tl, x2 = T.X[0] - rng.uni(0.01, 0.99) * tl;
				else
					x1 = T.X[N - 1] + rng.uni(0.01, 0.99) * tr, x2 = T.X[N - 1] + rng.uni(0.01, 0.99) * tr;
			}
			if(!(std::fabs(x1 - T.X[0]) < tl || x1 >= T.X[0]) || !(std::fabs(x2 - T.X[N - 1]) < tr || x2 <= T.X[N - 1]))
				return false;
			if(x1 < T.X[0] && !(std::fabs(x1 - T.X[0]) < tl))
				return false;
			if(x2 > T.X[N - 1] && !(std::fabs(x2 - T.X[N - 1]) < tr))
				return false;
			if(x2 < T.X[0] && !(std::fabs(x2 - T.X[0]) < tl))
				return false;
			if(x1 > T.X[N - 1] && !(std::fabs(x1 - T.X[N - 1]) < tr))
				return false;
			break;
		}
		case 5: {	// tiny interval (derivative of the integral w.r.t. its upper limit)
			int j = rng.irange(0, N - 2);
			x1	  = T.X[j] + rng.uni(0.05, 0.9) * T.h(j);
			x2	  = x1 + rng.loguni(1e-7, 1e-2) * T.h(j);
			if(!(x2 > x1 && x2 < T.X[j + 1]))
				return false;
			break;
		}
		default:   // whole domain
			x1 = T.X[0], x2 = T.X[N - 1];
			break;
	}
	return true;
}

// Parabola data whose vertex lies inside the 1% extrapolation zone beyond the first or last knot (the edge cubic is that parabola, so the curve has a
// turning point in the zone that Local_Minimum/Maximum must find), at ordinary, tiny and stretched scales: ordinates down to 1e-26 or abscissae up to
// 1e8, which makes the stored coefficients f/h^2, f/h^3 smaller than any absolute threshold (seeded change C08-r3m3).
static void make_vertex_in_zone(Rng& rng, Table& T)
{
	int N = (int) T.x.size();
	double xs = rng.coin(0.4) ? rng.loguni(1e4, 1e8) : 1.0, fs = rng.coin(0.6) ? rng.loguni(1e-26, 1e-12) : 1.0;
	std::vector<double> x = T.x;
	bool right = rng.coin();
	double delta = rng.uni(0.001, 0.009);
	double v = right ? x[N - 1] + delta * (x[N - 1] - x[N - 2]) : x[0] - delta * (x[1] - x[0]);
	double sgn = rng.sign(), k = rng.coin() ? 0.0 : rng.uni(-1, 1) * (x[N - 1] - x[0]) * (x[N - 1] - x[0]);
	T.y.resize(N);
	for(int i = 0; i < N; i++)
		T.y[i] = fs * (sgn * (x[i] - v) * (x[i] - v) + k), T.x[i] = xs * x[i];
	T.x_dim = T.f_dim = -1.0;
	T.X = T.x, T.Y = T.y;
	T.ystyle = 0;
}

static void case_table(Rng& rng, uint64_t index)
{
	Table T = gen_table(rng, index, 120);
	bool vertex_table = index % 12 == 7;
	if(vertex_table)
		make_vertex_in_zone(rng, T);
	Steffen M(T.X, T.Y);
	set_params(table_json(T));
	hash_table(T);
	if(table_nontrivial(T, M))
		mark_nontrivial();
	const int N = T.N();
	Interpolation U = build(T);	  // unit prefactor, used object
	Interpolation V = build(T);	  // receives the prefactor history
	Interpolation R = build(T);	  // curve evaluator for the references (kept at the same prefactor as V)
	double P = 1.0;
	int nq	 = 24;
	for(int q = 0; q < nq; q++)
	{
		if(q > 0 && rng.coin(0.35))
		{
			int steps = rng.irange(1, 3);
			for(int s = 0; s < steps; s++)
				prefactor_step(rng, V, P);
			R.Set_Prefactor(P);
		}
		int kind = (q < 7) ? q : rng.irange(0, 6);
		if(vertex_table && q >= 7 && rng.coin(0.6))
			kind = 4;
		double x1, x2;
		if(!gen_limits(rng, T, kind, x1, x2))
			continue;
		bool in_zone = (x1 < T.X[0] || x2 < T.X[0] || x1 > T.X[N - 1] || x2 > T.X[N - 1]);
		auto detail	 = [&](J j) { return j.d("x1", x1).d("x2", x2).d("prefactor", P).i("limit_kind", kind); };

		// ---------------- Integrate
		// U mirrors every call made on V, so that both objects have the same look-up history (bit comparisons at knots need that)
		double got = V.Integrate(x1, x2);
		double unit = U.Integrate(x1, x2);
		double rev = V.Integrate(x2, x1);
		(void) U.Integrate(x2, x1);
		double lo = std::min(x1, x2), hi = std::max(x1, x2);
		double sg = (x1 <= x2) ? 1.0 : -1.0;
		if(lo == hi)
		{
			require("integrate-equal-limits-zero", got == 0.0 && rev == 0.0, [&] { return detail(J().d("got", got).d("reversed", rev)); });
		}
		else
		{
			PieceSum ref = reference_integral(T, R, P, lo, hi);
			double tol	 = K_VAL * EPS * ref.tol_scale;
			judge("integrate-antisymmetric", std::fabs(rev + got), tol, [&] { return detail(J().d("I(x1,x2)", got).d("I(x2,x1)", rev)); });
			judge("integrate-is-integral-of-interpolate", (double) fabsl((ld) got - sg * ref.integral), tol, [&] { return detail(J().d("got", got).d("gauss_legendre_over_Interpolate", (double) (sg * ref.integral))); });
			if(!in_zone)
			{
				double L  = hi - lo;
				double bad = std::max(sg * got - ref.vmax * L, ref.vmin * L - sg * got);
				judge("integrate-bounded-by-curve-extrema-times-length", std::max(bad, 0.0), tol + K_VAL * EPS * ref.S * L, [&] { return detail(J().d("got", got).d("curve_min", ref.vmin).d("curve_max", ref.vmax)); });
			}
			if(kind == 5)
			{
				// (F(x2)-F(x1))/(x2-x1) -> Interpolate: trapezoid value with the cubic's curvature bound
				double dx = hi - lo;
				double va = R.Interpolate(lo), vb = R.Interpolate(hi);
				int j	  = T.seg(lo);
				double curv = std::fabs(P) * 64.0 * std::fabs(T.Y[j + 1] - T.Y[j]) / (T.h(j) * T.h(j));
				judge("integral-derivative-wrt-upper-limit-is-interpolate", std::fabs(sg * got - 0.5 * (va + vb) * dx), tol + curv * dx * dx * dx / 12 + K_VAL * EPS * ref.S * dx, [&] { return detail(J().d("got", got).d("I(x1)", va).d("I(x2)", vb)); });
			}
			// additivity over adjacent intervals
			double xm = rng.coin(0.3) ? T.X[rng.irange(0, N - 1)] : rng.uni(T.X[0], T.X[N - 1]);
			double a1 = V.Integrate(x1, xm), a2 = V.Integrate(xm, x2);
			(void) U.Integrate(x1, xm), (void) U.Integrate(xm, x2);
			PieceSum r1, r2;
			double t1 = 0, t2 = 0;
			if(xm != x1)
				t1 = reference_integral(T, R, P, std::min(x1, xm), std::max(x1, xm)).tol_scale;
			if(xm != x2)
				t2 = reference_integral(T, R, P, std::min(x2, xm), std::max(x2, xm)).tol_scale;
			judge("integrate-additive-over-adjacent-intervals", std::fabs((a1 + a2) - got), K_VAL * EPS * (ref.tol_scale + t1 + t2), [&] { return detail(J().d("x_mid", xm).d("I(x1,xm)", a1).d("I(xm,x2)", a2).d("I(x1,x2)", got)); });
			// prefactor scaling of the integral: P x unit-prefactor integral within the same tolerance
			judge("integrate-scales-with-prefactor", std::fabs(got - P * unit), 2 * tol, [&] { return detail(J().d("got", got).d("unit_prefactor_result", unit)); });
		}

		// ---------------- Local extrema (arguments must be ordered)
		{
			// at a knot the value depends on the look-up state (C09: within rounding), so the unit-prefactor call that is compared bit for bit
			// with V's first call must also be U's first call: for a negative prefactor V's minimum pairs with U's maximum
			double lmin = V.Local_Minimum(lo, hi), lmax = V.Local_Maximum(lo, hi);
			double umin, umax;
			if(P < 0)
				umax = U.Local_Maximum(lo, hi), umin = U.Local_Minimum(lo, hi);
			else
				umin = U.Local_Minimum(lo, hi), umax = U.Local_Maximum(lo, hi);
			double emin = (P < 0) ? P * umax : P * umin, emax = (P < 0) ? P * umin : P * umax;
			require("local-extrema-scale-with-prefactor", near_ulps(lmin, emin, 4) && near_ulps(lmax, emax, 4), [&] { return detail(J().d("Local_Minimum", lmin).d("Local_Maximum", lmax).d("unit_min", umin).d("unit_max", umax)); });
			// curve values at the limits, the knots inside and on a scan
			double vmin = INFINITY, vmax = -INFINITY, S = 0;
			std::vector<double> pts = {lo, hi};
			for(int k = 0; k < N; k++)
				if(T.X[k] >= lo && T.X[k] <= hi)
					pts.push_back(T.X[k]);
			for(double q : pts)
			{
				double v = R.Interpolate(q);
				vmin = std::min(vmin, v), vmax = std::max(vmax, v);
			}
			// a limit that is a knot may be served by either neighbouring cubic (C09): both segments set the rounding scale
			int j1 = T.seg(lo), j2 = T.seg(hi);
			if(T.knot_index(lo) >= 0 && j1 > 0)
				j1--;
			if(T.knot_index(hi) >= 0 && j2 < N - 2)
				j2++;
			if(T.knot_index(hi) >= 0 && T.seg(hi) > 0)
				j1 = std::min(j1, T.seg(hi) - 1);
			for(int j = j1; j <= j2; j++)
				S = std::max(S, std::fabs(P) * T.S(j));
			double smin = vmin, smax = vmax;
			int nscan = 200;
			for(int m = 1; m < nscan; m++)
			{
				double q = lo + (hi - lo) * ((m - 0.5 + 0.5 * rng.u01()) / nscan);
				if(!(q >= lo && q <= hi))
					continue;
				double v = R.Interpolate(q);
				smin = std::min(smin, v), smax = std::max(smax, v);
			}
			double tol = K_VAL * EPS * S;
			judge("no-evaluation-below-local-minimum", std::max(lmin - smin, 0.0), tol, [&] { return detail(J().d("Local_Minimum", lmin).d("smallest_value_seen", smin)); });
			judge("no-evaluation-above-local-maximum", std::max(smax - lmax, 0.0), tol, [&] { return detail(J().d("Local_Maximum", lmax).d("largest_value_seen", smax)); });
			if(!in_zone)
			{
				// inside the table the pieces are monotone (C01), so the extrema are attained at the limits or at knots inside
				judge("local-minimum-is-smallest-curve-value", std::fabs(lmin - vmin), tol, [&] { return detail(J().d("Local_Minimum", lmin).d("min_over_limits_and_knots", vmin)); });
				judge("local-maximum-is-largest-curve-value", std::fabs(lmax - vmax), tol, [&] { return detail(J().d("Local_Maximum", lmax).d("max_over_limits_and_knots", vmax)); });
			}
			else
			{
				// in the extrapolation zones the edge cubic is continued and need not be monotone: the extremum must still be (nearly) attained.
				// Dense scan of the zone parts; the remaining gap is bounded by the curvature of the edge cubic over one scan step.
				double zmin = smin, zmax = smax;
				for(int side = 0; side < 2; side++)
				{
					double a = side == 0 ? lo : std::max(lo, T.X[N - 1]), b = side == 0 ? std::min(hi, T.X[0]) : hi;
					if(!(a < b))
						continue;
					for(int m = 0; m <= 400; m++)
					{
						double q = a + (b - a) * m / 400.0;
						q		 = std::min(std::max(q, a), b);
						double v = R.Interpolate(q);
						zmin = std::min(zmin, v), zmax = std::max(zmax, v);
					}
				}
				int je		 = 0;
				double curv0 = std::fabs(P) * 64.0 * std::fabs(T.Y[je + 1] - T.Y[je]) / (T.h(je) * T.h(je));
				je			 = N - 2;
				double curv1 = std::fabs(P) * 64.0 * std::fabs(T.Y[je + 1] - T.Y[je]) / (T.h(je) * T.h(je));
				double step0 = 1e-2 * T.h(0) / 400, step1 = 1e-2 * T.h(N - 2) / 400;
				double slack = curv0 * step0 * step0 + curv1 * step1 * step1;
				judge("local-minimum-is-attained-incl-extrapolation-zone", std::max(zmin - lmin, 0.0), tol + slack, [&] { return detail(J().d("Local_Minimum", lmin).d("smallest_value_seen", zmin)); });
				judge("local-maximum-is-attained-incl-extrapolation-zone", std::max(lmax - zmax, 0.0), tol + slack, [&] { return detail(J().d("Local_Maximum", lmax).d("largest_value_seen", zmax)); });
			}
		}
	}
	// ---------------- Global extrema (after the last prefactor history)
	{
		double gmin = V.Global_Minimum(), gmax = V.Global_Maximum();
		double ymin = *std::min_element(T.Y.begin(), T.Y.end()), ymax = *std::max_element(T.Y.begin(), T.Y.end());
		double emin = (P < 0) ? P * ymax : P * ymin, emax = (P < 0) ? P * ymin : P * ymax;
		require("global-extrema-are-prefactor-times-table-extrema", near_ulps(gmin, emin, 4) && near_ulps(gmax, emax, 4), [&] { return J().d("prefactor", P).d("Global_Minimum", gmin).d("Global_Maximum", gmax).d("table_min", ymin).d("table_max", ymax); });
		double umin = U.Global_Minimum(), umax = U.Global_Maximum();
		require("global-extrema-unit-prefactor", near_ulps(umin, ymin, 4) && near_ulps(umax, ymax, 4), [&] { return J().d("Global_Minimum", umin).d("Global_Maximum", umax).d("table_min", ymin).d("table_max", ymax); });
		int nscan = std::max(200, 4 * N);
		for(int m = 0; m < nscan; m++)
		{
			double q = (m < N) ? T.X[m] : rng.uni(T.X[0], T.X[N - 1]);
			double v = R.Interpolate(q);
			int j	 = T.seg(q);
			double S = std::fabs(P) * T.S_at(j, q);
			judge("no-evaluation-outside-global-extrema", std::max(std::max(gmin - v, v - gmax), 0.0), K_VAL * EPS * S, [&] { return J().d("prefactor", P).d("x", q).d("value", v).d("Global_Minimum", gmin).d("Global_Maximum", gmax); });
		}
	}
	// ---------------- Integrate with prefactors at the ends of the format: as large (small) as the table allows with P*f and P*integral still normal
	// numbers.  The integral has to scale like every other output (seeded change C08-r6m3 multiplied the cubic coefficients, ~ f/h^3, by the
	// prefactor before the powers of the small distances: inf - inf).  Judged in long double against P x the unit-prefactor integral.
	{
		double amax = 0;
		for(double y : T.Y)
			amax = std::max(amax, std::fabs(y));
		// (span: the width of the table and its distance from the origin - the library forms prefactor x f x x before it takes the difference of the two
		// stem-function values, so that product has to be representable as well; thorough tier, tables#1784640: a constant table at x = -2.4e11)
		double span = std::max(std::max(1.0, 3 * (T.X[N - 1] - T.X[0])), 4 * std::max(std::fabs(T.X[0]), std::fabs(T.X[N - 1])));
		if(amax > 0 && std::isfinite(amax * span))
			for(int m = 0; m < 4; m++)
			{
				double le = (m % 2 == 0) ? std::floor(std::log2(1e300 / (amax * span))) : std::ceil(std::log2(1e-280 / amax));
				if(!(std::fabs(le) < 1020))
					continue;
				double f = rng.sign() * std::ldexp(1.0, (int) le);
				if(!std::isfinite(f) || f == 0)
					continue;
				double x1 = rng.uni(T.X[0], T.X[N - 1]), x2 = rng.coin(0.2) ? T.X[rng.irange(0, N - 1)] : rng.uni(T.X[0], T.X[N - 1]);
				if(x1 == x2)
					continue;
				V.Set_Prefactor(f);
				P			 = f;
				double got	 = V.Integrate(x1, x2);
				double unit	 = U.Integrate(x1, x2);
				PieceSum ref = reference_integral(T, U, 1.0, std::min(x1, x2), std::max(x1, x2));
				// (a result that is itself a subnormal number carries an absolute error of the subnormal spacing)
				ld tol		 = 2 * (ld) K_VAL * EPS * (ld) ref.tol_scale + 4 * (ld) EPS * fabsl((ld) unit) + 8 * 4.9406564584124654e-324L / fabsl((ld) f);
				ld err		 = std::isfinite(got) ? fabsl((ld) got / (ld) f - (ld) unit) : (ld) INFINITY;
				judge("integrate-scales-with-extreme-prefactor", (double) err, (double) tol, [&] { return J().d("x1", x1).d("x2", x2).d("prefactor", f).d("got", got).d("unit_prefactor_result", unit); });
			}
		R.Set_Prefactor(P);
	}
	if(index % 499 == 0)
		sample(J().d("final_prefactor", P));
}

// ------------------------------------------------------------------------------------------------------------------
// 2D global extrema with prefactor histories
static void case_grid(Rng& rng, uint64_t index)
{
	int Nx = rng.irange(3, 12), Ny = rng.irange(3, 12);
	std::vector<double> x = gen_x(rng, Nx, (int) (index % N_XSTYLES)), y = gen_x(rng, Ny, (int) ((index / 6) % N_XSTYLES));
	std::vector<std::vector<double>> f(Nx, std::vector<double>(Ny));
	double mag = rng.loguni(1e-20, 1e20);
	int mode   = (int) (index % 4);
	for(auto& r : f)
		for(auto& v : r)
			v = mag * (mode == 0 ? rng.uni(-1, 1) : mode == 1 ? rng.uni(0.1, 1) : mode == 2 ? -rng.uni(0.1, 1) : rng.mag(1e-9, 1.0));
	double fd = rng.coin(0.2) ? rng.loguni(1e-6, 1e6) : -1.0;
	std::vector<double> flat;
	for(auto& r : f)
		flat.insert(flat.end(), r.begin(), r.end());
	set_params(J().i("Nx", Nx).i("Ny", Ny).vec("x", x).vec("y", y).vec("f_row_major", flat).d("f_dim", fd));
	for(double v : flat)
		hash_param(v);
	mark_nontrivial();
	Interpolation_2D V(x, y, f, -1.0, -1.0, fd), R(x, y, f, -1.0, -1.0, fd);
	double fmin = INFINITY, fmax = -INFINITY;
	for(double v : flat)
	{
		double w = fd > 0 ? v * fd : v;
		fmin = std::min(fmin, w), fmax = std::max(fmax, w);
	}
	double P = 1.0;
	for(int round = 0; round < 4; round++)
	{
		if(round > 0)
		{
			int steps = rng.irange(1, 3);
			for(int s = 0; s < steps; s++)
				prefactor_step(rng, V, P);
			R.Set_Prefactor(P);
		}
		double gmin = V.Global_Minimum(), gmax = V.Global_Maximum();
		double emin = (P < 0) ? P * fmax : P * fmin, emax = (P < 0) ? P * fmin : P * fmax;
		require("2d-global-extrema-are-prefactor-times-table-extrema", near_ulps(gmin, emin, 4) && near_ulps(gmax, emax, 4), [&] { return J().d("prefactor", P).d("Global_Minimum", gmin).d("Global_Maximum", gmax).d("table_min", fmin).d("table_max", fmax); });
		double S = std::fabs(P) * std::max(std::fabs(fmin), std::fabs(fmax));
		for(int m = 0; m < 300; m++)
		{
			double qx = (m % 7 == 0) ? x[rng.irange(0, Nx - 1)] : rng.uni(x[0], x[Nx - 1]);
			double qy = (m % 5 == 0) ? y[rng.irange(0, Ny - 1)] : rng.uni(y[0], y[Ny - 1]);
			double v  = R.Interpolate(qx, qy);
			judge("2d-no-evaluation-outside-global-extrema", std::max(std::max(gmin - v, v - gmax), 0.0), K_VAL * EPS * S, [&] { return J().d("prefactor", P).d("x", qx).d("y", qy).d("value", v).d("Global_Minimum", gmin).d("Global_Maximum", gmax); });
		}
	}
	if(index % 499 == 0)
		sample(J().d("final_prefactor", P));
}

static void setup()
{
	add_generator("tables", ctx().count(20000, 2000000), case_table);
	add_generator("grids_2d", ctx().count(6400, 400000), case_grid);
}
VERIF_MAIN("C08", setup)
